"""C14 — storage engines behave like a map under any flushes, compactions and overlap.

Tie to /repo: generated workloads are executed on the real LSMTree (sync API and
generator API, sequentially and inside a real Simulation with overlapping
operations), BTree, KVStore and TransactionManager; the observations (result of
every operation and a snapshot of the engine state after every step) are compared
inside Coq with the models of coq/C14/Model.v (ok_* functions).  The property
oracle (independent of the model) evaluates the C14 statement on the
implementation's observations: an interval-annotated reference map.

Private attributes read: LSMTree._memtable._data, _immutable_memtables, _levels,
_total_compactions, _total_memtable_flushes; SSTable._data; BTree._root (nodes);
KVStore._data; TransactionManager._commit_log/_version.
"""
from __future__ import annotations

import itertools

from hsverif.coq import Ctor, Nat, SomeV, term
from hsverif.family import Family, merge_stats, run_family

IMPORTS = "From HS Require Import Base.Prelude C14.Model."
LEVEL = "proof"

NKEYS = 6


def kname(i: int) -> str:
    return f"k{i:02d}"


def kid(s: str) -> int:
    return int(s[1:])


# --------------------------------------------------------------------------- helpers
def drive(g):
    """Run a generator method to completion with nothing scheduled in between."""
    try:
        while True:
            next(g)
    except StopIteration as e:
        return e.value


def gen_strategy(rng):
    k = rng.random()
    if k < 0.45:
        return ["size", rng.choice([1, 2, 2, 3, 4])]
    if k < 0.8:
        return ["leveled", rng.choice([1, 2, 3]), rng.choice([1, 2, 3]), rng.choice([1, 2, 4])]
    return ["fifo", rng.choice([0, 1, 2, 3, 5])]


def make_strategy(s):
    from happysimulator.components.storage.lsm_tree import FIFOCompaction, LeveledCompaction, SizeTieredCompaction
    if s[0] == "size":
        return SizeTieredCompaction(min_sstables=s[1])
    if s[0] == "leveled":
        return LeveledCompaction(level_0_max=s[1], size_ratio=s[2], base_size_keys=s[3])
    return FIFOCompaction(max_total_sstables=s[1])


def strategy_term(s):
    if s[0] == "size":
        return Ctor("SizeTiered", s[1])
    if s[0] == "leveled":
        return Ctor("Leveled", s[1], s[2], s[3])
    return Ctor("Fifo", s[1])


def cfg_term(c):
    return Ctor("mkCfg", c["thr"], Nat(c["nlev"]), strategy_term(c["strategy"]))


def gen_cfg(rng):
    return dict(thr=rng.choice([1, 1, 2, 2, 3, 4]), nlev=rng.choice([1, 2, 2, 3, 3, 4]), strategy=gen_strategy(rng))


def gen_ops(rng, n, nkeys):
    ops = []
    for _ in range(n):
        k = rng.random()
        key = rng.randrange(nkeys)
        if k < 0.45:
            ops.append(["put", key, rng.randint(0, 99)])
        elif k < 0.65:
            ops.append(["del", key])
        elif k < 0.9:
            ops.append(["get", key])
        else:
            lo = rng.randrange(nkeys)
            ops.append(["scan", lo, rng.randint(lo, nkeys)])
    return ops


def op_term(o):
    if o[0] == "put":
        return Ctor("Put", o[1], o[2])
    if o[0] == "del":
        return Ctor("Del", o[1])
    if o[0] == "get":
        return Ctor("Get", o[1])
    return Ctor("Scan", o[1], o[2])


def sval_py(v):
    from happysimulator.components.storage.lsm_tree import _TOMBSTONE
    return "T" if v is _TOMBSTONE else v


def sval_term(v):
    return Ctor("Tomb") if v == "T" else Ctor("Val", v)


def table_py(items):
    return sorted([kid(k), sval_py(v)] for k, v in items)


def table_term(t):
    return [(k, sval_term(v)) for k, v in t]


def lsm_snapshot(lsm):
    return dict(
        mem=table_py(lsm._memtable._data.items()),
        imm=[table_py(m._data.items()) for m in lsm._immutable_memtables],
        levels=[[table_py(s._data) for s in lvl] for lvl in lsm._levels],
        ncomp=lsm._total_compactions, nflush=lsm._total_memtable_flushes)


def snap_term(s):
    return (table_term(s["mem"]), [[table_term(t) for t in lvl] for lvl in s["levels"]], s["ncomp"], s["nflush"])


_FPS = {}


def bloom_fps(nkeys):
    """False positives of the real Bloom filters over the key space: for every non-empty
    key subset (an SSTable's key set) the keys outside it that its filter reports."""
    if nkeys not in _FPS:
        from happysimulator.components.storage.sstable import SSTable
        out = []
        for r in range(1, nkeys + 1):
            for sub in itertools.combinations(range(nkeys), r):
                t = SSTable([(kname(k), 0) for k in sub])
                for k in range(nkeys):
                    if k not in sub and t.contains(kname(k)):
                        out.append([list(sub), k])
        _FPS[nkeys] = out
    return _FPS[nkeys]


def out_term(o, r):
    if o[0] in ("put", "del"):
        return Ctor("ONone")
    if o[0] == "get":
        return Ctor("OGet", None if r is None else SomeV(r))
    return Ctor("OScan", [(k, v) for k, v in r])


# --------------------------------------------------------------------------- reference map (oracle)
def seq_oracle(ops, results, what):
    """Sequential workloads: every read equals the read on a dict fed the same writes."""
    ref = {}
    for i, (o, r) in enumerate(zip(ops, results)):
        if o[0] == "put":
            ref[o[1]] = o[2]
        elif o[0] == "del":
            ref.pop(o[1], None)
        elif o[0] == "get":
            if r != ref.get(o[1]):
                return [dict(clause=f"{what}: read returns the latest write (sequential)", step=i, op=o, got=r, expected=ref.get(o[1]))]
        else:
            exp = sorted([k, v] for k, v in ref.items() if o[1] <= k < o[2])
            if [list(x) for x in r] != exp:
                return [dict(clause=f"{what}: scan returns exactly the live keys of the range in order", step=i, op=o, got=r, expected=exp)]
    return []


# --------------------------------------------------------------------------- family: LSM, sequential
def gen_lsm_seq(rng):
    nkeys = rng.choice([3, 4, 6])
    return dict(cfg=gen_cfg(rng), nkeys=nkeys, api=rng.choice(["sync", "gen"]),
                ops=gen_ops(rng, rng.randint(5, 60), nkeys))


def impl_lsm_seq(c):
    from happysimulator.components.storage.lsm_tree import LSMTree
    cf = c["cfg"]
    lsm = LSMTree("db", memtable_size=cf["thr"], compaction_strategy=make_strategy(cf["strategy"]), max_levels=cf["nlev"])
    results, snaps = [], []
    for o in c["ops"]:
        if o[0] == "put":
            if c["api"] == "sync":
                lsm.put_sync(kname(o[1]), o[2])
            else:
                drive(lsm.put(kname(o[1]), o[2]))
            r = None
        elif o[0] == "del":
            drive(lsm.delete(kname(o[1])))
            r = None
        elif o[0] == "get":
            r = lsm.get_sync(kname(o[1])) if c["api"] == "sync" else drive(lsm.get(kname(o[1])))
        else:
            r = [[kid(k), v] for k, v in drive(lsm.scan(kname(o[1]), kname(o[2])))]
        results.append(r)
        snaps.append(lsm_snapshot(lsm))
    return dict(results=results, snaps=snaps)


def encode_lsm_seq(c, obs):
    steps = [(op_term(o), out_term(o, r), snap_term(s)) for o, r, s in zip(c["ops"], obs["results"], obs["snaps"])]
    return term((cfg_term(c["cfg"]), [(ks, k) for ks, k in bloom_fps(c["nkeys"])], steps))


def oracle_lsm_seq(c, obs):
    out = seq_oracle(c["ops"], obs["results"], "lsm")
    for s in obs["snaps"]:
        if s["imm"]:
            out.append(dict(clause="lsm: no immutable memtable is left behind between sequential operations"))
            break
    return out


# --------------------------------------------------------------------------- family: LSM, overlapping operations in a real Simulation
US = 1000  # ns


def gen_lsm_conc(rng):
    nkeys = rng.choice([2, 3, 4])
    cfg = gen_cfg(rng)
    if rng.random() < 0.6:
        cfg["thr"] = rng.choice([1, 1, 2])
    n = rng.randint(4, 22)
    t = 0
    ops = []
    gaps = [0, 5 * US, 10 * US, 500 * US, 1000 * US, 1990 * US, 2000 * US, 2010 * US, 2500 * US, 4020 * US]
    wts = [2, 2, 2, 3, 3, 1, 2, 2, 2, 1]
    for o in gen_ops(rng, n, nkeys):
        t += rng.choices(gaps, wts)[0]
        ops.append([t, o])
    for i, (t, o) in enumerate(ops):
        if o[0] == "put":
            o[2] = 100 + i          # every write has its own value
    return dict(cfg=cfg, nkeys=nkeys, ops=ops)


def ns_of(d):
    return round(d * 1e9)


def run_lsm_sim(c, make_wal=None):
    """Run the workload inside a real Simulation; returns the segment log
    [kind, oid, t_ns, payload, snapshot] and the flush/compaction windows."""
    from happysimulator.components.storage.lsm_tree import LSMTree
    from happysimulator.core.entity import Entity
    from happysimulator.core.event import Event
    from happysimulator.core.simulation import Simulation
    from happysimulator.core.temporal import Instant
    from hsverif.util import run_bounded

    cf = c["cfg"]
    lsm = LSMTree("db", memtable_size=cf["thr"], compaction_strategy=make_strategy(cf["strategy"]), max_levels=cf["nlev"])
    log, windows = [], []

    class Worker(Entity):
        def handle_event(self, event):
            op, oid = event.context["op"], event.context["oid"]
            if op[0] == "put":
                g = lsm.put(kname(op[1]), op[2])
            elif op[0] == "del":
                g = lsm.delete(kname(op[1]))
            elif op[0] == "get":
                g = lsm.get(kname(op[1]))
            else:
                g = lsm.scan(kname(op[1]), kname(op[2]))
            first = True
            while True:
                kind = "start" if first else "resume"
                first = False
                t = self.now.nanoseconds
                try:
                    d = next(g)
                except StopIteration as e:
                    r = e.value
                    if op[0] == "scan":
                        r = [[kid(k), v] for k, v in r]
                    log.append([kind, oid, t, ["done", r], lsm_snapshot(lsm)])
                    return
                log.append([kind, oid, t, ["yield", ns_of(d)], lsm_snapshot(lsm)])
                yield d

    w = Worker("w")

    def traced(name, orig):
        def gen():
            rec = [name, w.now.nanoseconds, None]
            windows.append(rec)
            r = yield from orig()
            rec[2] = w.now.nanoseconds
            return r
        return gen
    lsm._compact = traced("compact", lsm._compact)
    lsm._flush_memtable = traced("flush", lsm._flush_memtable)
    sim = Simulation(end_time=Instant.from_seconds(1000), entities=[lsm, w])
    for i, (t, op) in enumerate(c["ops"]):
        sim.schedule(Event(time=Instant(t), event_type="op", target=w, context={"op": op, "oid": i}))
    _, verdict = run_bounded(sim, wall_s=600.0)
    return dict(log=log, windows=windows, verdict=verdict)


def impl_lsm_conc(c):
    return run_lsm_sim(c)


def csnap_term(s):
    return (table_term(s["mem"]), [table_term(t) for t in s["imm"]],
            [[table_term(t) for t in lvl] for lvl in s["levels"]], s["ncomp"], s["nflush"])


def encode_lsm_conc(c, obs):
    steps, prev = [], None
    for kind, oid, t, payload, snap in obs["log"]:
        op = c["ops"][oid][1]
        st = Ctor("SStart", oid, op_term(op)) if kind == "start" else Ctor("SResume", oid)
        ob = Ctor("OYield", payload[1]) if payload[0] == "yield" else Ctor("ODone", out_term(op, payload[1]))
        # None = "the engine state is the same as after the previous segment"
        steps.append((st, ob, None if snap == prev else SomeV(csnap_term(snap))))
        prev = snap
    return term((cfg_term(c["cfg"]), [(ks, k) for ks, k in bloom_fps(c["nkeys"])], steps))


def intervals(c, log):
    """oid -> [start_ns, done_ns | None, result]"""
    iv = {}
    for kind, oid, t, payload, _ in log:
        if kind == "start":
            iv[oid] = [t, None, None]
        if payload[0] == "done":
            iv[oid][1] = t
            iv[oid][2] = payload[1]
    return iv


def allowed_values(writes, rs, re):
    """Values a read of one key over [rs, re] may return.  writes: [start, done|None, value|None(delete)].
    A write is admissible when it began no later than the read ended and no other write to the key
    lies entirely after it and entirely before the read; the initial absence likewise."""
    done_before = [w for w in writes if w[1] is not None and w[1] < rs]
    out = []
    if not done_before:
        out.append(None)
    for w in writes:
        if w[0] > re:
            continue
        if w[1] is not None and any(x[0] > w[1] for x in done_before):
            continue
        out.append(w[2])
    return out


def conc_oracle(c, obs, what):
    iv = intervals(c, obs["log"])
    fails = []
    if obs["verdict"] != "ok":
        return [dict(clause=f"{what}: run terminates", verdict=obs["verdict"])]
    by_key = {}
    for oid, (t, o) in enumerate(c["ops"]):
        if oid in iv and o[0] in ("put", "del"):
            by_key.setdefault(o[1], []).append([iv[oid][0], iv[oid][1], o[2] if o[0] == "put" else None])
    for oid, (t, o) in enumerate(c["ops"]):
        if oid not in iv or iv[oid][1] is None:
            fails.append(dict(clause=f"{what}: every operation completes", oid=oid, op=o))
            continue
        rs, re, r = iv[oid]
        if o[0] == "get":
            ok = allowed_values(by_key.get(o[1], []), rs, re)
            if r not in ok:
                deleted = None in ok and all(x is None for x in ok)
                fails.append(dict(clause=f"{what}: deleted keys stay deleted" if deleted else f"{what}: read returns the latest completed or a concurrent write",
                                  oid=oid, op=o, got=r, allowed=ok, interval=[rs, re]))
        elif o[0] == "scan":
            got = {k: v for k, v in r}
            if [k for k, _ in r] != sorted(got):
                fails.append(dict(clause=f"{what}: scan is sorted", oid=oid, op=o, got=r))
            for k in range(o[1], o[2]):
                ok = allowed_values(by_key.get(k, []), rs, re)
                if got.get(k) not in ok:
                    fails.append(dict(clause=f"{what}: scan returns exactly the live keys of the range", oid=oid, op=o, key=k,
                                      got=got.get(k), allowed=ok, interval=[rs, re]))
                    break
            if any(k < o[1] or k >= o[2] for k in got):
                fails.append(dict(clause=f"{what}: scan stays inside the range", oid=oid, op=o, got=r))
    return fails


def oracle_lsm_conc(c, obs):
    fails = conc_oracle(c, obs, "lsm")
    wins = [w for w in obs["windows"] if w[2] is not None]
    comp = [w for w in wins if w[0] == "compact" and w[2] > w[1]]
    for f in fails:
        if "interval" in f:
            rs, re = f["interval"]
            if any(rs <= w[2] <= re for w in comp):
                f["mechanism"] = "read-overlaps-compaction-end"
                f["what"] = ("LSM get/scan suspended inside its level iteration while a compaction removes the tables it "
                             "iterates over: entries are missed or read from a stale table")
            elif any(w[1] <= re and x is not w and
                     (w[1] <= x[2] <= w[2] or (x[0] == "compact" and w[1] <= x[1] <= w[2]))
                     for w in comp for x in wins):
                f["mechanism"] = "compaction-not-isolated"
                f["what"] = ("a flush install or a second compaction falls inside a compaction's write delay: the compaction then "
                             "installs a table computed from stale sources (older value shadows a newer one, dropped tombstone resurrects a deleted key)")
    return fails[:3]


def attribute_lsm_conc(c, obs, f):
    return {"read-overlaps-compaction-end": "C14-lsm-read-overlaps-compaction",
            "compaction-not-isolated": "C14-lsm-compaction-not-isolated"}.get(f.get("mechanism"))


def nontrivial_conc(c, obs):
    # some read overlaps a flush or compaction window
    iv = intervals(c, obs["log"])
    for oid, (t, o) in enumerate(c["ops"]):
        if o[0] in ("get", "scan") and oid in iv and iv[oid][1] is not None:
            if any(w[2] is not None and w[1] <= iv[oid][1] and iv[oid][0] <= w[2] for w in obs["windows"]):
                return True
    return False


# --------------------------------------------------------------------------- family: KVStore, overlapping operations
KV_IMPORTS = "From HS Require Import Base.Prelude C14.KvTxnModel."
MS = 1000 * US


def gen_kv_conc(rng):
    nkeys = rng.choice([2, 3, 4])
    t, ops = 0, []
    for i in range(rng.randint(3, 25)):
        t += rng.choice([0, 0, 500 * US, MS, 2 * MS, 4 * MS, 5 * MS, 6 * MS])
        k = rng.random()
        key = rng.randrange(nkeys)
        ops.append([t, ["put", key, 100 + i] if k < 0.4 else ["del", key] if k < 0.6 else ["get", key]])
    return dict(nkeys=nkeys, ops=ops)


def impl_kv_conc(c):
    from happysimulator.components.datastore.kv_store import KVStore
    from happysimulator.core.entity import Entity
    from happysimulator.core.event import Event
    from happysimulator.core.simulation import Simulation
    from happysimulator.core.temporal import Instant
    from hsverif.util import run_bounded
    kv = KVStore("kv")
    log = []

    def snap():
        return sorted([kid(k), v] for k, v in kv._data.items())

    class Worker(Entity):
        def handle_event(self, event):
            op, oid = event.context["op"], event.context["oid"]
            g = kv.put(kname(op[1]), op[2]) if op[0] == "put" else kv.delete(kname(op[1])) if op[0] == "del" else kv.get(kname(op[1]))
            first = True
            while True:
                kind = "start" if first else "resume"
                first = False
                t = self.now.nanoseconds
                try:
                    d = next(g)
                except StopIteration as e:
                    log.append([kind, oid, t, ["done", e.value], snap()])
                    return
                log.append([kind, oid, t, ["yield", ns_of(d)], snap()])
                yield d
    w = Worker("w")
    sim = Simulation(end_time=Instant.from_seconds(1000), entities=[kv, w])
    for i, (t, op) in enumerate(c["ops"]):
        sim.schedule(Event(time=Instant(t), event_type="op", target=w, context={"op": op, "oid": i}))
    _, verdict = run_bounded(sim, wall_s=600.0)
    order_ok = list(kv._data.keys()) == kv._insertion_order
    return dict(log=log, verdict=verdict, windows=[], order_ok=order_ok)


def kop_term(o):
    return Ctor("KPut", o[1], o[2]) if o[0] == "put" else Ctor("KDel", o[1]) if o[0] == "del" else Ctor("KGet", o[1])


def encode_kv_conc(c, obs):
    steps = []
    for kind, oid, t, payload, snap in obs["log"]:
        op = c["ops"][oid][1]
        st = Ctor("KStart", oid, kop_term(op)) if kind == "start" else Ctor("KResume", oid)
        if payload[0] == "yield":
            ob = Ctor("KYield", payload[1])
        elif op[0] == "put":
            ob = Ctor("KDone", Ctor("KONone"))
        elif op[0] == "del":
            ob = Ctor("KDone", Ctor("KODel", bool(payload[1])))
        else:
            ob = Ctor("KDone", Ctor("KOGet", None if payload[1] is None else SomeV(payload[1])))
        steps.append((st, ob, [(k, v) for k, v in snap]))
    return term(steps)


def oracle_kv_conc(c, obs):
    fails = conc_oracle(c, obs, "kv")
    if not obs["order_ok"]:
        fails.append(dict(clause="kv: insertion-order list agrees with the dict"))
    return fails[:3]


# --------------------------------------------------------------------------- family: TransactionManager over a KVStore
ISO = ["RC", "SI", "SER"]


def gen_txn(rng):
    nkeys = rng.choice([2, 3])
    workers = []
    mode = rng.random()
    for w in range(rng.randint(2, 4)):
        script, t = [], rng.choice([0, 0, 500 * US, MS, 2 * MS])
        for _ in range(rng.randint(1, 2)):
            iso = "SER" if mode < 0.4 else "SI" if mode < 0.6 else rng.choice(ISO)
            ops = []
            for _ in range(rng.randint(1, 5)):
                key = rng.randrange(nkeys)
                ops.append(["read", key] if rng.random() < 0.55 else ["write", key, rng.randint(1, 99)])
            end = ["abort"] if rng.random() < 0.1 else ["commit"]
            extra = [rng.choice([["read", 0], ["write", 0, 5], ["commit"], ["abort"]])] if rng.random() < 0.1 else []
            script.append(dict(iso=iso, ops=ops + [end] + extra,
                               gaps=[rng.choice([0, 0, 300 * US, MS, 1500 * US]) for _ in range(len(ops) + 1 + len(extra))]))
        workers.append(dict(t0=t, txns=script))
    vals = 1
    for w in workers:
        for tx in w["txns"]:
            for o in tx["ops"]:
                if o[0] == "write":
                    o[2] = 100 + vals
                    vals += 1
    return dict(nkeys=nkeys, workers=workers)


def impl_txn(c):
    from happysimulator.components.datastore.kv_store import KVStore
    from happysimulator.components.storage.transaction_manager import IsolationLevel, TransactionManager
    from happysimulator.core.entity import Entity
    from happysimulator.core.event import Event
    from happysimulator.core.simulation import Simulation
    from happysimulator.core.temporal import Instant
    from hsverif.util import run_bounded
    kv = KVStore("kv")
    tm = TransactionManager("tm", store=kv)
    lvl = {"RC": IsolationLevel.READ_COMMITTED, "SI": IsolationLevel.SNAPSHOT_ISOLATION, "SER": IsolationLevel.SERIALIZABLE}
    log = []
    counter = [0]

    def snap():
        return dict(store=sorted([kid(k), v] for k, v in kv._data.items()), version=tm._version, nlog=len(tm._commit_log))

    class Worker(Entity):
        def handle_event(self, event):
            wk = event.context["w"]

            def segs(desc, g):
                oid = counter[0]
                counter[0] += 1
                first = True
                while True:
                    kind = "start" if first else "resume"
                    first = False
                    t = self.now.nanoseconds
                    try:
                        d = next(g)
                    except StopIteration as e:
                        log.append([kind, oid, t, desc, ["done", getattr(e.value, "tx_id", e.value)], snap()])
                        return e.value
                    except RuntimeError:
                        log.append([kind, oid, t, desc, ["err"], snap()])
                        return None
                    log.append([kind, oid, t, desc, ["yield", ns_of(d)], snap()])
                    yield d

            for tx in wk["txns"]:
                txo = yield from segs(["begin", tx["iso"]], tm.begin(lvl[tx["iso"]]))
                for o, gap in zip(tx["ops"], tx["gaps"]):
                    if gap:
                        yield gap / 1e9
                    if o[0] == "read":
                        yield from segs(["read", txo.tx_id, o[1]], txo.read(kname(o[1])))
                    elif o[0] == "write":
                        yield from segs(["write", txo.tx_id, o[1], o[2]], txo.write(kname(o[1]), o[2]))
                    elif o[0] == "commit":
                        yield from segs(["commit", txo.tx_id], txo.commit())
                    else:
                        oid = counter[0]
                        counter[0] += 1
                        txo.abort()
                        log.append(["start", oid, self.now.nanoseconds, ["abort", txo.tx_id], ["done", None], snap()])

    ws = [Worker(f"w{i}") for i in range(len(c["workers"]))]
    sim = Simulation(end_time=Instant.from_seconds(1000), entities=[kv, tm] + ws)
    for w, wk in zip(ws, c["workers"]):
        sim.schedule(Event(time=Instant(wk["t0"]), event_type="go", target=w, context={"w": wk}))
    _, verdict = run_bounded(sim, wall_s=600.0)
    return dict(log=log, verdict=verdict, stats=[tm.stats.transactions_committed, tm.stats.transactions_aborted, tm.stats.conflicts_detected])


def top_term(d):
    if d[0] == "begin":
        return Ctor("TBegin", Ctor(d[1]))
    if d[0] == "read":
        return Ctor("TRead", d[1], d[2])
    if d[0] == "write":
        return Ctor("TWrite", d[1], d[2], d[3])
    if d[0] == "commit":
        return Ctor("TCommit", d[1])
    return Ctor("TAbort", d[1])


def encode_txn(c, obs):
    steps = []
    begun = {}
    for kind, oid, t, desc, payload, snap in obs["log"]:
        st = Ctor("TStart", oid, top_term(desc)) if kind == "start" else Ctor("TResume", oid)
        if payload[0] == "yield":
            ob = Ctor("TObsYield", payload[1])
        elif payload[0] == "err":
            ob = Ctor("TObsDone", Ctor("TOErr"))
        elif desc[0] == "begin":
            ob = Ctor("TObsDone", Ctor("TOTx", payload[1]))
        elif desc[0] == "read":
            ob = Ctor("TObsDone", Ctor("TOVal", None if payload[1] is None else SomeV(payload[1])))
        elif desc[0] == "commit":
            ob = Ctor("TObsDone", Ctor("TOBool", bool(payload[1])))
        else:
            ob = Ctor("TObsDone", Ctor("TONone"))
        steps.append((st, ob, ([(k, v) for k, v in snap["store"]], snap["version"], snap["nlog"])))
    return term(steps)


def txn_views(obs):
    """Per transaction: isolation, store reads [(key, value, log position)], writes, commit position, outcome."""
    txs, cur = {}, {}
    log = obs["log"]
    for pos, (kind, oid, t, desc, payload, snap) in enumerate(log):
        if desc[0] == "begin" and payload[0] == "done":
            txs[payload[1]] = dict(iso=desc[1], reads=[], writes={}, commit=None, outcome="active")
        elif desc[0] == "write" and kind == "start" and payload[0] != "err":
            txs[desc[1]]["writes"][desc[2]] = desc[3]
        elif desc[0] == "read" and payload[0] == "done" and kind == "resume":
            txs[desc[1]]["reads"].append([desc[2], payload[1], pos])
        elif desc[0] == "commit" and kind == "start" and payload[0] != "err":
            if payload[0] == "yield":
                txs[desc[1]].update(commit=pos, outcome="committed")
            else:
                txs[desc[1]].update(outcome="aborted")
        elif desc[0] == "abort" and txs[desc[1]]["outcome"] == "active":
            txs[desc[1]]["outcome"] = "aborted"
    return txs


def oracle_txn(c, obs):
    if obs["verdict"] != "ok":
        return [dict(clause="txn: run terminates", verdict=obs["verdict"])]
    log = obs["log"]
    fails = []
    txs = txn_views(obs)
    # serial replay in commit order
    order = sorted((v["commit"], tid) for tid, v in txs.items() if v["outcome"] == "committed")
    store, versions = {}, [dict()]
    for pos, tid in order:
        tx = txs[tid]
        before = {k: v for k, v in log[pos - 1][5]["store"]} if pos > 0 else {}
        if before != store:
            fails.append(dict(clause="txn: the store changes only by committed transactions, atomically at commit", tx=tid))
            break
        if tx["iso"] == "SER":
            for k, v, rpos in tx["reads"]:
                if store.get(k) != v:
                    fails.append(dict(clause="txn: SERIALIZABLE transactions are equivalent to the serial order of their commits",
                                      tx=tid, key=k, read=v, serial_value=store.get(k)))
                    break
        store.update(tx["writes"])
        versions.append(dict(store))
    final = {k: v for k, v in log[-1][5]["store"]} if log else {}
    if not fails and final != store:
        fails.append(dict(clause="txn: final store equals the serial replay of the committed transactions", final=final, serial=store))
    for tid, tx in txs.items():
        if tx["outcome"] == "committed" and tx["iso"] == "SI" and tx["reads"]:
            if not any(all(ver.get(k) == v for k, v, _ in tx["reads"]) for ver in versions):
                fails.append(dict(clause="txn: snapshot-isolation transactions read from one consistent snapshot", tx=tid, reads=tx["reads"],
                                  mechanism="si-reads-live",
                                  what="SNAPSHOT_ISOLATION reads go to the live store: two reads straddling a foreign commit see two different snapshots and the transaction still commits"))
                break
    return fails[:3]


def attribute_txn(c, obs, f):
    return "C14-si-reads-live" if f.get("mechanism") == "si-reads-live" else None


# --------------------------------------------------------------------------- families: BTree
BT_IMPORTS = "From HS Require Import Base.Prelude C14.BtModel."


def bt_dump(bt):
    out = []

    def walk(n):
        out.append([bool(n.leaf), [kid(k) for k in n.keys], list(n.values) if n.leaf else []])
        if not n.leaf:
            for ch in n.children:
                walk(ch)
    walk(bt._root)
    return dict(dump=out, depth=bt._depth, total=bt._total_keys)


def bsnap_term(s):
    return ([(lf, ks, vs) for lf, ks, vs in s["dump"]], s["depth"], s["total"])


def bop_term(o):
    if o[0] == "put":
        return Ctor("BPut", o[1], o[2])
    if o[0] == "del":
        return Ctor("BDel", o[1])
    if o[0] == "get":
        return Ctor("BGet", o[1])
    return Ctor("BScan", o[1], o[2])


def bout_term(o, r):
    if o[0] == "put":
        return Ctor("BONone")
    if o[0] == "del":
        return Ctor("BODel", bool(r))
    if o[0] == "get":
        return Ctor("BOGet", None if r is None else SomeV(r))
    return Ctor("BOScan", [(k, v) for k, v in r])


def gen_bt_seq(rng):
    nkeys = rng.choice([4, 8, 12, 20])
    ops = gen_ops(rng, rng.randint(5, 70), nkeys)
    return dict(order=rng.choice([3, 3, 4, 5, 6]), nkeys=nkeys, api=rng.choice(["sync", "gen"]), ops=ops)


def impl_bt_seq(c):
    from happysimulator.components.storage.btree import BTree
    bt = BTree("bt", order=c["order"])
    results, snaps = [], []
    for o in c["ops"]:
        if o[0] == "put":
            bt.put_sync(kname(o[1]), o[2]) if c["api"] == "sync" else drive(bt.put(kname(o[1]), o[2]))
            r = None
        elif o[0] == "del":
            r = drive(bt.delete(kname(o[1])))
        elif o[0] == "get":
            r = bt.get_sync(kname(o[1])) if c["api"] == "sync" else drive(bt.get(kname(o[1])))
        else:
            r = [[kid(k), v] for k, v in drive(bt.scan(kname(o[1]), kname(o[2])))]
        results.append(r)
        snaps.append(bt_dump(bt))
    return dict(results=results, snaps=snaps)


def encode_bt_seq(c, obs):
    steps = [(bop_term(o), bout_term(o, r), bsnap_term(s)) for o, r, s in zip(c["ops"], obs["results"], obs["snaps"])]
    return term((c["order"], steps))


def oracle_bt_seq(c, obs):
    out = seq_oracle(c["ops"], obs["results"], "btree")
    ref = set()
    for o, r in zip(c["ops"], obs["results"]):
        if o[0] == "del" and bool(r) != (o[1] in ref):
            out.append(dict(clause="btree: delete reports whether the key existed", op=o, got=r))
            break
        if o[0] == "put":
            ref.add(o[1])
        elif o[0] == "del":
            ref.discard(o[1])
    return out


def gen_bt_conc(rng):
    nkeys = rng.choice([4, 6, 10])
    t, ops = 0, []
    for i, o in enumerate(gen_ops(rng, rng.randint(4, 30), nkeys)):
        t += rng.choices([0, 200 * US, 500 * US, MS, 1500 * US, 2 * MS, 3 * MS, 5 * MS], [3, 2, 3, 3, 2, 2, 1, 1])[0]
        if o[0] == "put":
            o[2] = 100 + i
        ops.append([t, o])
    return dict(order=rng.choice([3, 3, 4, 5]), nkeys=nkeys, ops=ops)


def impl_bt_conc(c):
    from happysimulator.components.storage.btree import BTree
    from happysimulator.core.entity import Entity
    from happysimulator.core.event import Event
    from happysimulator.core.simulation import Simulation
    from happysimulator.core.temporal import Instant
    from hsverif.util import run_bounded
    bt = BTree("bt", order=c["order"])
    log = []

    class Worker(Entity):
        def handle_event(self, event):
            op, oid = event.context["op"], event.context["oid"]
            g = (bt.put(kname(op[1]), op[2]) if op[0] == "put" else bt.delete(kname(op[1])) if op[0] == "del"
                 else bt.get(kname(op[1])) if op[0] == "get" else bt.scan(kname(op[1]), kname(op[2])))
            first = True
            while True:
                kind = "start" if first else "resume"
                first = False
                t = self.now.nanoseconds
                splits = bt._total_splits
                try:
                    d = next(g)
                except StopIteration as e:
                    r = e.value
                    if op[0] == "scan":
                        r = [[kid(k), v] for k, v in r]
                    log.append([kind, oid, t, ["done", r], bt_dump(bt), bt._total_splits - splits])
                    return
                log.append([kind, oid, t, ["yield", ns_of(d)], bt_dump(bt), bt._total_splits - splits])
                yield d
    w = Worker("w")
    sim = Simulation(end_time=Instant.from_seconds(1000), entities=[bt, w])
    for i, (t, op) in enumerate(c["ops"]):
        sim.schedule(Event(time=Instant(t), event_type="op", target=w, context={"op": op, "oid": i}))
    _, verdict = run_bounded(sim, wall_s=600.0)
    return dict(log=log, verdict=verdict)


def encode_bt_conc(c, obs):
    steps, prev = [], None
    for kind, oid, t, payload, snap, _ in obs["log"]:
        op = c["ops"][oid][1]
        st = Ctor("BStart", oid, bop_term(op)) if kind == "start" else Ctor("BResume", oid)
        ob = Ctor("BObsYield", payload[1]) if payload[0] == "yield" else Ctor("BObsDone", bout_term(op, payload[1]))
        steps.append((st, ob, None if snap == prev else SomeV(bsnap_term(snap))))
        prev = snap
    return term((c["order"], steps))


def oracle_bt_conc(c, obs):
    log5 = [e[:5] for e in obs["log"]]
    fails = conc_oracle(c, dict(log=log5, verdict=obs["verdict"]), "btree")
    split_times = [e[2] for e in obs["log"] if e[5] > 0]
    for f in fails:
        if "interval" in f and f["op"][0] == "get":
            rs, re = f["interval"]
            if any(rs <= t <= re for t in split_times):
                f["mechanism"] = "get-overlaps-split"
                f["what"] = ("BTree.get keeps a node reference (and the depth) across its per-level yields; an insert that splits that node "
                             "(or the root) meanwhile moves keys to a sibling the suspended get never visits")
    return fails[:3]


def attribute_bt_conc(c, obs, f):
    return "C14-btree-get-overlaps-split" if f.get("mechanism") == "get-overlaps-split" else None


FAMILIES = [
    Family("lsm_seq", IMPORTS, "ok_lsm_seq", "cfg * list (list Z * Z) * list (op * out * snap)",
           gen_lsm_seq, impl_lsm_seq, encode_lsm_seq, oracle_lsm_seq,
           nontrivial=lambda c, o: o["snaps"][-1]["ncomp"] >= 2 and any(x[0] == "del" for x in c["ops"]),
           describe=lambda c: f"{c['cfg']['strategy'][0]},nlev={c['cfg']['nlev']},thr={c['cfg']['thr']}"),
    Family("lsm_conc", IMPORTS, "ok_lsm_conc", "cfg * list (list Z * Z) * list (sched_step * obs * option csnap)",
           gen_lsm_conc, impl_lsm_conc, encode_lsm_conc, oracle_lsm_conc, nontrivial=nontrivial_conc,
           attribute=attribute_lsm_conc, parallel=True,
           describe=lambda c: f"{c['cfg']['strategy'][0]},nlev={c['cfg']['nlev']}"),
    Family("kv_conc", KV_IMPORTS, "ok_kv_conc", "list (kstep * kobs * dict)",
           gen_kv_conc, impl_kv_conc, encode_kv_conc, oracle_kv_conc,
           nontrivial=lambda c, o: any(a[0] != b[0] for a, b in zip(o["log"], o["log"][1:]) if a[1] != b[1]),
           parallel=True),
    Family("txn", KV_IMPORTS, "ok_txn", "list (tstep * tobs * tsnap)",
           gen_txn, impl_txn, encode_txn, oracle_txn,
           nontrivial=lambda c, o: o["stats"][0] >= 2, attribute=attribute_txn, parallel=True,
           describe=lambda c: ",".join(sorted({t["iso"] for w in c["workers"] for t in w["txns"]}))),
    Family("bt_seq", BT_IMPORTS, "ok_bt_seq", "Z * list (bop * bout * bsnap)",
           gen_bt_seq, impl_bt_seq, encode_bt_seq, oracle_bt_seq,
           nontrivial=lambda c, o: o["snaps"][-1]["depth"] >= 3, describe=lambda c: f"order={c['order']}"),
    Family("bt_conc", BT_IMPORTS, "ok_bt_conc", "Z * list (bstep * bobs * option bsnap)",
           gen_bt_conc, impl_bt_conc, encode_bt_conc, oracle_bt_conc,
           nontrivial=lambda c, o: any(e[5] > 0 for e in o["log"]), attribute=attribute_bt_conc, parallel=True,
           describe=lambda c: f"order={c['order']}"),
]

TRUSTED = [
    "translator harness/translate/py2coq.py + declared types (py2coq_targets.py MemtableGen): Memtable.put_sync/get_sync/contains/size/is_full are "
    "regenerated from components/storage/memtable.py on every run and proved to refine the model's key-sorted memtable table (C14/MemTie.v); keys and "
    "stored values are integers and a stored value is never None; the generator methods put/get and flush are hand-modelled",
    "Coq 8.16.1 kernel (coqc, vm_compute for refutation witnesses and case evaluation); no native_compute",
    "axioms: none (every theorem of C14/Props.v is 'Closed under the global context')",
    "correspondence harness harness/props/c14.py (generators, observers, in-Coq comparison ok_* of C14/Model.v)",
    "model choices: keys/values are Z; dicts read only by key or through sorted() are key-sorted association lists; "
    "bisect + sparse index of SSTable is exact lookup; Bloom filter is an oracle function with no false negatives (C20); "
    "the level list has fixed length max_levels",
]

PROOF_FILES = ["C14/Model.v", "C14/LsmProofs.v", "C14/SeqProofs.v", "C14/ConcProofs.v", "C14/KvTxnModel.v", "C14/KvTxnProofs.v", "C14/BtModel.v", "C14/BtProofs.v", "C14/BtRep.v", "C14/BtIns.v", "C14/BtOps.v",
               "Base/PyLib.v", "Gen/MemtableGen.v", "C14/MemTie.v", "C14/Props.v"]


def eval_cases_split(tag, imports, ok_fn, case_type, cases, shard=120, timeout=900, workers=4):
    """Same contract as hsverif.coq.eval_cases (mismatch indices, errors), but every case is its own
    [Definition] (one giant list literal makes coqc's elaboration superlinear) and no .glob is written."""
    import os
    import subprocess
    from concurrent.futures import ThreadPoolExecutor
    from hsverif import coq
    d = os.path.join(coq.COQ, "_scratch", f"{tag}_{os.getpid()}")
    os.makedirs(d, exist_ok=True)
    shards = [cases[i:i + shard] for i in range(0, len(cases), shard)]
    files = []
    for si, sh in enumerate(shards):
        fn = os.path.join(d, f"cases_{si}.v")
        with open(fn, "w") as f:
            f.write(imports + "\nLocal Open Scope Z_scope.\n")
            for i, t in enumerate(sh):
                f.write(f"Definition c{i} : {case_type} := {t}.\n")
            f.write(f"Definition cases : list ({case_type}) := [{'; '.join(f'c{i}' for i in range(len(sh)))}].\n")
            f.write(f"Eval vm_compute in (mismatches {ok_fn} cases).\n")
        files.append(fn)

    def one(fn):
        return coq.run(["coqc", "-noglob", "-R", coq.COQ, "HS", fn], cwd=d, timeout=timeout)

    bad, errors = [], []
    with ThreadPoolExecutor(max_workers=workers) as ex:
        for si, (rc, out) in enumerate(ex.map(one, files)):
            if rc != 0:
                errors.append(f"shard {si}: coqc failed: {out[-1500:]}")
                continue
            idx = coq._parse_zlist(out)
            if idx is None:
                errors.append(f"shard {si}: cannot parse coqc output: {out[-500:]}")
                continue
            bad.extend(si * shard + i for i in idx)
    if not errors:
        subprocess.run(["rm", "-rf", d])
    return bad, errors


class Pre:
    """ctx proxy for one family.  coqc start-up dominates the cost of a run, so the in-Coq evaluation of all
    families is started up front, concurrently (one coqc per ~150 cases), from a pre-pass that generates the same
    cases (own RNG per family, derived from the run seed) and executes the implementation on them; run_family then
    regenerates the identical cases and picks the finished evaluation up here.  If the terms differ (they never
    should: everything is deterministic) the evaluation is simply done again."""

    def __init__(self, ctx, fam, n, pool, pool_above=400):
        import dataclasses
        import random
        from hsverif import coq
        from hsverif.family import load_corpus, run_impl
        self._ctx = ctx
        self._seed = f"{ctx.seed}:{ctx.tier}:{fam.name}"
        self.rng = random.Random(self._seed)
        self.fam = dataclasses.replace(fam, parallel=fam.parallel and n > pool_above)
        rng = random.Random(self._seed)
        cases = load_corpus(ctx.pid, fam.name) + [fam.gen(rng) for _ in range(n)]
        terms = []
        for c, r in zip(cases, run_impl(self.fam, cases)):
            if "ok" in r:
                try:
                    terms.append(fam.encode(c, r["ok"]))
                except Exception:  # noqa: BLE001  (run_family reports it)
                    pass
        self._terms = terms
        self._shard = 120
        self._fut = pool.submit(eval_cases_split, f"{ctx.pid}_{fam.name}", fam.imports, fam.ok_fn, fam.case_type, terms,
                                shard=self._shard, workers=4) if terms else None

    def __getattr__(self, name):
        return getattr(self._ctx, name)

    def coq_cases(self, tag, imports, ok_fn, case_type, cases):
        from hsverif import coq
        if self._fut is not None and cases == self._terms:
            fut, self._fut = self._fut, None
            return fut.result()
        return eval_cases_split(f"{self._ctx.pid}_{tag}_again", imports, ok_fn, case_type, cases, shard=self._shard)


def run(ctx):
    from props import pygen
    ok, info = pygen.regenerate("MemtableGen")    # Memtable's synchronous API translated from $HS_REPO by py2coq
    ctx.coverage["regenerated"] = info
    ctx.prove(PROOF_FILES, allowed_axioms=(), trusted_base=TRUSTED)
    if not ok and ctx.pending_obligation_violation:
        ctx.pending_obligation_violation["translator"] = info.get("error")
    fam = {f.name: f for f in FAMILIES}
    from concurrent.futures import ThreadPoolExecutor
    plan = [("lsm_seq", ctx.n(100, 400)), ("lsm_conc", ctx.n(150, 700)), ("kv_conc", ctx.n(60, 200)),
            ("txn", ctx.n(100, 400)), ("bt_seq", ctx.n(80, 300)), ("bt_conc", ctx.n(100, 400))]
    stats = []
    with ThreadPoolExecutor(max_workers=6) as pool:
        pres = [Pre(ctx, fam[name], n, pool) for name, n in plan]
        ctx.log("pre-pass done: implementation executed on all cases, in-Coq evaluation running")
        for (name, n), pre in zip(plan, pres):
            stats.append(run_family(pre, pre.fam, n))
            ctx.log(f"family {name}: {stats[-1]['cases']} cases, mismatches={stats[-1]['mismatches']}, oracle_failures={stats[-1]['oracle_failures']} known={stats[-1]['known']}")
    merge_stats(ctx, stats, "random workloads over 2-6 keys (B-tree up to 20), memtable size 1-4, 1-4 levels, three strategies, B-tree order 3-6; "
                            "start offsets chosen on a grid that lands inside flush/compaction/split/commit windows; "
                            "non-trivial = >=2 compactions and a delete (lsm_seq), a read overlapping a flush/compaction window (lsm_conc), "
                            "depth >= 3 (bt_seq), a split (bt_conc), >= 2 commits (txn); distinct by JSON of the input")
    ctx.finish_obligations()
    ctx.assumptions += [
        "LSM overlap clause refuted on the faithful step machine (c14_lsm_overlap_refuted, c14_lsm_scan_overlap_refuted): findings C14-lsm-compaction-not-isolated, C14-lsm-read-overlaps-compaction",
        "B-tree: overlap clause refuted (c14_btree_overlap_refuted, finding C14-btree-get-overlaps-split); the B-tree's sequential map refinement IS proved for every operation sequence and order >= 2 (c14_btree_get_refines_map, c14_btree_scan_exact, c14_btree_delete_reports) and tied by correspondence (bt_seq: results and a preorder dump of the tree after every operation)",
        "snapshot isolation refuted (c14_si_snapshot_refuted, finding C14-si-reads-live); serializability proved for the transaction manager over an atomic store (KVStore)",
        "flush-window defect (reads during a memtable flush) repaired in /repo commit 111a92c; the models follow the repaired code",
    ]


def replay(data):
    fam = {f.name: f for f in FAMILIES}[data["detail"]["family"]]
    c = data["detail"]["case"]
    obs = fam.impl(c)
    fails = fam.oracle(c, obs)
    print("observations:", obs)
    print("oracle failures:", fails)
    return 1 if fails else 0
