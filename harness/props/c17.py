"""C17 — replication: acknowledged writes are where the mode promises, replicas converge.

Tie to /repo: every generated case is executed in a real `Simulation` with the
real PrimaryNode/BackupNode (ChainNode, LeaderNode), real KVStores and the real
Network/NetworkLink; only the link latency distribution is scripted (one delay
per message, so replication messages can overtake each other).  Every handler
segment (handle_event invocation or generator resumption up to the next yield)
is recorded: input, emitted messages, future resolutions, yield kind and the
acting node's public state afterwards.  The recorded trace is replayed through
the model inside Coq (`ok_*` of C17/*.v): the model must accept every input
(enabledness = the engine's park/resume semantics) and produce the same outputs
and node state after every segment.  The property oracle evaluates the C17
statement on the implementation's observations alone.

Private attributes read: KVStore._data; PrimaryNode._backup_lag/_seq; ChainNode._pending_writes/
_next_seq/_dirty_keys; LeaderNode._versions/_vclock; SimFuture._add_settle_callback/_value.
"""
from __future__ import annotations

from hsverif.coq import Ctor, Nat, SomeV, term
from hsverif.family import Family, merge_stats, run_family

LEVEL = "proof"
US = 1e6


# --------------------------------------------------------------------------- shared tracing
def _scripted_latency(delays_us, log):
    from happysimulator.core.temporal import Duration
    from happysimulator.distributions.latency_distribution import LatencyDistribution

    class Scripted(LatencyDistribution):
        def __init__(self):
            super().__init__(0.0)

        def get_latency(self, now):
            d = delays_us[len(log) % len(delays_us)] if delays_us else 0
            log.append(d)
            return Duration.from_seconds(d / US)

    return Scripted()


def _logged_store(name, wlat_us, rlat_us):
    from happysimulator.components.datastore import KVStore

    class LoggedStore(KVStore):
        """KVStore that also records completed puts (harness observation only)."""

        def __init__(self, *a, **k):
            super().__init__(*a, **k)
            self.put_log = []

        def put(self, key, value):
            yield from super().put(key, value)
            self.put_log.append((key, value))

    return LoggedStore(name, read_latency=rlat_us / US, write_latency=wlat_us / US)


class Tracer:
    """Records one entry per handler segment of the wrapped nodes."""

    def __init__(self, describe_in, describe_out, snapshot):
        self.segs = []
        self.cur = None
        self.npid = 0
        self.describe_in, self.describe_out, self.snapshot = describe_in, describe_out, snapshot

    def emit(self, o):
        if self.cur is not None:
            self.cur["outs"].append(o)

    def wrap(self, node, idx):
        orig = node.handle_event
        tr = self

        def handle_event(event):
            return tr._traced(orig, node, idx, event)

        node.handle_event = handle_event

    def _open(self, inp, node, idx):
        seg = dict(inp=inp, outs=[], pre=self.snapshot(node, idx), node=idx)
        self.segs.append(seg)
        self.cur = seg
        return seg

    def _close(self, seg, node, idx, y):
        seg["y"] = y
        post = self.snapshot(node, idx)
        seg["obs"] = None if post == seg.pop("pre") else post
        seg.pop("node", None)
        self.cur = None

    def _traced(self, orig, node, idx, event):
        from happysimulator.core.event import Event
        from happysimulator.core.sim_future import SimFuture
        pid = self.npid
        self.npid += 1
        seg = self._open(["S", idx, self.describe_in(node, idx, event)], node, idx)
        g = orig(event)
        sent = None
        while True:
            try:
                y = g.send(sent)
            except StopIteration as e:
                self._close(seg, node, idx, ["X"])
                return e.value
            if isinstance(y, SimFuture):
                yk = ["F"]
            elif isinstance(y, tuple):
                evs = y[1]
                evs = [evs] if isinstance(evs, Event) else list(evs or [])
                for ev in evs:
                    seg["outs"].append(self.describe_out(node, idx, ev))
                yk = ["E", round(float(y[0]) * US)]
            else:
                yk = ["D", round(float(y) * US)]
            self._close(seg, node, idx, yk)
            sent = yield y
            seg = self._open(["R", pid], node, idx)


def yld_term(y):
    return {"X": lambda: Ctor("YEnd"), "F": lambda: Ctor("YFuture"),
            "E": lambda: Ctor("YEvents", y[1]), "D": lambda: Ctor("YDelay", y[1])}[y[0]]()


def kid(key):
    return int(key[1:])


def store_items(store):
    return [(kid(k), v) for k, v in store._data.items()]


# --------------------------------------------------------------------------- primary-backup
PB_IMPORTS = "From HS Require Import Base.Prelude C17.Model."
PB_TYPE = "(mode * nat * list Z * list Z * list bool) * list seg * final_obs"
DELAYS = [0, 0, 100, 1000, 1000, 2000, 5000, 9000, 20000]


def gen_pb(rng):
    nb = rng.choice([0, 1, 1, 2, 2, 2, 3])
    mode = rng.choice(["async", "semi_sync", "sync", "sync"])
    nkeys = rng.choice([1, 1, 2, 3])
    ops = []
    t = 0
    dup = rng.random() < 0.35          # clients that re-send the value already written (idempotent rewrites)
    for i in range(rng.randint(1, 7)):
        t += rng.choice([0, 500, 1000, 1000, 3000, 8000])
        r = rng.random()
        if r < 0.72:
            ops.append([t, "W", 0, rng.randrange(nkeys), (100 + i % 2) if dup else 100 + i, rng.random() < 0.9])
        elif r < 0.94:
            ops.append([t, "R", rng.randint(0, nb), rng.randrange(nkeys), 100 + i, rng.random() < 0.9])
        elif r < 0.97:
            ops.append([t, "W", rng.randint(0, nb), rng.randrange(nkeys), 100 + i, True])   # Write sent to a backup: ignored
        else:
            ops.append([t, "O", rng.randint(0, nb), 0, 100 + i, False])                      # unknown event type
    same = rng.random() < 0.5
    wl = rng.choice([1000, 2000, 3000])
    return dict(mode=mode, nb=nb, ops=ops,
                wlat=[wl if same else rng.choice([1000, 2000, 3000, 5000]) for _ in range(nb + 1)],
                rlat=[rng.choice([500, 1500]) for _ in range(nb + 1)],
                serve=[True] + [rng.random() < 0.85 for _ in range(nb)],
                delays=[rng.choice(DELAYS) for _ in range(rng.randint(1, 12))])


def impl_pb(c):
    from happysimulator import Event, Instant, Network, SimFuture, Simulation
    from happysimulator.components.network.link import NetworkLink
    from happysimulator.components.replication.primary_backup import BackupNode, PrimaryNode, ReplicationMode
    from hsverif.util import run_bounded

    nb = c["nb"]
    net = Network(name="net")
    stores = [_logged_store(f"s{i}", c["wlat"][i], c["rlat"][i]) for i in range(nb + 1)]
    prim = PrimaryNode("n0", store=stores[0], backups=[], network=net, mode=ReplicationMode(c["mode"]))
    baks = [BackupNode(f"n{i}", store=stores[i], network=net, primary=prim, serve_reads=c["serve"][i])
            for i in range(1, nb + 1)]
    prim._backups = list(baks)
    prim._backup_lag = {b.name: 0 for b in baks}
    nodes = [prim] + baks
    sent_log = []
    lat = _scripted_latency(c["delays"], sent_log)
    for b in baks:
        net.add_link(prim, b, NetworkLink(name=f"l0{b.name}", latency=lat))
        net.add_link(b, prim, NetworkLink(name=f"l{b.name}0", latency=lat))

    seen_futs = {}     # id -> future (kept alive so that ids are not reused)
    replies, reads = [], []

    def describe_in(node, idx, ev):
        md = ev.context.get("metadata", {})
        et = ev.event_type
        if et == "Write":
            return ["W", md["wid"], kid(md["key"]), md["value"], md.get("reply_future") is not None]
        if et == "Read":
            return ["Rd", md["wid"], kid(md["key"]), md.get("reply_future") is not None]
        if et == "Replicate":
            return ["Rep", int(md["destination"][1:]), kid(md["key"]), md["value"], md["seq"], md.get("ack_future") is not None]
        if et == "ReplicationAck":
            return ["Ack", int(md["source"][1:]), md["seq"]]
        return ["O"]

    def describe_out(node, idx, ev):
        md = ev.context.get("metadata", {})
        m = describe_in(node, idx, ev)
        f = md.get("ack_future")
        if f is not None and id(f) not in seen_futs:
            seen_futs[id(f)] = f
            f._add_settle_callback(lambda sf, s=md["seq"], b=int(md["destination"][1:]): tr.emit(["Res", s, b]))
        return ["Send", m]

    def snapshot(node, idx):
        if idx == 0:
            lag = prim._backup_lag
            return [store_items(node.store),
                    [prim._seq, prim.stats.writes, prim.stats.reads, prim.stats.replications_sent, prim.stats.acks_received]
                    + [lag.get(b.name, 0) for b in baks] + [lag.get(f"_acked_{b.name}", 0) for b in baks]]
        st = node.stats
        return [store_items(node.store), [st.replications_applied, st.reads, st.last_applied_seq]]

    tr = Tracer(describe_in, describe_out, snapshot)
    for i, n in enumerate(nodes):
        tr.wrap(n, i)
    sim = Simulation(start_time=Instant.Epoch, entities=[*nodes, net, *stores])

    def logs():
        return [[(kid(k), v) for k, v in s.put_log] for s in stores]

    for (t, kind, node, key, wid, rf) in c["ops"]:
        md = {"key": f"k{key}", "wid": wid}
        if kind == "W":
            md["value"] = wid
        if rf:
            f = SimFuture()
            md["reply_future"] = f
            if kind == "W":
                def on_w(sf, wid=wid, key=key, node=node):
                    v = sf._value
                    tr.emit(["Reply", wid, v.get("seq", -1)])
                    replies.append(dict(wid=wid, key=key, value=v, logs=logs(), t=sim._clock.now.to_seconds()))
                f._add_settle_callback(on_w)
            else:
                def on_r(sf, wid=wid, key=key, node=node):
                    v = sf._value
                    tr.emit(["RdReply", wid, v.get("value"), bool(v.get("stale", False)), v.get("seq", 0)])
                    reads.append(dict(rid=wid, node=node, key=key, value=v, logs=logs()))
                f._add_settle_callback(on_r)
        et = {"W": "Write", "R": "Read", "O": "Bogus"}[kind]
        sim.schedule(Event(time=Instant.from_seconds(t / US), event_type=et, target=nodes[node], context={"metadata": md}))
    _, verdict = run_bounded(sim, wall_s=20.0)
    final = [[tr.snapshot(n, i), logs()[i]] for i, n in enumerate(nodes)]
    return dict(segs=tr.segs, final=final, verdict=verdict, replies=replies, reads=reads,
                sent=len(sent_log), routed=net.events_routed, npid=tr.npid,
                open_procs=sum(1 for s in tr.segs if s["inp"][0] == "S") - sum(1 for s in tr.segs if s["y"][0] == "X"))


def pb_msg_term(m):
    k = m[0]
    if k == "W":
        return Ctor("MWrite", m[1], m[2], m[3], m[4])
    if k == "Rd":
        return Ctor("MRead", m[1], m[2], m[3])
    if k == "Rep":
        return Ctor("MReplicate", m[1], m[2], m[3], m[4], m[5])
    if k == "Ack":
        return Ctor("MAck", m[1], m[2])
    return Ctor("MOther")


def pb_out_term(o):
    if o[0] == "Send":
        return Ctor("OSend", pb_msg_term(o[1]))
    if o[0] == "Res":
        return Ctor("OResolve", o[1], o[2])
    if o[0] == "Reply":
        return Ctor("OReply", o[1], o[2])
    if o[0] == "RdReply":
        return Ctor("OReadReply", o[1], None if o[2] is None else SomeV(o[2]), o[3], o[4])
    raise ValueError(o)


def obs_term(ob):
    return ([tuple(x) for x in ob[0]], list(ob[1]))


def obs_opt_term(ob):
    return None if ob is None else SomeV(obs_term(ob))


def encode_pb(c, o):
    mode = {"async": "ASYNC", "semi_sync": "SEMI", "sync": "SYNC"}[c["mode"]]
    cfg = (Ctor(mode), Nat(c["nb"]), c["wlat"], c["rlat"], c["serve"])
    segs = []
    for s in o["segs"]:
        i = s["inp"]
        inp = Ctor("IStart", i[1], pb_msg_term(i[2])) if i[0] == "S" else Ctor("IResume", i[1])
        segs.append((inp, [pb_out_term(x) for x in s["outs"]], yld_term(s["y"]), obs_opt_term(s["obs"])))
    final = [(obs_term(f[0]), [tuple(x) for x in f[1]]) for f in o["final"]]
    # every message handed to the network was routed, so in flight at the end = sent - delivered
    delivered = sum(1 for s in o["segs"] if s["inp"][0] == "S" and s["inp"][2][0] in ("Rep", "Ack"))
    return term((cfg, segs, (final, o["sent"] - delivered, o["open_procs"])))


def oracle_pb(c, o):
    out = []
    nb = c["nb"]
    if o["verdict"] != "ok":
        return [dict(clause="simulation terminates", verdict=o["verdict"])]
    writes = {op[4]: op for op in c["ops"] if op[1] == "W" and op[2] == 0}
    for r in o["replies"]:
        if r["wid"] not in writes:
            continue
        key, val = r["key"], r["wid"]
        if r["value"].get("status") != "ok":
            out.append(dict(clause="write acknowledged with status ok", reply=r["value"]))
            continue
        has = [(key, val) in [tuple(x) for x in lg] for lg in r["logs"]]
        if not has[0]:
            out.append(dict(clause="acknowledged write is applied on the primary", wid=r["wid"]))
        if c["mode"] == "sync" and not all(has[1:]):
            out.append(dict(clause="SYNC: acknowledged write is applied on every backup", wid=r["wid"], applied=has))
        if c["mode"] == "semi_sync" and nb >= 1 and not any(has[1:]):
            out.append(dict(clause="SEMI_SYNC: acknowledged write is applied on at least one backup", wid=r["wid"], applied=has))
    # every write with a reply future is eventually acknowledged
    acked = {r["wid"] for r in o["replies"]}
    for wid, op in writes.items():
        if op[5] and wid not in acked:
            out.append(dict(clause="every write is eventually acknowledged once all messages are delivered", wid=wid))
    # convergence at quiescence
    fin = o["final"]
    stores = [dict(tuple(x) for x in f[0][0]) for f in fin]
    logs = [[tuple(x) for x in f[1]] for f in fin]
    for b in range(1, nb + 1):
        if stores[b] != stores[0]:
            keys = sorted(k for k in set(stores[0]) | set(stores[b]) if stores[0].get(k) != stores[b].get(k))
            reordered = sorted(logs[b]) == sorted(logs[0]) and all(
                [e for e in logs[b] if e[0] == k] != [e for e in logs[0] if e[0] == k] for k in keys)
            out.append(dict(clause="replicas converge once writes stop and all messages are delivered",
                            mechanism="pb-reordered-same-key" if reordered else "pb-diverged-other",
                            backup=b, keys=keys, primary=stores[0], replica=stores[b],
                            what="primary-backup: two Replicate messages for one key overtake each other; the backup applies in arrival order and keeps the older value (no sequence check in BackupNode._handle_replicate)"))
            break
    return out


def attribute_pb(c, o, f):
    if f.get("mechanism") == "pb-reordered-same-key":
        return "C17-pb-reorder-diverge"
    return None


def nontrivial_pb(c, o):
    ks = [op[3] for op in c["ops"] if op[1] == "W" and op[2] == 0]
    return c["nb"] >= 1 and len(ks) != len(set(ks))



# --------------------------------------------------------------------------- chain replication
CH_IMPORTS = "From HS Require Import Base.Prelude C17.Model C17.Chain."
CH_TYPE = "(nat * bool * list Z * list Z) * list cseg * final_obs"


def gen_chain(rng):
    n = rng.choice([2, 2, 3, 3, 4])
    craq = rng.random() < 0.6
    nkeys = rng.choice([1, 1, 2, 3])
    ops = []
    t = 0
    for i in range(rng.randint(1, 8)):
        t += rng.choice([0, 500, 1000, 1000, 3000, 8000])
        r = rng.random()
        if r < 0.55:
            ops.append([t, "W", 0, rng.randrange(nkeys), 100 + i, rng.random() < 0.9])
        elif r < 0.93:
            node = rng.choice([n - 1, rng.randrange(n)])
            ops.append([t, "R", node, rng.randrange(nkeys), 100 + i, True])   # (a forwarded read is identified by its reply future)
        elif r < 0.97:
            ops.append([t, "W", rng.randrange(n), rng.randrange(nkeys), 100 + i, True])      # Write to a non-head node
        else:
            ops.append([t, "O", rng.randrange(n), 0, 100 + i, False])
    same = rng.random() < 0.5
    wl = rng.choice([1000, 2000, 3000])
    return dict(n=n, craq=craq, ops=ops,
                wlat=[wl if same else rng.choice([1000, 2000, 3000, 5000]) for _ in range(n)],
                rlat=[rng.choice([500, 1500]) for _ in range(n)],
                delays=[rng.choice(DELAYS) for _ in range(rng.randint(1, 12))])


def impl_chain(c):
    from happysimulator import Event, Instant, Network, SimFuture, Simulation
    from happysimulator.components.network.link import NetworkLink
    from happysimulator.components.replication.chain_replication import build_chain
    from hsverif.util import run_bounded

    n = c["n"]
    net = Network(name="net")
    stores = []

    def factory(name):
        i = len(stores)
        st = _logged_store(name, c["wlat"][i], c["rlat"][i])
        stores.append(st)
        return st

    nodes = build_chain([f"n{i}" for i in range(n)], net, factory, craq_enabled=c["craq"])
    sent_log = []
    lat = _scripted_latency(c["delays"], sent_log)
    for a in nodes:
        for b in nodes:
            if a is not b:
                net.add_link(a, b, NetworkLink(name=f"l{a.name}{b.name}", latency=lat))
    rid_of = {}          # id(reply_future) -> (rid, future)
    acked, reads = [], []
    seen_pending = {}

    def describe_in(node, idx, ev):
        md = ev.context.get("metadata", {})
        et = ev.event_type
        if et == "Write":
            return ["W", md["wid"], kid(md["key"]), md["value"], md.get("reply_future") is not None]
        if et == "Read":
            rf = md.get("reply_future")
            if "destination" in md:          # forwarded by a CRAQ node
                rid = rid_of[id(rf)][0] if rf is not None else md.get("wid", -1)
                return ["FRd", rid, kid(md["key"]), rf is not None]
            return ["Rd", md["wid"], kid(md["key"]), rf is not None]
        if et == "Propagate":
            return ["Prop", int(md["destination"][1:]), kid(md["key"]), md["value"], md["seq"]]
        if et == "WriteAck":
            return ["Ack", kid(md["key"]), md["seq"]]
        if et == "CommitNotify":
            return ["Com", int(md["destination"][1:]), kid(md["key"]), md["seq"]]
        return ["O"]

    def describe_out(node, idx, ev):
        return ["Send", describe_in(node, idx, ev)]

    def snapshot(node, idx):
        st = node.stats
        for sq, f in node._pending_writes.items():
            if id(f) not in seen_pending:
                seen_pending[id(f)] = f
                f._add_settle_callback(lambda sf, sq=sq: tr.emit(["Res", sq]))
        return [store_items(node.store),
                [node._next_seq, st.writes_received, st.propagations_sent, st.propagations_received, st.acks_sent, st.reads_served]
                + [-1] + sorted(kid(k) for k in node.dirty_keys) + [-1] + list(node._pending_writes.keys())]

    tr = Tracer(describe_in, describe_out, snapshot)
    start_len = {}       # rid -> number of puts completed at the serving node when its _handle_read began
    orig_open = tr._open

    def _open(inp, node, idx):
        if inp[0] == "S" and inp[2][0] in ("Rd", "FRd"):
            start_len[inp[2][1]] = len(stores[idx].put_log)
        return orig_open(inp, node, idx)

    tr._open = _open
    for i, nd in enumerate(nodes):
        tr.wrap(nd, i)
    sim = Simulation(start_time=Instant.Epoch, entities=[*nodes, net, *stores])

    def logs():
        return [[(kid(k), v) for k, v in s.put_log] for s in stores]

    for (t, kind, node, key, wid, rf) in c["ops"]:
        md = {"key": f"k{key}", "wid": wid}
        if kind == "W":
            md["value"] = wid
        if rf:
            f = SimFuture()
            md["reply_future"] = f
            rid_of[id(f)] = (wid, f)
            if kind == "W":
                def on_w(sf, wid=wid, key=key, node=node):
                    v = sf._value
                    if v.get("status") == "ok":
                        tr.emit(["Reply", wid, v.get("seq", -1)])
                    else:
                        tr.emit(["ReplyErr", wid])
                    acked.append(dict(wid=wid, key=key, node=node, value=v, logs=logs()))
                f._add_settle_callback(on_w)
            else:
                def on_r(sf, wid=wid, key=key, node=node):
                    v = sf._value
                    tr.emit(["RdReply", wid, v.get("value")])
                    served_by = tr.cur["node"] if tr.cur else -1
                    reads.append(dict(rid=wid, node=node, served_by=served_by, key=key, value=v.get("value"), logs=logs(),
                                      start_len=start_len.get(wid, 0),
                                      dirty=[sorted(kid(k) for k in nd.dirty_keys) for nd in nodes]))
                f._add_settle_callback(on_r)
        et = {"W": "Write", "R": "Read", "O": "Bogus"}[kind]
        sim.schedule(Event(time=Instant.from_seconds(t / US), event_type=et, target=nodes[node], context={"metadata": md}))
    _, verdict = run_bounded(sim, wall_s=20.0)
    final = [[tr.snapshot(nd, i), logs()[i]] for i, nd in enumerate(nodes)]
    return dict(segs=tr.segs, final=final, verdict=verdict, replies=acked, reads=reads, sent=len(sent_log),
                open_procs=sum(1 for s in tr.segs if s["inp"][0] == "S") - sum(1 for s in tr.segs if s["y"][0] == "X"))


def ch_msg_term(m):
    k = m[0]
    if k == "W":
        return Ctor("CWrite", m[1], m[2], m[3], m[4])
    if k == "Rd":
        return Ctor("CRead", m[1], m[2], m[3])
    if k == "FRd":
        return Ctor("CFwdRead", m[1], m[2], m[3])
    if k == "Prop":
        return Ctor("CProp", m[1], m[2], m[3], m[4])
    if k == "Ack":
        return Ctor("CAck", m[1], m[2])
    if k == "Com":
        return Ctor("CCommit", m[1], m[2], m[3])
    return Ctor("COther")


def ch_out_term(o):
    if o[0] == "Send":
        return Ctor("COSend", ch_msg_term(o[1]))
    if o[0] == "Res":
        return Ctor("COResolve", o[1])
    if o[0] == "Reply":
        return Ctor("COReply", o[1], o[2])
    if o[0] == "ReplyErr":
        return Ctor("COReplyErr", o[1])
    if o[0] == "RdReply":
        return Ctor("COReadReply", o[1], None if o[2] is None else SomeV(o[2]))
    raise ValueError(o)


def encode_chain(c, o):
    cfg = (Nat(c["n"]), c["craq"], c["wlat"], c["rlat"])
    segs = []
    for s in o["segs"]:
        i = s["inp"]
        inp = Ctor("CStart", i[1], ch_msg_term(i[2])) if i[0] == "S" else Ctor("CResume", i[1])
        segs.append((inp, [ch_out_term(x) for x in s["outs"]], yld_term(s["y"]), obs_opt_term(s["obs"])))
    final = [(obs_term(f[0]), [tuple(x) for x in f[1]]) for f in o["final"]]
    delivered = sum(1 for s in o["segs"] if s["inp"][0] == "S" and s["inp"][2][0] in ("Prop", "Ack", "Com", "FRd"))
    return term((cfg, segs, (final, o["sent"] - delivered, o["open_procs"])))


def oracle_chain(c, o):
    out = []
    n = c["n"]
    if o["verdict"] != "ok":
        return [dict(clause="simulation terminates", verdict=o["verdict"])]
    writes = {op[4]: op for op in c["ops"] if op[1] == "W" and op[2] == 0}
    for r in o["replies"]:
        if r["node"] != 0:
            if r["value"].get("status") != "error":
                out.append(dict(clause="a Write sent to a non-head node is rejected", reply=r["value"]))
            continue
        has = [(r["key"], r["wid"]) in [tuple(x) for x in lg] for lg in r["logs"]]
        if r["value"].get("status") != "ok" or not all(has):
            out.append(dict(clause="chain: an acknowledged write is applied at every node of the chain", wid=r["wid"], applied=has, reply=r["value"]))
    acked = {r["wid"] for r in o["replies"]}
    for wid, op in writes.items():
        if op[5] and wid not in acked:
            out.append(dict(clause="every write is eventually acknowledged once all messages are delivered", wid=wid))
    for r in o["reads"]:
        tail_log = [tuple(x) for x in r["logs"][n - 1]]
        committed = (r["value"] is None and True) or (r["key"], r["value"]) in tail_log
        if r["served_by"] == n - 1:
            if not committed:
                out.append(dict(clause="chain: a read served by the tail returns a value applied at the tail", rid=r["rid"], value=r["value"]))
            elif r["value"] is not None and [e for e in tail_log if e[0] == r["key"]][-1][1] != r["value"]:
                out.append(dict(clause="chain: a read served by the tail returns the tail's latest value", rid=r["rid"], value=r["value"]))
        elif c["craq"] and not committed:
            # the mark of this key can only have been cleared by the commit/ack of ANOTHER write to the same key
            earlier = any(w != r["value"] and op[3] == r["key"] for w, op in writes.items())
            own = [tuple(x) for x in r["logs"][r["served_by"]]]
            late = (r["key"], r["value"]) not in own[:r["start_len"]]      # applied after the dirty check
            if late:
                out.append(dict(clause="chain: a read never returns a value not yet committed at the tail",
                                mechanism="craq-check-then-read", rid=r["rid"], served_by=r["served_by"], value=r["value"], tail_log=tail_log,
                                what="CRAQ: _handle_read tests the dirty mark before store.get; a write applied during the read latency is returned although it is not committed at the tail"))
                continue
            out.append(dict(clause="chain: a read never returns a value not yet committed at the tail",
                            mechanism="craq-dirty-key-set" if earlier else "craq-uncommitted-other", rid=r["rid"], served_by=r["served_by"], value=r["value"], tail_log=tail_log,
                            what="CRAQ: dirty marks are a set of keys, not versions; the commit/ack of an earlier write to the key clears the mark while a later write is still uncommitted, so a non-tail node serves the uncommitted value as clean"))
    fin = o["final"]
    stores = [dict(tuple(x) for x in f[0][0]) for f in fin]
    logs = [[tuple(x) for x in f[1]] for f in fin]
    for b in range(1, n):
        if stores[b] != stores[0]:
            keys = sorted(k for k in set(stores[0]) | set(stores[b]) if stores[0].get(k) != stores[b].get(k))
            reordered = sorted(logs[b]) == sorted(logs[0]) and all(
                [e for e in logs[b] if e[0] == k] != [e for e in logs[0] if e[0] == k] for k in keys)
            out.append(dict(clause="replicas converge once writes stop and all messages are delivered",
                            mechanism="chain-reordered-same-key" if reordered else "chain-diverged-other",
                            node=b, keys=keys, head=stores[0], replica=stores[b],
                            what="chain: two Propagate messages for one key overtake each other on a link; the downstream node applies in arrival order and keeps the older value"))
            break
    return out


def attribute_chain(c, o, f):
    if f.get("mechanism") == "chain-reordered-same-key":
        return "C17-chain-reorder-diverge"
    if f.get("mechanism") == "craq-dirty-key-set":
        return "C17-craq-dirty-set"
    if f.get("mechanism") == "craq-check-then-read":
        return "C17-craq-check-then-read"
    return None



# --------------------------------------------------------------------------- multi-leader
ML_IMPORTS = "From HS Require Import Base.Prelude C17.Model C17.ML."
ML_TYPE = "(nat * list Z * list Z) * list mseg * (list node_obs * Z * Z)"


def ae_cover(n):
    """peer choices after which every replica has exchanged (transitively) with every other"""
    fwd = [(i, i + 1) for i in range(n - 1)]
    return fwd + [(j, i) for (i, j) in reversed(fwd)]


def gen_ml_late_replicate(rng):
    """Directed shape: a long-delayed Replicate of a superseded write arrives while the receiver is in the middle of
    an anti-entropy reconcile loop that has already repaired that key (several keys, one store write each)."""
    w = rng.choice([2000, 3000, 5000])
    extra = rng.choice([2, 3])
    ops, t, sent = [], 1000, []
    for i, key in enumerate([0, 0] + list(range(1, extra + 1))):
        ops.append([t, "W", 0, key, 100 + i, rng.random() < 0.5])
        sent.append(t + w)                       # the Replicate leaves once the local store write is done
        t += w + 1000
    t_ae = t + 1000
    ops.append([t_ae, "A", 0, 1, 100 + len(ops), False])
    loop_start = t_ae + 100                      # AntiEntropyRequest delay 100
    k = rng.randint(1, extra)                    # arrives during the store write of the (k+1)-th repaired key
    arrive = loop_start + k * w + rng.choice([1, w // 2, w - 1])
    delays = [arrive - sent[0]] + [200_000] * (len(sent) - 1) + [100] * 6
    return dict(n=2, ops=ops, resolver=rng.choice(["lww", "vcm"]), wlat=[w, w], rlat=[500, 500], delays=delays, shape="late_replicate")


def gen_ml(rng):
    if rng.random() < 0.12:
        return gen_ml_late_replicate(rng)
    n = rng.choice([2, 2, 3, 3, 4])
    nkeys = rng.choice([1, 1, 2, 3])
    ops = []
    t = 1000
    for i in range(rng.randint(1, 8)):
        t += rng.choice([0, 500, 1000, 1000, 3000, 8000])
        r = rng.random()
        if r < 0.7:
            ops.append([t, "W", rng.randrange(n), rng.randrange(nkeys), 100 + i, rng.random() < 0.8])
        elif r < 0.85:
            ops.append([t, "R", rng.randrange(n), rng.randrange(nkeys), 100 + i, True])
        elif r < 0.97:
            a = rng.randrange(n)
            ops.append([t, "A", a, rng.choice([j for j in range(n) if j != a]), 100 + i, False])   # anti-entropy during the writes
        else:
            ops.append([t, "O", rng.randrange(n), 0, 100 + i, False])
    same = rng.random() < 0.5
    wl = rng.choice([1000, 2000, 3000])
    return dict(n=n, ops=ops, resolver=rng.choice(["lww", "lww", "vcm"]),
                wlat=[wl if same else rng.choice([1000, 2000, 3000, 5000]) for _ in range(n)],
                rlat=[rng.choice([500, 1500]) for _ in range(n)],
                delays=[rng.choice(DELAYS) for _ in range(rng.randint(1, 12))])


def impl_ml(c):
    import happysimulator.components.replication.multi_leader as mlmod
    from happysimulator import Event, Instant, Network, SimFuture, Simulation
    from happysimulator.components.network.link import NetworkLink
    from happysimulator.components.replication.conflict_resolver import LastWriterWins, VectorClockMerge
    from happysimulator.components.replication.multi_leader import LeaderNode
    from hsverif.util import run_bounded

    n = c["n"]
    net = Network(name="net")
    stores = [_logged_store(f"s{i}", c["wlat"][i], c["rlat"][i]) for i in range(n)]
    names = [f"n{i}" for i in range(n)]
    nodes = [LeaderNode(names[i], store=stores[i], network=net,
                        conflict_resolver=LastWriterWins() if c["resolver"] == "lww" else VectorClockMerge(),
                        anti_entropy_interval=5000.0) for i in range(n)]
    for nd in nodes:
        nd.add_peers([x for x in nodes if x is not nd])
    sent_log = []
    lat = _scripted_latency(c["delays"], sent_log)
    for a in nodes:
        for b in nodes:
            if a is not b:
                net.add_link(a, b, NetworkLink(name=f"l{a.name}{b.name}", latency=lat))
    hash_items = {}
    replies, reads = [], []

    def nix(name):
        return int(name[1:])

    def ver_of(value, ts, writer, vc):
        return [value, round(ts * US), nix(writer), [(vc or {}).get(x, 0) for x in names]]

    def vers_of(d):
        return [[kid(k), ver_of(v["value"], v["timestamp"], v["writer_id"], v.get("vector_clock"))] for k, v in d.items()]

    def describe_in(node, idx, ev):
        md = ev.context.get("metadata", {})
        et = ev.event_type
        if et == "Write":
            return ["W", md["wid"], kid(md["key"]), md["value"], round(ev.time.to_seconds() * US), md.get("reply_future") is not None]
        if et == "Read":
            return ["Rd", md["wid"], kid(md["key"]), md.get("reply_future") is not None]
        if et == "Replicate":
            return ["Rep", nix(md["destination"]), kid(md["key"]), ver_of(md["value"], md["timestamp"], md["writer_id"], md["vector_clock"])]
        if et == "AntiEntropy":
            return ["AE", md["peer"]]
        if et == "AntiEntropyRequest":
            return ["AEReq", nix(md["destination"]), nix(md["source"]), hash_items[md["root_hash"]], vers_of(md["versions"])]
        if et == "AntiEntropyResponse":
            return ["AEResp", nix(md["destination"]), vers_of(md["versions"])]
        return ["O"]

    def describe_out(node, idx, ev):
        if ev.event_type == "AntiEntropy":
            return ["Next"]
        if ev.event_type == "AntiEntropyRequest":
            hash_items[ev.context["metadata"]["root_hash"]] = [[kid(k), v] for k, v in node.merkle_tree.items()]
        return ["Send", describe_in(node, idx, ev)]

    def snapshot(node, idx):
        st = node.stats
        flat = []
        for k, vv in node._versions.items():
            v = ver_of(vv.value, vv.timestamp, vv.writer_id, vv.vector_clock)
            flat += [kid(k), v[0], v[1], v[2]] + v[3]
        vcl = node._vclock.snapshot()
        return [store_items(node.store),
                [st.writes, st.reads, st.replications_sent, st.replications_received, st.conflicts_detected,
                 st.conflicts_resolved, st.anti_entropy_syncs, st.anti_entropy_keys_repaired]
                + [vcl.get(x, 0) for x in names] + [-1] + flat]

    tr = Tracer(describe_in, describe_out, snapshot)

    class ScriptedRandom:
        def choice(self, seq):
            peer = tr.cur["inp"][2][1]
            return [x for x in seq if x.name == f"n{peer}"][0]

    for i, nd in enumerate(nodes):
        tr.wrap(nd, i)
    sim = Simulation(start_time=Instant.Epoch, entities=[*nodes, net, *stores])   # ends when only the daemon AntiEntropy timers remain
    last = 0
    for (t, kind, node, key, wid, rf) in c["ops"]:
        last = max(last, t)
        if kind == "A":
            sim.schedule(Event(time=Instant.from_seconds(t / US), event_type="AntiEntropy", target=nodes[node],
                               context={"metadata": {"peer": key}}))
            continue
        md = {"key": f"k{key}", "wid": wid}
        if kind == "W":
            md["value"] = wid
        if rf:
            f = SimFuture()
            md["reply_future"] = f
            if kind == "W":
                f._add_settle_callback(lambda sf, wid=wid: (tr.emit(["Reply", wid]), replies.append([wid, sf._value])))
            else:
                f._add_settle_callback(lambda sf, wid=wid: (tr.emit(["RdReply", wid, sf._value.get("value")]), reads.append([wid, sf._value.get("value")])))
        et = {"W": "Write", "R": "Read", "O": "Bogus"}[kind]
        sim.schedule(Event(time=Instant.from_seconds(t / US), event_type=et, target=nodes[node], context={"metadata": md}))
    # after the writes: anti-entropy rounds that cover every pair, far apart
    pre = {}
    t = last + 1_000_000
    sim.schedule(Event.once(time=Instant.from_seconds(t / US - 0.1), event_type="Snap",
                            fn=lambda e: pre.update(stores=[dict(store_items(s)) for s in stores])))
    for rnd in range(1):
        for (a, b) in ae_cover(n):
            sim.schedule(Event(time=Instant.from_seconds(t / US), event_type="AntiEntropy", target=nodes[a],
                               context={"metadata": {"peer": b}}))
            t += 300_000
    old_random = mlmod.random
    mlmod.random = ScriptedRandom()
    try:
        _, verdict = run_bounded(sim, wall_s=30.0)
    finally:
        mlmod.random = old_random
    final = [tr.snapshot(nd, i) for i, nd in enumerate(nodes)]
    delivered = sum(1 for s in tr.segs if s["inp"][0] == "S" and s["inp"][2][0] in ("Rep", "AEReq", "AEResp"))
    return dict(segs=tr.segs, final=final, verdict=verdict, replies=replies, reads=reads, pre=pre.get("stores"),
                inflight=len(sent_log) - delivered,
                open_procs=sum(1 for s in tr.segs if s["inp"][0] == "S") - sum(1 for s in tr.segs if s["y"][0] == "X"))


def ver_term(v):
    return (v[0], v[1], v[2], list(v[3]))


def ml_msg_term(m):
    k = m[0]
    if k == "W":
        return Ctor("LWrite", m[1], m[2], m[3], m[4], m[5])
    if k == "Rd":
        return Ctor("LRead", m[1], m[2], m[3])
    if k == "Rep":
        return Ctor("LRep", m[1], m[2], ver_term(m[3]))
    if k == "AE":
        return Ctor("LAE", m[1])
    if k == "AEReq":
        return Ctor("LAEReq", m[1], m[2], [tuple(x) for x in m[3]], [(x[0], ver_term(x[1])) for x in m[4]])
    if k == "AEResp":
        return Ctor("LAEResp", m[1], [(x[0], ver_term(x[1])) for x in m[2]])
    return Ctor("LOther")


def ml_out_term(o):
    if o[0] == "Send":
        return Ctor("MOSend", ml_msg_term(o[1]))
    if o[0] == "Next":
        return Ctor("MONext")
    if o[0] == "Reply":
        return Ctor("MOReply", o[1])
    if o[0] == "RdReply":
        return Ctor("MOReadReply", o[1], None if o[2] is None else SomeV(o[2]))
    raise ValueError(o)


def encode_ml(c, o):
    cfg = (Nat(c["n"]), c["wlat"], c["rlat"])
    segs = []
    for s in o["segs"]:
        i = s["inp"]
        inp = Ctor("MStart", i[1], ml_msg_term(i[2])) if i[0] == "S" else Ctor("MResume", i[1])
        segs.append((inp, [ml_out_term(x) for x in s["outs"]], yld_term(s["y"]), obs_opt_term(s["obs"])))
    return term((cfg, segs, ([obs_term(f) for f in o["final"]], o["inflight"], o["open_procs"])))


def oracle_ml(c, o):
    out = []
    if o["verdict"] != "ok":
        return [dict(clause="simulation terminates", verdict=o["verdict"])]
    writes = {op[4]: op for op in c["ops"] if op[1] == "W"}
    acked = {r[0] for r in o["replies"]}
    for wid, op in writes.items():
        if op[5] and wid not in acked:
            out.append(dict(clause="every write is eventually acknowledged", wid=wid))
    stores = [dict(tuple(x) for x in f[0]) for f in o["final"]]
    for b in range(1, c["n"]):
        if stores[b] != stores[0]:
            out.append(dict(clause="multi-leader: replicas converge once writes stop, messages are delivered and anti-entropy has run",
                            mechanism="ml-diverged-after-anti-entropy", replica=b, first=stores[0], other=stores[b]))
            break
    for k, v in stores[0].items():
        if not any(op[3] == k and wid == v for wid, op in writes.items()):
            out.append(dict(clause="multi-leader: the converged value of a key is one of the values written to it", key=k, value=v))
    written = {op[3] for op in writes.values()}
    if written - set(stores[0]):
        out.append(dict(clause="multi-leader: every written key is present after convergence", missing=sorted(written - set(stores[0]))))
    return out


def nontrivial_ml(c, o):
    ws = [op for op in c["ops"] if op[1] == "W"]
    return any(a[3] == b[3] and a[2] != b[2] for a in ws for b in ws)      # one key written on two leaders



# --------------------------------------------------------------------------- multi-leader decision kernel (direct drive)
def gen_mlk(rng):
    n = 3

    def ver(i):
        return [i + 1, rng.randint(0, 3), rng.randrange(n), [rng.randint(0, 2) for _ in range(rng.choice([n, n, n, 2]))]]
    return dict(a=ver(0), b=ver(1))


def impl_mlk(c):
    from happysimulator.components.replication import conflict_resolver as cr
    from happysimulator.components.replication import multi_leader as mlmod

    def vv(v):
        return cr.VersionedValue(value=v[0], timestamp=v[1] / US, writer_id=f"n{v[2]}",
                                 vector_clock={f"n{i}": x for i, x in enumerate(v[3])})
    a, b = vv(c["a"]), vv(c["b"])
    dab = mlmod._vc_dominates(a.vector_clock, b.vector_clock)
    dba = mlmod._vc_dominates(b.vector_clock, a.vector_clock)
    same = (dab == cr._vc_dominates(a.vector_clock, b.vector_clock)) and (dba == cr._vc_dominates(b.vector_clock, a.vector_clock))
    return dict(dab=dab, dba=dba, same=same, lww=cr.LastWriterWins().resolve("k", [a, b]).value,
                merge=cr.VectorClockMerge().resolve("k", [a, b]).value)


def oracle_mlk(c, o):
    a, b = c["a"], c["b"]
    out = []

    def dom(x, y):
        m = max(len(x), len(y))
        x, y = x + [0] * (m - len(x)), y + [0] * (m - len(y))
        return all(p >= q for p, q in zip(x, y)) and any(p > q for p, q in zip(x, y))
    if o["dab"] != dom(a[3], b[3]) or o["dba"] != dom(b[3], a[3]) or not o["same"]:
        out.append(dict(clause="vector-clock dominance: all components >= and one >"))
    hi = max([a, b], key=lambda v: (v[1], v[2]))
    if (a[1], a[2]) != (b[1], b[2]) and o["lww"] != hi[0]:
        out.append(dict(clause="LastWriterWins picks the highest (timestamp, writer)"))
    exp = a[0] if dom(a[3], b[3]) else b[0] if dom(b[3], a[3]) else o["lww"]
    if o["merge"] != exp:
        out.append(dict(clause="a causally dominating version wins, concurrent versions go to the resolver"))
    return out



# --------------------------------------------------------------------------- ReplicatedStore
RS_IMPORTS = "From HS Require Import Base.Prelude C17.Model C17.RS."
RS_TYPE = "(nat * level * level * list Z * list Z) * list rseg"
LEVELS = {"one": "L_ONE", "quorum": "L_QUORUM", "all": "L_ALL"}


def gen_rs(rng):
    n = rng.choice([1, 2, 3, 3, 4])
    nkeys = rng.choice([1, 2, 3])
    ops, t = [], 0
    for i in range(rng.randint(1, 8)):
        t += rng.choice([0, 0, 500, 1000, 2000, 6000])
        if rng.random() < 0.6:
            ops.append([t, "P", rng.randrange(nkeys), 100 + i])
        else:
            ops.append([t, "G", rng.randrange(nkeys), 100 + i])
    same = rng.random() < 0.5
    return dict(n=n, read=rng.choice(list(LEVELS)), write=rng.choice(list(LEVELS)), ops=ops,
                wlat=[2000 if same else rng.choice([500, 1000, 2000, 4000]) for _ in range(n)],
                rlat=[rng.choice([500, 1500]) for _ in range(n)])


def impl_rs(c):
    from happysimulator import Event, Instant, Simulation
    from happysimulator.components.datastore.replicated_store import ConsistencyLevel, ReplicatedStore
    from happysimulator.core.entity import Entity
    from hsverif.util import run_bounded

    n = c["n"]
    reps = [_logged_store(f"r{i}", c["wlat"][i], c["rlat"][i]) for i in range(n)]
    rs = ReplicatedStore("rs", replicas=reps, read_consistency=ConsistencyLevel(c["read"]),
                         write_consistency=ConsistencyLevel(c["write"]))
    acks, gets = [], []

    def logs():
        return [[(kid(k), v) for k, v in r.put_log] for r in reps]

    class Client(Entity):
        def handle_event(self, event):
            md = event.context["metadata"]
            if md["op"] == "P":
                ok = yield from rs.put(md["key"], md["value"])
                tr.emit(["Put", md["wid"], bool(ok)])
                acks.append(dict(wid=md["wid"], key=kid(md["key"]), ok=bool(ok), logs=logs()))
            else:
                v = yield from rs.get(md["key"])
                tr.emit(["Get", md["wid"], v])
                gets.append(dict(rid=md["wid"], key=kid(md["key"]), value=v))

    def describe_in(node, idx, ev):
        md = ev.context["metadata"]
        return ["P", md["wid"], kid(md["key"]), md["value"]] if md["op"] == "P" else ["G", md["wid"], kid(md["key"])]

    def snapshot(node, idx):
        st = rs.stats
        return [[store_items(r) for r in reps], [st.reads, st.writes, st.read_successes, st.write_successes]]

    tr = Tracer(describe_in, lambda node, idx, ev: ["?"], snapshot)
    client = Client("client")
    tr.wrap(client, 0)
    sim = Simulation(start_time=Instant.Epoch, entities=[client, rs, *reps])
    for (t, op, key, wid) in c["ops"]:
        md = {"op": op, "key": f"k{key}", "wid": wid, "value": wid}
        sim.schedule(Event(time=Instant.from_seconds(t / US), event_type="Op", target=client, context={"metadata": md}))
    _, verdict = run_bounded(sim, wall_s=20.0)
    prev = [[[] for _ in range(n)], [0, 0, 0, 0]]
    for s in tr.segs:
        if s["obs"] is None:
            s["obs"] = prev
        prev = s["obs"]
    return dict(segs=tr.segs, verdict=verdict, acks=acks, gets=gets, final=[store_items(r) for r in reps], failures=rs.stats.write_failures + rs.stats.read_failures)


def encode_rs(c, o):
    segs = []
    for s in o["segs"]:
        i = s["inp"]
        if i[0] == "R":
            inp = Ctor("RResume", i[1])
        elif i[2][0] == "P":
            inp = Ctor("RPutStart", i[2][1], i[2][2], i[2][3])
        else:
            inp = Ctor("RGetStart", i[2][1], i[2][2])
        outs = [Ctor("ROPut", x[1], x[2]) if x[0] == "Put" else Ctor("ROGet", x[1], None if x[2] is None else SomeV(x[2])) for x in s["outs"]]
        ob = s["obs"]
        segs.append((inp, outs, yld_term(s["y"]), ([[tuple(kv) for kv in rep] for rep in ob[0]], list(ob[1]))))
    return term(((Nat(c["n"]), Ctor(LEVELS[c["read"]]), Ctor(LEVELS[c["write"]]), c["wlat"], c["rlat"]), segs))


def oracle_rs(c, o):
    out = []
    if o["verdict"] != "ok":
        return [dict(clause="simulation terminates", verdict=o["verdict"])]
    puts = {op[3]: op for op in c["ops"] if op[1] == "P"}
    for a in o["acks"]:
        has = [(a["key"], a["wid"]) in [tuple(x) for x in lg] for lg in a["logs"]]
        if not a["ok"] or not all(has):
            out.append(dict(clause="replicated store: an acknowledged put is applied on every replica", wid=a["wid"], ok=a["ok"], applied=has))
    if len(o["acks"]) != len(puts):
        out.append(dict(clause="replicated store: every put returns", returned=len(o["acks"]), puts=len(puts)))
    fin = [dict(tuple(x) for x in f) for f in o["final"]]
    if any(f != fin[0] for f in fin):
        out.append(dict(clause="replicated store: all replicas hold the same value for every key once the puts have finished", final=fin))
    for g in o["gets"]:
        if g["value"] is not None and not any(op[2] == g["key"] and wid == g["value"] for wid, op in puts.items()):
            out.append(dict(clause="replicated store: a get returns a value that was put under that key", get=g))
    if o["failures"]:
        out.append(dict(clause="replicated store: no operation fails when every replica answers", failures=o["failures"]))
    return out


def nontrivial_chain(c, o):
    ks = [op[3] for op in c["ops"] if op[1] == "W" and op[2] == 0]
    return len(ks) != len(set(ks))

FAMILIES = [
    Family("pb", PB_IMPORTS, "ok_pb", PB_TYPE, gen_pb, impl_pb, encode_pb, oracle_pb, nontrivial_pb, attribute_pb,
           parallel=True, describe=lambda c: f"{c['mode']},nb={c['nb']}"),
    Family("chain", CH_IMPORTS, "ok_chain", CH_TYPE, gen_chain, impl_chain, encode_chain, oracle_chain, nontrivial_chain, attribute_chain,
           parallel=True, describe=lambda c: f"n={c['n']},craq={c['craq']}"),
    Family("ml", ML_IMPORTS, "ok_ml", ML_TYPE, gen_ml, impl_ml, encode_ml, oracle_ml, nontrivial_ml,
           parallel=True, describe=lambda c: f"n={c['n']},{c['resolver']}"),
    Family("mlk", ML_IMPORTS, "ok_ml_kernel", "ver * ver * (bool * bool * Z * Z)", gen_mlk, impl_mlk,
           lambda c, o: term((ver_term(c["a"]), ver_term(c["b"]), (o["dab"], o["dba"], o["lww"], o["merge"]))),
           oracle_mlk, lambda c, o: o["dab"] or o["dba"]),
    Family("rs", RS_IMPORTS, "ok_rs", RS_TYPE, gen_rs, impl_rs, encode_rs, oracle_rs,
           lambda c, o: len({op[2] for op in c["ops"] if op[1] == "P"}) < sum(1 for op in c["ops"] if op[1] == "P"),
           parallel=True, describe=lambda c: f"n={c['n']},{c['read']}/{c['write']}"),
]

TRUSTED = [
    "Coq 8.16.1 kernel (coqc, vm_compute for refutation witnesses and case evaluation); no native_compute",
    "axioms: none",
    "correspondence harness harness/props/c17.py (generators, handler-segment tracer, in-Coq replay ok_* of C17/*.v)",
    "Merkle root hash modelled by the sorted (key, value) list it is computed from (sha256 assumed injective); the anti-entropy peer drawn by random.choice is scripted by the harness and passed to the model as an input",
    "engine semantics assumed by the untimed models and validated per recorded trace: a handler parked on a SimFuture/any_of/all_of is resumed only after it is resolved; a network message is delivered at most once and only after it was sent",
]


class _Sharded:
    """ctx proxy: the recorded traces are large Gallina terms, so evaluate them in small shards."""

    def __init__(self, ctx, name):
        import random
        self._ctx = ctx
        self.rng = random.Random(f"{ctx.seed}/{ctx.pid}/{name}")     # own stream per family

    def __getattr__(self, k):
        return getattr(self._ctx, k)

    def coq_cases(self, tag, imports, ok_fn, case_type, cases):
        from hsverif import coq
        return coq.eval_cases(f"{self._ctx.pid}_{tag}", imports, ok_fn, case_type, cases,
                              shard=400 if tag == "mlk" else 32, workers=12)


def run(ctx):
    ctx.prove(["C17/Model.v", "C17/PBProofs.v", "C17/PBConv.v", "C17/Chain.v", "C17/ChainProofs.v", "C17/ChainConv.v", "C17/PBFifo.v", "C17/ChainFifo.v", "C17/ML.v", "C17/MLProofs.v", "C17/RS.v", "C17/Props.v"], allowed_axioms=(), trusted_base=TRUSTED)
    n = ctx.n(40, 250)
    for fam in FAMILIES:
        fam.parallel = fam.parallel and not ctx.quick      # quick: a worker pool costs more than it saves
    stats = [run_family(_Sharded(ctx, fam.name), fam, n * 3 if fam.name == "mlk" else n) for fam in FAMILIES]
    merge_stats(ctx, stats, "random client schedules over 1-3 keys with repeated keys, per-message scripted link delays (messages overtake each other), all modes, 0-3 backups; non-trivial = some key written twice with >= 1 replica; distinct by JSON of the input")
    ctx.finish_obligations()
    ctx.assumptions += [
        "convergence under arbitrary reordering is refuted for primary-backup and chain replication (c17_pb_convergence_refuted, c17_chain_convergence_refuted; known findings) and proved under per-link FIFO delivery + per-store FIFO completion (c17_*_convergence_fifo_partial)",
        "CRAQ clean reads are refuted (c17_craq_clean_read_refuted, c17_craq_check_then_read_witness; two known findings); reads served by the tail are proved committed; non-CRAQ reads at non-tail nodes are outside the claim",
        "multi-leader: merge laws and order independence are proved for versions whose timestamps respect causality (true in a run when every store write latency is positive); convergence of the handlers after anti-entropy (including the window between the decision and the store write) is checked by the oracle on every generated run, not proved",
        "ReplicatedStore: ack-implies-applied-everywhere is proved; replica convergence for overlapping puts relies on constant per-replica latencies (no overtaking) and is checked by the oracle only",
        "SEMI_SYNC with zero backups acknowledges immediately (the 'at least one backup' clause is stated for >= 1 configured backup)",
    ]


def replay(data):
    fam = {f.name: f for f in FAMILIES}[data["detail"]["family"]]
    c = data["detail"]["case"]
    obs = fam.impl(c)
    fails = fam.oracle(c, obs)
    print("final:", obs.get("final"))
    print("oracle failures:", fails)
    return 1 if fails else 0
