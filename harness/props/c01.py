"""C01 — every live event is delivered exactly once, in time order with FIFO ties.

Tie: generated scripts (entities, generators, futures, cancellations, daemon
events, pre-run schedules with many same-nanosecond ties, all end_time choices)
run on the real Simulation and on coq/Engine (Engine.v + Script.v); the complete
pop/delivery log, the entity-side log and the final counters are compared inside
Coq.  Oracle: the C01 statement evaluated on the implementation's own log.
"""
from __future__ import annotations

from hsverif.family import Family, merge_stats, run_family
from props import engine_script as es

LEVEL = "proof"
FILES = ["Engine/Engine.v", "Engine/Script.v", "Engine/EngineProofs.v", "Engine/ScriptProofs.v",
         "Base/PyLib.v", "Gen/EventGen.v", "C01/GenTie.v", "C01/HeapTie.v", "Gen/TemporalGen.v", "C01/TimeTie.v", "C01/Props.v"]


def gen(rng):
    return es.gen_script(rng, futures=rng.random() < 0.4)


def impl(c):
    return es.run_script(c)


def has_crash_eff(script):
    return '"crash"' in __import__("json").dumps(script)


def oracle(c, o):
    out = []
    if o["status"] == 3:
        return [dict(clause="run exceeded the wall-clock limit")]
    pops = o["pops"]
    dels = [p for p in pops if p[4] == "delivered"]
    # time order, clock = timestamp, clock never moves backwards
    for a, b in zip(dels, dels[1:]):
        if a[0] > b[0]:
            out.append(dict(clause="deliveries in non-decreasing timestamp order", a=a, b=b))
            break
    clocks = [p[7] for p in pops]
    if any(x > y for x, y in zip(clocks, clocks[1:])):
        out.append(dict(clause="clock never moves backwards", clocks=clocks))
    # what the entity saw: handle log is the delivered plain pops (minus crashed targets), clock = timestamp
    handles = [u for u in o["ulog"] if u[0] == "handle"]
    hi = 0
    for p in dels:
        if p[3] != 0:
            continue
        if hi < len(handles) and handles[hi][1:] == [p[0], p[2], p[1]] and not p[9]:
            hi += 1
        elif not p[9]:
            out.append(dict(clause="a live event is delivered to its target with clock = timestamp", pop=p,
                            next_handle=handles[hi] if hi < len(handles) else None))
            break
    if not out and hi != len(handles):
        out.append(dict(clause="a handler ran for an event that was cancelled, in the past, or not popped (exactly once / cancelled never delivered)",
                        extra_handle=handles[hi]))
    # exactly once
    ids = [p[10] for p in dels]
    if len(ids) != len(set(ids)):
        out.append(dict(clause="exactly once: an event object was delivered twice", pops=dels))
    seqs = [p[6] for p in dels if p[6] is not None]
    if len(seqs) != len(set(seqs)):
        out.append(dict(clause="exactly once: a created event was delivered twice", seqs=seqs))
    # FIFO among same-timestamp events (creation order known to the harness)
    last = {}
    for p in dels:
        if p[6] is None:
            continue
        if p[0] in last and last[p[0]] > p[6]:
            out.append(dict(clause="same-timestamp events are delivered in creation order (pre-run or in-run)",
                            time=p[0], earlier_created_seq=p[6], delivered_after_seq=last[p[0]]))
            break
        last[p[0]] = max(last.get(p[0], -1), p[6])
    # liveness of every live event up to end_time (finite end), when the run completed
    if o["status"] == 0 and c["end"] is not None:
        delivered = {p[6] for p in dels}
        cancelled = set(o["cancelled_ever"])
        for seq, at, t, daemon, target in o["created"]:
            if seq in cancelled or t > c["end"]:
                continue
            if at is not None and t < at:
                continue            # scheduled into the past: not live
            if at is None and t < c["start"]:
                continue
            if seq not in delivered:
                out.append(dict(clause="every live event with timestamp <= end_time is delivered", seq=seq, time=t))
                break
    # a process started by a daemon event stays daemon (daemon events alone never keep the run alive)
    for p in pops:
        if p[3] == 1 and p[11] is not None and p[11][1] is not None and p[11][0] != p[11][1]:
            out.append(dict(clause="daemon events alone never keep the run alive: the continuation of a process does not carry the daemon flag of the event that started it",
                            pop=p[:6], continuation_daemon=p[11][0], origin_daemon=p[11][1]))
            break
    # auto-termination
    if c["end"] is None:
        for p in pops:
            if p[8] <= 0:
                out.append(dict(clause="with no end_time the run stops when no non-daemon event is pending (popped with only daemon events pending)", pop=p))
                break
        if o["status"] == 0 and o["primary"] != 0 and o["heap"] != 0:
            out.append(dict(clause="with no end_time the run continues while a non-daemon event is pending", primary=o["primary"]))
        if o["status"] == 0:
            # independent of the engine's own counter: every live NON-DAEMON event that was created has been delivered
            delivered = {p[6] for p in dels}
            cancelled = set(o["cancelled_ever"])
            for seq, at, t, daemon, target in o["created"]:
                if daemon or seq in cancelled or (at is not None and t < at) or (at is None and t < c["start"]):
                    continue
                if seq not in delivered:
                    out.append(dict(clause="with no end_time the run continues while a non-daemon event is pending (a live non-daemon event was never delivered)",
                                    seq=seq, time=t))
                    break
    return out[:1]


FAM = Family("script", es.IMPORTS, "ok_run", es.CASE_TYPE, gen, impl, es.enc_case, oracle,
             nontrivial=lambda c, o: len(o["pops"]) >= 3, parallel=True,
             describe=lambda c: f"end={'none' if c['end'] is None else 'finite'},ents={len(c['prog'])}")

TRUSTED = [
    "Coq 8.16.1 kernel, vm_compute for case evaluation; no native_compute; no axioms",
    "CPython heapq pops a minimum w.r.t. Event.__lt__ (the model's heap is a sorted list; keys (time, sort index) are unique)",
    "Python generator protocol / yield from (scripts are inlined in the model)",
    "float seconds -> ns conversion int(d*1e9) of Instant.__add__ is computed by the harness and handed to the model in ns",
    "harness/props/engine_script.py: script generator, real-Entity interpreter, pop instrumentation, encoder",
    "translator harness/translate/py2coq.py + declared types (py2coq_targets.py EventGen): Event.__lt__ is regenerated from core/event.py on every run and proved equal to the model's heap order; "
    "EventHeap._push_single/pop/peek/has_events/has_primary_events/size/set_current_time are regenerated from core/event_heap.py (tracing and debug "
    "logging off, heapq rendered as a list sorted by Event.__lt__) and proved to be the heap bookkeeping of the engine model (C01/HeapTie.v); "
    "Instant / Duration arithmetic and comparisons (finite instants; Duration, Instant and whole-second operands; isinstance dispatch decided by the "
    "declared operand class) and Clock are regenerated from core/temporal.py and core/clock.py and proved to be integer arithmetic on nanoseconds (C01/TimeTie.v); "
    "the float-seconds branches (int(x * 1e9)) and Instant.Infinity are NOT translated",
]


def run(ctx):
    from props import pygen
    ok, info = pygen.regenerate("EventGen")      # Event.__lt__ and EventHeap translated from $HS_REPO by py2coq
    ok2, info2 = pygen.regenerate("TemporalGen")  # Instant / Duration / Clock
    ctx.coverage["regenerated"] = [info, info2]
    ctx.prove(FILES, allowed_axioms=(), trusted_base=TRUSTED)
    if not (ok and ok2) and ctx.pending_obligation_violation:
        ctx.pending_obligation_violation["translator"] = info.get("error") or info2.get("error")
    stats = [run_family(ctx, FAM, ctx.n(600, 12000))]
    merge_stats(ctx, stats, "random scripts: 1-5 entities, <=12 pre-run events over <=4 timestamps (ties), immediate and generator handlers, futures, cancellations, daemon events, crashed targets, end_time none/tie/between; non-trivial = >=3 pops; distinct by JSON")
    ctx.finish_obligations()


def replay(data):
    c = data["detail"]["case"]
    o = impl(c)
    f = oracle(c, o)
    print("pops:", o["pops"])
    print("oracle failures:", f)
    return 1 if f else 0
