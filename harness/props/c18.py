"""C18 — logical clocks and CRDTs.

Tie to /repo: every generated history / operation schedule is executed on the
real LamportClock, VectorClock, HybridLogicalClock, PNCounter (GCounter x2),
LWWRegister and ORSet objects; the observations are compared inside Coq with the
model C18/Model.v (ok_* functions).  The property oracle (independent of the
model) evaluates the C18 statement on the implementation's observations.

Private attributes read: PNCounter._p/_n, GCounter._counts, ORSet._entries/_seq.
"""
from __future__ import annotations

import itertools

from hsverif.coq import Ctor, Nat, SomeV, term
from hsverif.family import Family, merge_stats, run_family

IMPORTS = "From HS Require Import Base.Prelude C18.Model."
LEVEL = "proof"


# --------------------------------------------------------------------------- histories
def gen_history(rng):
    n = rng.randint(2, 5)
    length = rng.randint(1, 28)
    acts, sent = [], []
    pts_mode = rng.choice(["zero", "mono", "skewed", "wild"])
    base = [rng.randint(0, 50) for _ in range(n)]
    for step in range(length):
        node = rng.randrange(n)
        if pts_mode == "zero":
            pt = 0
        elif pts_mode == "mono":
            pt = step * rng.choice([0, 1, 1000])
        elif pts_mode == "skewed":
            pt = base[node] + step * (node + 1)
        else:
            pt = rng.randint(0, 12)
        k = rng.random()
        if k < 0.3 or (k >= 0.6 and not sent):
            acts.append(["L", node, pt])
        elif k < 0.6:
            m = len(sent)
            sent.append(m)
            acts.append(["S", node, m, pt])
        else:
            acts.append(["R", node, rng.choice(sent), pt])
    # vector clocks: what each node is told about the membership when it is created (always itself; often less
    # than everybody: it then learns about the others from the messages it receives)
    full = rng.random() < 0.5
    members = [sorted({i} | ({*range(n)} if full else {j for j in range(n) if rng.random() < 0.4})) for i in range(n)]
    return dict(n=n, acts=acts, members=members)


def hb_closure(acts):
    """Happened-before on positions (program order, send->recv, transitive)."""
    L = len(acts)
    hb = [[False] * L for _ in range(L)]
    send_at = {}
    for i, a in enumerate(acts):
        if a[0] == "S":
            send_at[a[2]] = i
    for j, b in enumerate(acts):
        for i in range(j):
            if acts[i][1] == b[1]:
                hb[i][j] = True
        if b[0] == "R":
            hb[send_at[b[2]]][j] = True
    for k in range(L):
        for i in range(L):
            if hb[i][k]:
                for j in range(L):
                    if hb[k][j]:
                        hb[i][j] = True
    return hb


def acts_term(acts):
    out = []
    for a in acts:
        if a[0] == "L":
            out.append(Ctor("Local", a[1], a[2]))
        elif a[0] == "S":
            out.append(Ctor("Send", a[1], a[2], a[3]))
        else:
            out.append(Ctor("Recv", a[1], a[2], a[3]))
    return out


def impl_lamport(c):
    from happysimulator.core.logical_clocks import LamportClock
    clocks = [LamportClock() for _ in range(c["n"])]
    msgs, out = {}, []
    for a in c["acts"]:
        ck = clocks[a[1]]
        if a[0] == "L":
            ck.tick()
        elif a[0] == "S":
            msgs[a[2]] = ck.send()
        else:
            ck.receive(msgs[a[2]])
        out.append(ck.time)
    return out


def oracle_lamport(c, obs):
    hb = hb_closure(c["acts"])
    for i in range(len(obs)):
        for j in range(len(obs)):
            if hb[i][j] and not obs[i] < obs[j]:
                return [dict(clause="lamport: a->b implies L(a)<L(b)", i=i, j=j, Li=obs[i], Lj=obs[j])]
    return []


def nid(i):
    return f"n{i}"


def impl_vector(c):
    from happysimulator.core.logical_clocks import VectorClock
    ids = [nid(i) for i in range(c["n"])]
    members = c.get("members") or [list(range(c["n"]))] * c["n"]
    clocks = [VectorClock(ids[i], [ids[j] for j in members[i]]) for i in range(c["n"])]
    msgs, out, raw = {}, [], []
    for a in c["acts"]:
        ck = clocks[a[1]]
        if a[0] == "L":
            ck.tick()
        elif a[0] == "S":
            msgs[a[2]] = ck.send()
        else:
            ck.receive(msgs[a[2]])
        snap = ck.snapshot()
        out.append([snap.get(k, 0) for k in ids])
        raw.append(dict(snap))
    # relation checks on real objects for a sample of pairs
    rel = []
    L = len(out)
    pairs = [(i, j) for i in range(L) for j in range(L)]
    if len(pairs) > 40:
        step = max(1, len(pairs) // 40)
        pairs = pairs[::step]
    for i, j in pairs:
        # the real snapshots, with exactly the keys each clock knew at that moment (key sets may differ)
        a = VectorClock(ids[c["acts"][i][1]], list(raw[i]))
        a._vector = dict(raw[i])
        b = VectorClock(ids[c["acts"][j][1]], list(raw[j]))
        b._vector = dict(raw[j])
        mg = a.merge(b).snapshot()
        rel.append([i, j, a.happened_before(b), a.is_concurrent(b), [mg.get(k, 0) for k in ids]])
    return dict(stamps=out, rel=rel)


def oracle_vector(c, obs):
    hb = hb_closure(c["acts"])
    st = obs["stamps"]

    def lt(a, b):
        return all(x <= y for x, y in zip(a, b)) and any(x < y for x, y in zip(a, b))
    for i in range(len(st)):
        for j in range(len(st)):
            if i != j and hb[i][j] != lt(st[i], st[j]):
                return [dict(clause="vector: VC(a)<VC(b) exactly when a->b", i=i, j=j, hb=hb[i][j], vi=st[i], vj=st[j])]
    for i, j, hbij, conc, mg in obs["rel"]:
        if i != j and hbij != hb[i][j]:
            return [dict(clause="vector: happened_before(a,b) exactly when a->b", i=i, j=j, hb=hb[i][j], got=hbij)]
        if i != j and conc != (not hb[i][j] and not hb[j][i]):
            return [dict(clause="vector: is_concurrent exactly when neither a->b nor b->a", i=i, j=j, got=conc)]
    return []


def impl_hlc(c):
    from happysimulator.core.logical_clocks import HybridLogicalClock
    from happysimulator.core.temporal import Instant
    cur = {"pt": 0}
    clocks = [HybridLogicalClock(nid(i), wall_time=lambda: Instant(cur["pt"]))
              for i in range(c["n"])]
    msgs, out = {}, []
    for a in c["acts"]:
        ck = clocks[a[1]]
        cur["pt"] = a[-1]
        if a[0] == "L":
            ts = ck.now()
        elif a[0] == "S":
            ts = ck.send()
            msgs[a[2]] = ts
        else:
            ck.receive(msgs[a[2]])
            ts = ck._last
        out.append([ts.physical_ns, ts.logical, int(ts.node_id[1:])])
    # compare with the real __lt__ of HLCTimestamp on all pairs
    from happysimulator.core.logical_clocks import HLCTimestamp
    objs = [HLCTimestamp(p, l, nid(n)) for p, l, n in out]
    lts = [[objs[i] < objs[j] for j in range(len(objs))] for i in range(len(objs))]
    return dict(stamps=out, lt=lts)


def oracle_hlc(c, obs):
    hb = hb_closure(c["acts"])
    for i in range(len(obs["stamps"])):
        for j in range(len(obs["stamps"])):
            if hb[i][j] and not obs["lt"][i][j]:
                return [dict(clause="hlc: a->b implies HLC(a)<HLC(b)", i=i, j=j, ti=obs["stamps"][i], tj=obs["stamps"][j])]
            if obs["lt"][i][j] != (tuple(obs["stamps"][i]) < tuple(obs["stamps"][j])):
                return [dict(clause="hlc: timestamp order is (physical, logical, node)", i=i, j=j)]
    return []


def has_chain(c, obs):
    return any(a[0] == "R" for a in c["acts"])


# --------------------------------------------------------------------------- counters
def gen_counter(rng):
    n = rng.randint(2, 5)
    ops = []
    for _ in range(rng.randint(1, 30)):
        k = rng.random()
        r = rng.randrange(n)
        if k < 0.3:
            ops.append(["inc", r, rng.choice([1, 1, 2, 5, 0, -1]) if rng.random() < 0.25 else rng.randint(1, 9)])
        elif k < 0.5:
            ops.append(["dec", r, rng.choice([1, 3, 0, -2]) if rng.random() < 0.25 else rng.randint(1, 9)])
        elif k < 0.7:
            ops.append(["merge", r, rng.randrange(n)])
        elif k < 0.85:
            ops.append(["snap", rng.randrange(3), r])
        else:
            ops.append(["msnap", r, rng.randrange(3)])
    return dict(n=n, ops=ops, final_merge=rng.randrange(n))


def impl_counter(c):
    from happysimulator.components.crdt.pn_counter import PNCounter
    n = c["n"]
    ids = [nid(i) for i in range(n)]
    reps = [PNCounter(ids[i]) for i in range(n)]
    box = {}
    for o in c["ops"]:
        try:
            if o[0] == "inc":
                reps[o[1]].increment(o[2])
            elif o[0] == "dec":
                reps[o[1]].decrement(o[2])
            elif o[0] == "merge":
                reps[o[1]].merge(reps[o[2]])
            elif o[0] == "snap":
                box[o[1]] = PNCounter.from_dict(reps[o[2]].to_dict())   # round trip
            elif o[0] == "msnap":
                if o[2] in box:
                    reps[o[1]].merge(box[o[2]])
        except ValueError:
            pass

    def view(x):
        return [[x._p._counts.get(k, 0) for k in ids], [x._n._counts.get(k, 0) for k in ids], x.value]
    out = [view(x) for x in reps]
    # laws on real objects: commutativity / associativity / idempotence on copies of three states
    def cp(x):
        return PNCounter.from_dict(x.to_dict())
    laws = True
    trip = [reps[i % n] for i in range(3)]
    a, b, c3 = (cp(x) for x in trip)
    ab = cp(a); ab.merge(b)
    ba = cp(b); ba.merge(a)
    laws &= (ab == ba)
    ab_c = cp(ab); ab_c.merge(c3)
    bc = cp(b); bc.merge(c3)
    a_bc = cp(a); a_bc.merge(bc)
    laws &= (ab_c == a_bc)
    aa = cp(a); aa.merge(a)
    laws &= (aa == a)
    # convergence: one replica merges everyone
    fm = cp(reps[c["final_merge"]])
    for x in reps:
        fm.merge(x)
    return dict(view=out, laws=bool(laws), final_value=fm.value, final_incs=fm.increments, final_decs=fm.decrements)


def oracle_counter(c, obs):
    incs = sum(o[2] for o in c["ops"] if o[0] == "inc" and o[2] >= 1)
    decs = sum(o[2] for o in c["ops"] if o[0] == "dec" and o[2] >= 1)
    out = []
    if not obs["laws"]:
        out.append(dict(clause="counter: merge commutative/associative/idempotent"))
    if obs["final_value"] != incs - decs:
        out.append(dict(clause="counter: value = increments - decrements after receiving all updates",
                        expected=incs - decs, got=obs["final_value"]))
    return out


def encode_counter(c, obs):
    ops = []
    for o in c["ops"]:
        ops.append(Ctor({"inc": "CInc", "dec": "CDec", "merge": "CMerge", "snap": "CSnap", "msnap": "CMergeSnap"}[o[0]], o[1], o[2]))
    nodes = list(range(c["n"]))
    return term((ops, nodes, [(v[0], v[1], v[2]) for v in obs["view"]]))


# --------------------------------------------------------------------------- merge of arbitrary counter states
def gen_gc_states(rng):
    n = rng.randint(2, 4)
    def st():
        return {k: rng.randint(1, 9) for k in range(n) if rng.random() < 0.75}
    return dict(n=n, owners=[rng.randrange(n) for _ in range(3)], states=[st(), st(), st()], kind=rng.choice(["g", "pn"]))


def impl_gc_states(c):
    from happysimulator.components.crdt.g_counter import GCounter
    from happysimulator.components.crdt.pn_counter import PNCounter
    ids = [nid(i) for i in range(c["n"])]

    def mk(i):
        d = {"type": "GCounter", "node_id": ids[c["owners"][i]], "counts": {ids[int(k)]: v for k, v in c["states"][i].items()}}
        if c["kind"] == "g":
            return GCounter.from_dict(d)
        return PNCounter.from_dict({"type": "PNCounter", "node_id": d["node_id"], "p": d, "n": dict(d, counts={})})

    def view(x):
        g = x if c["kind"] == "g" else x._p
        return [g._counts.get(k, 0) for k in ids]
    a, b = mk(0), mk(1)
    a.merge(b)
    ab = view(a)
    a, b = mk(0), mk(1)
    b.merge(a)
    ba = view(b)
    a, b, c3 = mk(0), mk(1), mk(2)
    a.merge(b)
    a.merge(c3)
    ab_c = view(a)
    a, b, c3 = mk(0), mk(1), mk(2)
    b.merge(c3)
    a.merge(b)
    a_bc = view(a)
    a = mk(0)
    a.merge(mk(0))
    aa = view(a)
    return dict(ab=ab, ba=ba, ab_c=ab_c, a_bc=a_bc, aa=aa, a=view(mk(0)))


def oracle_gc_states(c, o):
    out = []
    if o["ab"] != o["ba"]:
        out.append(dict(clause="counter: merge is commutative (replicas that received the same updates are equal)", ab=o["ab"], ba=o["ba"]))
    if o["ab_c"] != o["a_bc"]:
        out.append(dict(clause="counter: merge is associative", left=o["ab_c"], right=o["a_bc"]))
    if o["aa"] != o["a"]:
        out.append(dict(clause="counter: merge is idempotent", aa=o["aa"], a=o["a"]))
    return out


def encode_gc_states(c, o):
    sts = [[(int(k), v) for k, v in sorted(s.items(), key=lambda kv: int(kv[0]))] for s in c["states"]]
    return term((list(range(c["n"])), (sts[0], sts[1], sts[2]), (o["ab"], o["ba"], o["ab_c"], o["a_bc"], o["aa"])))


# --------------------------------------------------------------------------- LWW
def gen_lww(rng):
    n = rng.randint(2, 4)
    ops = []
    mode = rng.random()
    consistent = mode < 0.7
    # (round-9 seed C18-17) distinct: the same few values are written again and again, every write under its own
    # timestamp (the logical component counts the writes of the case), so "the greatest timestamp wins" is well defined
    distinct = 0.7 <= mode < 0.88
    k = 0
    for _ in range(rng.randint(1, 25)):
        r = rng.randrange(n)
        if rng.random() < 0.55:
            if distinct:
                k += 1
                ts = [rng.randint(0, 3), k, r]
                v = rng.randint(0, 2)
            else:
                ts = [rng.randint(0, 3), rng.randint(0, 2), r if consistent else rng.randrange(n)]
                v = (ts[0] * 100 + ts[1] * 10 + ts[2]) if consistent else rng.randint(0, 5)
            ops.append(["set", r, v, ts])
        else:
            ops.append(["merge", r, rng.randrange(n)])
    return dict(n=n, ops=ops, consistent=consistent, distinct=distinct)


def impl_lww(c):
    from happysimulator.components.crdt.lww_register import LWWRegister
    from happysimulator.core.logical_clocks import HLCTimestamp
    n = c["n"]
    regs = [LWWRegister(nid(i)) for i in range(n)]
    for o in c["ops"]:
        if o[0] == "set":
            p, l, nd = o[3]
            regs[o[1]].set(o[2], HLCTimestamp(p, l, nid(nd)))
        else:
            other = LWWRegister.from_dict(regs[o[2]].to_dict())
            regs[o[1]].merge(other)

    def view(x):
        if x.timestamp is None:
            return None
        t = x.timestamp
        return [[t.physical_ns, t.logical, int(t.node_id[1:])], x.value]
    out = [view(x) for x in regs]
    # convergence: everyone merges everyone (twice, any order)
    for _ in range(2):
        for x in regs:
            for y in regs:
                x.merge(y)
    return dict(view=out, final=[view(x) for x in regs])


def oracle_lww(c, obs):
    if not (c["consistent"] or c.get("distinct")):
        return []
    writes = [(tuple(o[3]), o[2]) for o in c["ops"] if o[0] == "set"]
    out = []
    fin = obs["final"]
    if any(f != fin[0] for f in fin):
        out.append(dict(clause="lww: replicas that received the same updates are equal", final=fin))
    if writes:
        best = max(writes)
        if fin[0] is None or tuple(fin[0][0]) != best[0] or fin[0][1] != best[1]:
            out.append(dict(clause="lww: register holds the write with the greatest timestamp", expected=best, got=fin[0]))
    return out


def encode_lww(c, obs):
    ops = []
    for o in c["ops"]:
        if o[0] == "set":
            ops.append(Ctor("LSet", o[1], o[2], tuple(o[3])))
        else:
            ops.append(Ctor("LMerge", o[1], o[2]))
    view = [None if v is None else SomeV((tuple(v[0]), v[1])) for v in obs["view"]]
    return term((ops, list(range(c["n"])), view))


# --------------------------------------------------------------------------- OR-set
def gen_orset(rng):
    n = rng.randint(2, 4)
    ops = []
    for _ in range(rng.randint(1, 24)):
        k = rng.random()
        r = rng.randrange(n)
        if k < 0.35:
            ops.append(["add", r, rng.randrange(3)])
        elif k < 0.55:
            ops.append(["rem", r, rng.randrange(3)])
        elif k < 0.8:
            ops.append(["merge", r, rng.randrange(n)])
        elif k < 0.9:
            ops.append(["snap", rng.randrange(2), r])
        else:
            ops.append(["msnap", r, rng.randrange(2)])
    return dict(n=n, ops=ops)


def run_orset(c, elem=lambda e: f"e{e}"):
    from happysimulator.components.crdt.or_set import ORSet
    n = c["n"]
    reps = [ORSet(nid(i)) for i in range(n)]
    box = {}
    for o in c["ops"]:
        if o[0] == "add":
            reps[o[1]].add(elem(o[2]))
        elif o[0] == "rem":
            reps[o[1]].remove(elem(o[2]))
        elif o[0] == "merge":
            reps[o[1]].merge(reps[o[2]])
        elif o[0] == "snap":
            box[o[1]] = ORSet.from_dict(reps[o[2]].to_dict())
        elif o[0] == "msnap" and o[2] in box:
            reps[o[1]].merge(box[o[2]])
    return reps


def impl_orset(c):
    reps = run_orset(c)
    out = []
    for x in reps:
        ents = sorted([int(e[1:]), int(t[0][1:]), t[1]] for e, tags in x._entries.items() for t in tags)
        out.append(dict(seq=x._seq, ents=ents, elements=sorted(int(e[1:]) for e in x.elements),
                        contains=[x.contains(f"e{e}") for e in range(3)], len=len(x)))
    # round trip with non-string elements
    reps_int = run_orset(c, elem=lambda e: e)
    rt_ok = True
    from happysimulator.components.crdt.or_set import ORSet
    for x in reps_int:
        y = ORSet.from_dict(x.to_dict())
        if y != x or any(y.contains(e) != x.contains(e) for e in range(3)):
            rt_ok = False
    rt_str = all(ORSet.from_dict(x.to_dict()) == x for x in reps)
    return dict(view=out, roundtrip_int=rt_ok, roundtrip_str=rt_str)


def orset_spec(c):
    """Observed-remove reference: per replica observed adds and observed removes."""
    n = c["n"]
    obs = [set() for _ in range(n)]
    rem = [set() for _ in range(n)]
    seq = [0] * n
    box = {}
    for o in c["ops"]:
        if o[0] == "add":
            obs[o[1]].add((o[2], o[1], seq[o[1]]))
            seq[o[1]] += 1
        elif o[0] == "rem":
            rem[o[1]] |= {t for t in obs[o[1]] if t[0] == o[2]}
        elif o[0] == "merge":
            obs[o[1]] |= obs[o[2]]
            rem[o[1]] |= rem[o[2]]
        elif o[0] == "snap":
            box[o[1]] = (set(obs[o[2]]), set(rem[o[2]]))
        elif o[0] == "msnap" and o[2] in box:
            obs[o[1]] |= box[o[2]][0]
            rem[o[1]] |= box[o[2]][1]
    return [sorted({t[0] for t in obs[r] - rem[r]}) for r in range(n)]


def oracle_orset(c, obs):
    spec = orset_spec(c)
    out = []
    for r, v in enumerate(obs["view"]):
        got = v["elements"]
        if got != spec[r]:
            extra = sorted(set(got) - set(spec[r]))
            missing = sorted(set(spec[r]) - set(got))
            out.append(dict(clause="orset: contains e exactly when some add of e was not observed by a remove",
                            mechanism="resurrected-after-remove" if extra and not missing else "lost-add",
                            replica=r, got=got, spec=spec[r],
                            what="OR-set element present although every add of it was observed by a remove (remove clears local tags only; merge re-unions them)"))
            break
        if v["contains"] != [e in got for e in range(3)] or v["len"] != len(got):
            out.append(dict(clause="orset: contains/len agree with elements", replica=r))
            break
    if not obs["roundtrip_str"]:
        out.append(dict(clause="orset: to_dict/from_dict round trip (string elements)", mechanism="roundtrip-str"))
    if not obs["roundtrip_int"]:
        out.append(dict(clause="orset: to_dict/from_dict round trip", mechanism="roundtrip-nonstring",
                        what="ORSet.to_dict stringifies elements; from_dict(to_dict(s)) != s for non-string elements"))
    return out


def attribute_orset(c, obs, f):
    if f.get("mechanism") == "resurrected-after-remove":
        return "C18-orset-resurrect"
    if f.get("mechanism") == "roundtrip-nonstring":
        return "C18-orset-roundtrip-nonstring"
    return None


def encode_orset(c, obs):
    m = {"add": "OAdd", "rem": "ORem", "merge": "OMerge", "snap": "OSnap", "msnap": "OMergeSnap"}
    ops = [Ctor(m[o[0]], o[1], o[2]) for o in c["ops"]]
    view = [(v["seq"], [(e, (nd, s)) for e, nd, s in v["ents"]]) for v in obs["view"]]
    return term((ops, list(range(c["n"])), view))


# --------------------------------------------------------------------------- families
FAMILIES = [
    Family("lamport", IMPORTS, "ok_lamport", "list act * list Z", gen_history, impl_lamport,
           lambda c, o: term((acts_term(c["acts"]), o)), oracle_lamport, has_chain,
           describe=lambda c: f"n={c['n']},len={len(c['acts']) // 10 * 10}+"),
    Family("vector", IMPORTS, "ok_vector", "list Z * list act * list (list Z)", gen_history, impl_vector,
           lambda c, o: term((list(range(c["n"])), acts_term(c["acts"]), o["stamps"])), oracle_vector, has_chain),
    Family("vcrel", IMPORTS, "ok_vc_rel", "list Z * list act * nat * nat * bool * list Z", gen_history, impl_vector,
           None, lambda c, o: [], has_chain),
    Family("hlc", IMPORTS, "ok_hlc", "list act * list hlc_ts", gen_history, impl_hlc,
           lambda c, o: term((acts_term(c["acts"]), [tuple(t) for t in o["stamps"]])), oracle_hlc, has_chain),
    Family("counter", IMPORTS, "ok_counter", "list cnt_op * list Z * list (list Z * list Z * Z)", gen_counter, impl_counter,
           encode_counter, oracle_counter, lambda c, o: any(x[0] in ("merge", "msnap") for x in c["ops"])),
    Family("gcstates", IMPORTS, "ok_gc_states",
           "list Z * (list (Z * Z) * list (Z * Z) * list (Z * Z)) * (list Z * list Z * list Z * list Z * list Z)",
           gen_gc_states, impl_gc_states, encode_gc_states, oracle_gc_states, lambda c, o: True),
    Family("lww", IMPORTS, "ok_lww", "list lww_op * list Z * list lww", gen_lww, impl_lww,
           encode_lww, oracle_lww, lambda c, o: any(x[0] == "merge" for x in c["ops"])),
    Family("orset", IMPORTS, "ok_orset", "list os_op * list Z * list (Z * list (Z * tag))", gen_orset, impl_orset,
           encode_orset, oracle_orset, lambda c, o: any(x[0] == "rem" for x in c["ops"]), attribute_orset),
]


def _encode_vcrel(c, o):
    # one relation sample per history: pick the middle sampled pair
    i, j, hbij, _conc, mg = o["rel"][len(o["rel"]) // 2]
    return term((list(range(c["n"])), acts_term(c["acts"]), Nat(i), Nat(j), hbij, mg))


FAMILIES[2].encode = _encode_vcrel

TRUSTED = [
    "Coq 8.16.1 kernel (coqc, vm_compute for refutation witnesses and case evaluation); no native_compute",
    "axioms: none (every theorem of C18/Props.v is 'Closed under the global context')",
    "correspondence harness harness/props/c18.py (generators, observers, in-Coq comparison ok_* of C18/Model.v)",
    "model choices: node/element/value ids are Z; dicts are total functions with default 0; to_dict/from_dict exercised by snapshots",
    "translator harness/translate/py2coq.py (fail-closed Python-ast -> Gallina, subset in its docstring) + the declared field/parameter types in py2coq_targets.py: "
    "Gen/ClocksGen.v is regenerated from logical_clocks.py, g_counter.py, lww_register.py on every run; __init__ methods, VectorClock.merge/is_concurrent "
    "and ORSet are not translated (model + correspondence only); the iteration order of the key set in VectorClock.happened_before is a parameter of the translation and the tie holds for every order; `other` never aliases `self`; Python ints are Z",
]


# --------------------------------------------------------------------------- CRDTStore gossip (oracle only)
def gen_store(rng):
    n = rng.choice([2, 2, 3])
    pn = rng.random() < 0.5
    ops = []
    for _ in range(rng.randint(1, 8)):
        op = "decrement" if (pn and rng.random() < 0.35) else "increment"
        ops.append([rng.choice([100, 100, 200, 300, 450]), rng.randrange(n), rng.randrange(2), op, rng.choice([1, 1, 2, 2, 3])])
    # second phase (half of the cases): more writes to the same keys after some gossip rounds have already merged
    # remote state into the local replicas (write -> gossip -> write -> gossip)
    if rng.random() < 0.5:
        for _ in range(rng.randint(1, 4)):
            op = "decrement" if (pn and rng.random() < 0.35) else "increment"
            ops.append([rng.choice([1600, 2100, 2100, 2600, 2900]), rng.randrange(n), rng.randrange(2), op, rng.choice([1, 2, 3])])
    return dict(n=n, pn=pn, ops=sorted(ops), seed=rng.randrange(1000), rounds=12 if n == 2 else 24)


def impl_store(c):
    """CRDTStores on a loss-free network: the writes, then gossip ticks on every node (push-pull with a random
    peer), round after round; second-phase writes land between early rounds.  Small amounts make VALUE ties between replicas with different states likely."""
    import random as _r
    from happysimulator import Event, Instant, Network, Simulation, datacenter_network
    from happysimulator.components.crdt.crdt_store import CRDTStore
    from happysimulator.components.crdt.g_counter import GCounter
    from happysimulator.components.crdt.pn_counter import PNCounter
    from hsverif.util import run_bounded
    _r.seed(c["seed"])
    net = Network(name="net")
    fac = (lambda nid: PNCounter(nid)) if c["pn"] else (lambda nid: GCounter(nid))
    stores = [CRDTStore(nid(i), network=net, crdt_factory=fac, gossip_interval=1000.0) for i in range(c["n"])]
    for st in stores:
        st.add_peers([p for p in stores if p is not st])
    for i in range(c["n"]):
        for j in range(i + 1, c["n"]):
            net.add_bidirectional_link(stores[i], stores[j], datacenter_network(f"l{i}{j}"))
    evs = [Event(time=Instant(t * 1_000_000), event_type="Write", target=stores[node],
                 context={"metadata": {"key": f"k{key}", "operation": op, "value": amt}}) for t, node, key, op, amt in c["ops"]]
    t = 1.0
    for _ in range(c["rounds"]):
        for st in stores:
            evs.append(Event(time=Instant.from_seconds(t), event_type="GossipTick", target=st))
            t += 0.25
    # the operations as the stores execute them (public entry points wrapped per instance): local writes,
    # serialisations (a message in flight) and merges of a received message, with the affected store's
    # replicas after each (node id and p / n counts from to_dict())
    oplog, msgs, keep = [], {}, []
    idx = {nid(i): i for i in range(c["n"])}

    def counts(d):
        return [int(d.get(nid(i), 0)) for i in range(c["n"])]

    def observe(st):
        out = []
        for key in (0, 1):
            r = st.crdts.get(f"k{key}")
            if r is None:
                out.append(None)
                continue
            d = r.to_dict()
            if d["type"] == "PNCounter":
                out.append([idx[d["node_id"]], counts(d["p"]["counts"]), counts(d["n"]["counts"])])
            else:
                out.append([idx[d["node_id"]], counts(d["counts"]), counts({})])
        return out

    def wrap(st, i):
        ser, mer, app = st._serialize_state, st._merge_remote_state, st._apply_operation

        def serialize():
            state = ser()
            keep.append(state)
            msgs[id(state)] = len(keep)
            oplog.append([["send", len(keep), i], observe(st)])
            return state

        def merge(remote_state):
            m = msgs.get(id(remote_state))
            mer(remote_state)
            oplog.append([["recv", i, -1 if m is None else m], observe(st)])

        def apply(crdt, operation, value):
            key = next(int(k[1:]) for k, v in st.crdts.items() if v is crdt)
            app(crdt, operation, value)
            oplog.append([["inc" if operation == "increment" else "dec", i, key, value], observe(st)])

        st._serialize_state, st._merge_remote_state, st._apply_operation = serialize, merge, apply

    for i, st in enumerate(stores):
        wrap(st, i)
    sim = Simulation(end_time=Instant.from_seconds(t + 1.0), sources=[], entities=[*stores, net])
    sim.schedule(evs)
    _, verdict = run_bounded(sim, wall_s=30.0)
    vals = [{k: st.crdts[k].value for k in sorted(st.crdts)} for st in stores]
    same = all(set(st.crdts) == set(stores[0].crdts) and all(st.crdts[k] == stores[0].crdts[k] for k in st.crdts) for st in stores)
    return dict(verdict=verdict, values=vals, same_state=same, oplog=oplog)


def oracle_store(c, obs):
    if obs["verdict"] != "ok":
        return [dict(clause=f"store run ended with {obs['verdict']}")]
    want = {}
    for t, node, key, op, amt in c["ops"]:
        want[f"k{key}"] = want.get(f"k{key}", 0) + (amt if op == "increment" else -amt)
    for i, v in enumerate(obs["values"]):
        if v != want:
            return [dict(clause="store: after the writes stop and gossip has run, every replica reports increments minus decrements",
                         replica=i, got=v, want=want)]
    if not obs["same_state"]:
        return [dict(clause="store: after gossip has run the replicas hold the same state (CRDT equality)")]
    return []


def encode_store(c, obs):
    steps = []
    for op, ob in obs["oplog"]:
        if op[0] == "send":
            t = Ctor("SSend", op[1], op[2])
        elif op[0] == "recv":
            t = Ctor("SRecv", op[1], op[2])
        else:
            t = Ctor("SInc" if op[0] == "inc" else "SDec", op[1], op[2], op[3])
        steps.append((t, [None if o is None else SomeV((o[0], o[1], o[2])) for o in ob]))
    return term((list(range(c["n"])), [0, 1], steps))


FAM_STORE = Family("store", "From HS Require Import Base.Prelude C18.Model C18.StoreModel.", "ok_store",
                   "list Z * list Z * list (st_op * st_obs)", gen_store, impl_store, encode_store, oracle_store,
                   nontrivial=lambda c, o: len(c["ops"]) >= 2 and any(op[0] == "recv" for op, _ in o["oplog"]))


def run(ctx):
    # regenerate the translation of the clock / CRDT kernels from $HS_REPO; the tie lemmas
    # (C18/GenTie.v, C18/CodeSim.v) and the c18_code_* theorems are re-checked against it
    from props import pygen
    ok, info = pygen.regenerate("ClocksGen")
    ctx.coverage["regenerated"] = info
    ctx.prove(["C18/Model.v", "C18/Causal.v", "C18/CRDT.v", "C18/VectorIff.v", "Base/PyLib.v", "Gen/ClocksGen.v",
               "C18/GenTie.v", "C18/CodeSim.v", "C18/StoreModel.v", "C18/Store.v", "C18/Props.v"], allowed_axioms=(), trusted_base=TRUSTED)
    if not ok and ctx.pending_obligation_violation:
        ctx.pending_obligation_violation["translator"] = info.get("error")
    n = ctx.n(250, 6000)
    stats = [run_family(ctx, fam, n) for fam in FAMILIES]
    stats.append(run_family(ctx, FAM_STORE, ctx.n(80, 800)))
    ctx.assumptions.append("CRDTStore: counter keys only (GCounter / PNCounter factories) are modelled (C18/StoreModel.v); the network, gossip timer and peer choice are not - their effect is the order of writes, serialisations and merges, replayed from real Simulation runs (loss-free network, writes before and between gossip rounds); LWW / OR-set keys in a store are not covered")
    merge_stats(ctx, stats, "random structured histories/op schedules over 2-5 replicas; non-trivial = contains a receive/merge/remove; distinct by JSON of the input")
    ctx.finish_obligations()
    ctx.assumptions += [
        "OR-set specification is refuted on the faithful model (c18_orset_add_wins_refuted) and recorded as known finding C18-orset-resurrect",
    ]


def replay(data):
    fam = {f.name: f for f in FAMILIES + [FAM_STORE]}[data["detail"]["family"]]
    c = data["detail"]["case"]
    obs = fam.impl(c)
    fails = fam.oracle(c, obs)
    print("observations:", obs)
    print("oracle failures:", fails)
    return 1 if fails else 0
