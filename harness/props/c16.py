"""C16 — caches: capacity, policy/cache agreement, read-after-write, write-back, soft TTL.

Tie to /repo:
  * family `policy`: arbitrary call sequences on the nine real eviction-policy objects;
    return value and complete internal state compared with C16/Model.v after every call.
  * family `cached`: CachedStore workloads inside a real Simulation (overlapping
    get/put/delete/invalidate/invalidate_all/flush on a few keys, capacity 1-3, all nine
    policies, write-through and write-back).  A driver entity steps every generator method
    by hand (exactly as CacheWarmer does) and records, for every segment between two
    yields: which operation ran, what it yielded/returned and the complete state
    afterwards.  The model replays the recorded schedule inside Coq.

RNG draws (RandomEviction.choice, SampledLRU.sample), the iteration order of the dirty-key
set in flush() and the TTL policy's clock readings are recorded from the implementation
and fed to the model as oracle inputs; the model checks that they are possible ones.

Private attributes read: CachedStore._cache/_dirty_keys/_eviction_policy, KVStore._data,
the policies' tracking structures (_order, _counts, _min_count, _insert_times, _keys,
_probationary, _protected, _access_times, _clock, _ref_bits, _hand, _a1in, _a1out, _am).
"""
from __future__ import annotations

import random

from hsverif.coq import Ctor, Raw, SomeV, term
from hsverif.family import Family, merge_stats, run_family

IMPORTS = "From HS Require Import Base.Prelude C16.Model."
LEVEL = "proof"

KINDS = ["lru", "lfu", "ttl", "fifo", "random", "slru", "sampled", "clock", "twoq"]


def K(i):
    return f"k{i}"


def unk(s):
    return int(s[1:])


def kind_term(kind, param):
    return {
        "lru": Ctor("KLru"), "lfu": Ctor("KLfu"), "ttl": Ctor("KTtl", param), "fifo": Ctor("KFifo"),
        "random": Ctor("KRandom"), "slru": Ctor("KSlru"), "sampled": Ctor("KSampled", param),
        "clock": Ctor("KClock"), "twoq": Ctor("KTwoQ"),
    }[kind]


class RecRng:
    """random.Random wrapper that records what the policy drew."""

    def __init__(self, seed):
        self.r = random.Random(seed)
        self.draws = []

    def choice(self, seq):
        x = self.r.choice(seq)
        self.draws.append([unk(x)])
        return x

    def sample(self, pop, k):
        x = self.r.sample(pop, k)
        self.draws.append([unk(e) for e in x])
        return x

    def take(self):
        d, self.draws = self.draws, []
        return d


def make_policy(kind, param, seed, clock):
    from happysimulator.components.datastore import eviction_policies as ep
    if kind == "lru":
        return ep.LRUEviction()
    if kind == "lfu":
        return ep.LFUEviction()
    if kind == "ttl":
        return ep.TTLEviction(ttl=param, clock_func=clock)
    if kind == "fifo":
        return ep.FIFOEviction()
    if kind == "random":
        p = ep.RandomEviction(seed=seed)
        p._rng = RecRng(seed)
        return p
    if kind == "slru":
        return ep.SLRUEviction()
    if kind == "sampled":
        p = ep.SampledLRUEviction(sample_size=param, seed=seed)
        p._rng = RecRng(seed)
        return p
    if kind == "clock":
        return ep.ClockEviction()
    if kind == "twoq":
        return ep.TwoQueueEviction()
    raise ValueError(kind)


def policy_view(kind, p):
    u = unk
    if kind in ("lru",):
        return [[u(k) for k in p._order]]
    if kind == "fifo":
        return [[u(k) for k in p._order]]
    if kind == "lfu":
        return [[u(k) for k in p._counts], list(p._counts.values()), [p._min_count]]
    if kind == "ttl":
        return [[u(k) for k in p._insert_times], list(p._insert_times.values())]
    if kind == "random":
        return [sorted(u(k) for k in p._keys)]
    if kind == "slru":
        return [[u(k) for k in p._probationary], [u(k) for k in p._protected]]
    if kind == "sampled":
        return [[u(k) for k in p._access_times], list(p._access_times.values()), [p._clock]]
    if kind == "clock":
        if list(p._ref_bits) != list(p._keys) and sorted(p._ref_bits) != sorted(p._keys):
            raise AssertionError("ClockEviction: _keys and _ref_bits hold different keys")
        return [[u(k) for k in p._keys], [1 if p._ref_bits[k] else 0 for k in p._keys], [p._hand]]
    if kind == "twoq":
        return [[u(k) for k in p._a1in], [u(k) for k in p._a1out], [u(k) for k in p._am]]
    raise ValueError(kind)


def tracked_keys(kind, view):
    if kind == "slru":
        return view[0] + view[1]
    if kind == "twoq":
        return view[0] + view[2]
    return view[0]


def gen_kind(rng):
    kind = rng.choice(KINDS)
    param = 0
    if kind == "ttl":
        param = rng.choice([1, 3, 5, 20])
    if kind == "sampled":
        param = rng.choice([1, 2, 3, 5])
    return kind, param


# --------------------------------------------------------------------------- family: policy
def gen_policy(rng):
    kind, param = gen_kind(rng)
    big = kind == "twoq" and rng.random() < 0.3
    nkeys = rng.choice([60, 70]) if big else rng.randint(2, 6)
    n = rng.randint(60, 160) if big else rng.randint(1, 40)
    ops, now = [], 0
    cache_like = rng.random() < 0.6      # only calls a cache makes: insert of untracked keys only
    for _ in range(n):
        now += rng.choice([0, 0, 1, 1, 2, 7]) if rng.random() < 0.9 else -rng.randint(0, 3)
        k = rng.randrange(nkeys)
        r = rng.random()
        if big:
            r = r * 0.7 if r > 0.1 else 0.95
        if r < 0.3:
            ops.append(["touch", now, k] if cache_like else ["insert", now, k])
        elif r < 0.55:
            ops.append(["evict", now])
        elif r < 0.75:
            ops.append(["access", k])
        elif r < 0.93:
            ops.append(["remove", k])
        else:
            ops.append(["clear"])
    return dict(kind=kind, param=param, seed=rng.randrange(1000), ops=ops, cache_like=cache_like)


def impl_policy(c):
    cell = {"now": 0}
    p = make_policy(c["kind"], c["param"], c["seed"], lambda: cell["now"])
    out = []
    for o in c["ops"]:
        ret, draws = None, []
        before = sorted(set(tracked_keys(c["kind"], policy_view(c["kind"], p))))
        if o[0] == "touch":      # what _cache_put does: on_access for a tracked key, else on_insert
            o = ["access", o[2]] if o[2] in before else ["insert", o[1], o[2]]
        if o[0] == "access":
            p.on_access(K(o[1]))
        elif o[0] == "insert":
            cell["now"] = o[1]
            p.on_insert(K(o[2]))
        elif o[0] == "remove":
            p.on_remove(K(o[1]))
        elif o[0] == "evict":
            cell["now"] = o[1]
            r = p.evict()
            ret = None if r is None else unk(r)
            if hasattr(p, "_rng") and isinstance(p._rng, RecRng):
                draws = p._rng.take()
        elif o[0] == "clear":
            p.clear()
        out.append(dict(op=o, ret=ret, draws=draws, view=policy_view(c["kind"], p), before=before))
    return out


def encode_policy(c, obs):
    tr = []
    for r in obs:
        o = r["op"]
        if o[0] == "access":
            t = Ctor("PAccess", o[1])
        elif o[0] == "insert":
            t = Ctor("PInsert", o[1], o[2])
        elif o[0] == "remove":
            t = Ctor("PRemove", o[1])
        elif o[0] == "evict":
            t = Ctor("PEvict", o[1], r["draws"] if r["draws"] else Raw("(@nil (list Z))"))
        else:
            t = Ctor("PClear")
        ret = None if r["ret"] is None else SomeV(r["ret"])
        tr.append((t, ret, [v if v else Raw("(@nil Z)") for v in r["view"]]))
    return term((kind_term(c["kind"], c["param"]), tr if tr else Raw("[]")))


def oracle_policy(c, obs):
    """evict() returns a tracked key whenever the policy tracks one, None only when empty,
    and stops tracking exactly that key."""
    if not c["cache_like"]:
        return []
    for i, r in enumerate(obs):
        o = r["op"]
        after = sorted(set(tracked_keys(c["kind"], r["view"])))
        if len(tracked_keys(c["kind"], r["view"])) != len(after):
            return [dict(clause="policy: no key is tracked twice", step=i)]
        before = r["before"]
        if o[0] == "insert" and after != sorted(set(before) | {o[2]}):
            return [dict(clause="policy: on_insert tracks the key", step=i)]
        if o[0] == "access" and after != before:
            return [dict(clause="policy: on_access keeps the tracked keys", step=i)]
        if o[0] == "remove" and after != sorted(set(before) - {o[1]}):
            return [dict(clause="policy: on_remove stops tracking the key", step=i)]
        if o[0] != "evict":
            continue
        if r["ret"] is None:
            if before:
                return [dict(clause="policy: evict returns a key while it tracks one", step=i, before=before)]
        else:
            if r["ret"] not in before:
                return [dict(clause="policy: evict returns a tracked key", step=i, ret=r["ret"], before=before)]
            if after != sorted(set(before) - {r["ret"]}):
                return [dict(clause="policy: evict stops tracking exactly the evicted key", step=i)]
    return []


# --------------------------------------------------------------------------- family: cached
UNIT = 1.0 / 1024.0     # one time unit in seconds (dyadic: exact in binary floating point)


def gen_cached(rng):
    kind, param = gen_kind(rng)
    nkeys = rng.randint(2, 5)
    cap = rng.randint(1, 3)
    wt = rng.random() < 0.5
    lat = dict(c=rng.choice([1, 1, 2]), r=rng.choice([3, 6, 10]), w=rng.choice([2, 5, 12]), d=rng.choice([2, 7]))
    style = rng.choice(["sequential", "overlap", "overlap", "burst"])
    ops, t = [], 0
    val = 100
    for _ in range(rng.randint(3, 26)):
        if style == "sequential":
            t += 40
        elif style == "overlap":
            t += rng.choice([0, 1, 1, 2, 3, 4, 6, 9, 15])
        else:
            t += rng.choice([0, 0, 1, 30])
        k = rng.randrange(nkeys)
        r = rng.random()
        if r < 0.40:
            ops.append([t, "get", k])
        elif r < 0.72:
            val += 1
            ops.append([t, "put", k, val])
        elif r < 0.80:
            ops.append([t, "del", k])
        elif r < 0.88:
            ops.append([t, "inv", k])
        elif r < 0.91:
            ops.append([t, "invall"])
        else:
            ops.append([t, "flush"])
    # a quiescent tail: flush, then read every key
    t += 60
    if rng.random() < 0.7:
        ops.append([t, "flush"])
        t += 40 * (nkeys + 1)
    for k in range(nkeys):
        ops.append([t, "get", k])
        t += 40
    init = {str(k): 10 + k for k in range(nkeys) if rng.random() < 0.6}
    if kind == "ttl":
        param = rng.choice([2, 8, 30, 200])
    return dict(kind=kind, param=param, seed=rng.randrange(1000), cap=cap, wt=wt, lat=lat, init=init, ops=ops, style=style)


def _snapshot(kind, cache):
    def val(v):
        return -1 if v is None else v
    return dict(
        cache=[[unk(k), val(v)] for k, v in cache._cache.items()],
        dirty=sorted(unk(k) for k in cache._dirty_keys),
        back=[[unk(k), val(v)] for k, v in cache._backing_store._data.items()],
        view=policy_view(kind, cache._eviction_policy),
        stats=[cache._reads, cache._writes, cache._hits, cache._misses, cache._evictions, cache._writebacks],
        size=cache.cache_size,
        keys=[unk(k) for k in cache.get_cached_keys()],
    )


def impl_cached(c):
    from happysimulator.components.datastore.cached_store import CachedStore
    from happysimulator.components.datastore.kv_store import KVStore
    from happysimulator.core.entity import Entity
    from happysimulator.core.event import Event
    from happysimulator.core.simulation import Simulation
    from happysimulator.core.temporal import Instant
    from hsverif.util import run_bounded

    lat = c["lat"]
    log = []
    holder = {}

    def tick():
        return holder["drv"].now.nanoseconds // 1000

    pol = make_policy(c["kind"], c["param"], c["seed"], tick)
    backing = KVStore("backing", read_latency=lat["r"] * UNIT, write_latency=lat["w"] * UNIT,
                      delete_latency=lat["d"] * UNIT)
    for k, v in c["init"].items():
        backing.put_sync(K(k), v)
    cache = CachedStore("cache", backing, c["cap"], pol, cache_read_latency=lat["c"] * UNIT,
                        write_through=c["wt"])
    kind = c["kind"]

    def draws():
        r = getattr(pol, "_rng", None)
        return r.take() if isinstance(r, RecRng) else []

    class Driver(Entity):
        def handle_event(self, ev):
            oid = ev.context["oid"]
            o = c["ops"][oid]
            name = o[1]
            order = None
            if name == "get":
                gen = cache.get(K(o[2]))
            elif name == "put":
                gen = cache.put(K(o[2]), o[3])
            elif name == "del":
                gen = cache.delete(K(o[2]))
            elif name == "flush":
                order = [unk(k) for k in list(cache._dirty_keys)]
                gen = cache.flush()
            elif name == "inv":
                cache.invalidate(K(o[2]))
                log.append(dict(oid=oid, seg=0, now=tick(), kind="ret", val=None, draws=draws(), snap=_snapshot(kind, cache)))
                return
            else:
                cache.invalidate_all()
                log.append(dict(oid=oid, seg=0, now=tick(), kind="ret", val=None, draws=draws(), snap=_snapshot(kind, cache)))
                return
            seg = 0
            while True:
                try:
                    d = next(gen)
                except StopIteration as e:
                    v = e.value
                    if isinstance(v, bool):
                        v = int(v)
                    log.append(dict(oid=oid, seg=seg, now=tick(), kind="ret", val=v, draws=draws(),
                                    snap=_snapshot(kind, cache), order=order))
                    return
                log.append(dict(oid=oid, seg=seg, now=tick(), kind="yield", val=round(d / UNIT), draws=draws(),
                                snap=_snapshot(kind, cache), order=order))
                seg += 1
                yield d

    drv = Driver("driver")
    holder["drv"] = drv
    sim = Simulation(entities=[backing, cache, drv])
    for oid, o in enumerate(c["ops"]):
        sim.schedule(Event(time=Instant.from_seconds(o[0] * UNIT), event_type="op", target=drv, context={"oid": oid}))
    _, verdict = run_bounded(sim, wall_s=20.0)
    return dict(log=log, verdict=verdict)


def _zl(l):
    return l if l else Raw("(@nil Z)")


def _pairs(l):
    return [tuple(p) for p in l] if l else Raw("(@nil (Z * Z))")


def _snap_term(s):
    return (_pairs(s["cache"]), _zl(s["dirty"]), _pairs(s["back"]), [_zl(v) for v in s["view"]], s["stats"])


def encode_cached(c, obs):
    tr = []
    for e in obs["log"]:
        o = c["ops"][e["oid"]]
        if e["seg"] == 0:
            name = o[1]
            if name == "get":
                op = Ctor("OGet", o[2])
            elif name == "put":
                op = Ctor("OPut", o[2], o[3])
            elif name == "del":
                op = Ctor("ODel", o[2])
            elif name == "inv":
                op = Ctor("OInv", o[2])
            elif name == "invall":
                op = Ctor("OInvAll")
            else:
                op = Ctor("OFlush", _zl(e["order"]))
            act = Ctor("IStart", e["oid"], op)
        else:
            act = Ctor("IResume", e["oid"])
        dr = e["draws"] if e["draws"] else Raw("(@nil (list Z))")
        inp = Ctor("Build_input", e["now"], dr, act)
        if e["kind"] == "yield":
            out = Ctor("OYield", e["val"])
        else:
            out = Ctor("ORet", None if e["val"] is None else SomeV(e["val"]))
        tr.append((inp, out, _snap_term(e["snap"])))
    lat = c["lat"]
    cfg = Ctor("Build_cfg", c["cap"], c["wt"], lat["c"], lat["r"], lat["w"], lat["d"])
    b0 = _pairs([[int(k), v] for k, v in c["init"].items()])
    return term((kind_term(c["kind"], c["param"]), cfg, b0, tr if tr else Raw("[]")))


def _ops_view(c, obs):
    """Per operation: first and last segment index in the global log, return value."""
    info = {}
    for idx, e in enumerate(obs["log"]):
        d = info.setdefault(e["oid"], dict(start=idx, ret=None, val=None, segs=[]))
        d["segs"].append(idx)
        if e["kind"] == "ret":
            d["ret"], d["val"] = idx, e["val"]
    return info


def oracle_cached(c, obs):
    fails = []
    log = obs["log"]
    if obs["verdict"] != "ok":
        return [dict(clause="run terminates", verdict=obs["verdict"])]
    kind, cap = c["kind"], c["cap"]
    ops = c["ops"]
    info = _ops_view(c, obs)
    if len(info) != len(ops) or any(d["ret"] is None for d in info.values()):
        return [dict(clause="every operation completes")]

    def once(f):
        if not any(x.get("mechanism") == f.get("mechanism") and x["clause"] == f["clause"] for x in fails):
            fails.append(f)

    # (1) capacity, (2) policy keys = cache keys, after every segment
    for idx, e in enumerate(log):
        s = e["snap"]
        if s["size"] > cap or len(s["cache"]) > cap:
            once(dict(clause="capacity: cache holds at most its capacity", step=idx, size=s["size"], cap=cap))
        tk = tracked_keys(kind, s["view"])
        if sorted(tk) != sorted(s["keys"]) or len(set(tk)) != len(tk):
            once(dict(clause="policy keys are exactly the cached keys", step=idx, policy=tk, cache=s["keys"]))
        if not set(s["dirty"]) <= set(s["keys"]):
            once(dict(clause="write-back: dirty keys are cached", step=idx))
    # (4) write-back data never discarded before it reaches the backing store
    prev = dict(cache=[], dirty=[], back=[[int(k), v] for k, v in c["init"].items()])
    for idx, e in enumerate(log):
        s = e["snap"]
        o = ops[e["oid"]]
        pc, sc, sb = dict(map(tuple, prev["cache"])), dict(map(tuple, s["cache"])), dict(map(tuple, s["back"]))
        for k in prev["dirty"]:
            v = pc.get(k)
            explicit_write = e["seg"] == 0 and o[1] in ("put", "del") and o[2] == k
            if explicit_write:
                continue
            if k in s["dirty"] and sc.get(k) == v:
                continue
            if sb.get(k) == v and k not in s["dirty"]:
                continue
            if o[1] in ("inv", "invall"):
                mech = "invalidate-dirty"
            elif o[1] == "flush" and e["seg"] > 0:
                mech = "flush-overlaps-put"
            elif o[1] == "get" and e["seg"] > 0:
                mech = "fill-overlaps-write"
            else:
                mech = "dirty-dropped"
            once(dict(clause="write-back data is never discarded before it reaches the backing store",
                      mechanism=mech, step=idx, key=k, value=v, op=o,
                      what=WHAT.get(mech, "")))
        prev = s
    # (3) read-after-write (regular-register check over operation intervals)
    writes = {}
    for oid, o in enumerate(ops):
        if o[1] == "put":
            writes.setdefault(o[2], []).append(dict(start=info[oid]["start"], ret=info[oid]["ret"], val=o[3], oid=oid))
        elif o[1] == "del":
            writes.setdefault(o[2], []).append(dict(start=info[oid]["start"], ret=info[oid]["ret"], val=None, oid=oid))
    for k in range(8):
        init_v = c["init"].get(str(k))
        writes.setdefault(k, []).append(dict(start=-2, ret=-1, val=init_v, oid=-1))
    for oid, o in enumerate(ops):
        if o[1] != "get":
            continue
        k = o[2]
        g = info[oid]
        ws = writes.get(k, [])
        done = [w for w in ws if w["ret"] < g["start"]]
        allowed = set()
        for w in ws:
            if w["start"] >= g["ret"]:
                continue
            if any(w["ret"] < w2["start"] for w2 in done):
                continue
            allowed.add(w["val"])
        if g["val"] not in allowed:
            mech = classify_stale_read(c, obs, info, k, g)
            once(dict(clause="a read issued after a completed write returns that write's value or a later one",
                      mechanism=mech, key=k, got=g["val"], allowed=sorted(allowed, key=str), get_op=oid,
                      what=WHAT.get(mech, "")))
    return fails


WHAT = {
    "fill-overlaps-write": "CachedStore.get miss-fill overlapping a put/delete of the same key installs the old backing value over the newer one",
    "invalidate-dirty": "CachedStore.invalidate/invalidate_all drops a dirty write-back entry without writing it to the backing store",
    "flush-overlaps-put": "CachedStore.flush writes the value captured before its latency and then clears the dirty mark of a key that was rewritten meanwhile",
}


def classify_stale_read(c, obs, info, k, g):
    """Which mechanism (if a recorded one) explains a stale read of key k by get g."""
    ops, log = c["ops"], obs["log"]
    # operations on k before the read returned
    wr = [(oid, info[oid]) for oid, o in enumerate(ops) if o[1] in ("put", "del") and o[2] == k]
    gets = [(oid, info[oid]) for oid, o in enumerate(ops) if o[1] == "get" and o[2] == k and len(info[oid]["segs"]) > 1]
    # a miss (two segments, first yield = backing read latency) whose interval overlaps a write of k
    for goid, gi in gets:
        first = log[gi["start"]]
        if first["kind"] == "yield" and first["val"] == c["lat"]["r"] and gi["ret"] <= g["ret"]:
            for woid, wi in wr:
                if wi["start"] < gi["ret"] and gi["start"] < wi["ret"]:
                    return "fill-overlaps-write"
    if not c["wt"]:
        # k was dirty when an invalidate hit it
        prev_dirty = []
        for idx, e in enumerate(log[: g["ret"]]):
            o = ops[e["oid"]]
            if o[1] == "invall" and k in prev_dirty:
                return "invalidate-dirty"
            if o[1] == "inv" and o[2] == k and k in prev_dirty:
                return "invalidate-dirty"
            prev_dirty = e["snap"]["dirty"]
        # a put of k started while a flush had k's backing write in flight
        for foid, o in enumerate(ops):
            if o[1] != "flush":
                continue
            fi = info[foid]
            for woid, wi in wr:
                if ops[woid][1] == "put" and fi["start"] < wi["start"] < fi["ret"] and fi["start"] < g["ret"]:
                    return "flush-overlaps-put"
    return "stale-read"


def attribute_cached(c, obs, f):
    return {
        "fill-overlaps-write": "C16-fill-race",
        "invalidate-dirty": "C16-invalidate-dirty",
        "flush-overlaps-put": "C16-flush-race",
    }.get(f.get("mechanism"))


def nontrivial_cached(c, obs):
    return any(e["snap"]["stats"][4] > 0 for e in obs["log"][-1:])


FAMILIES = [
    Family("policy", IMPORTS, "ok_policy", "pkind * list (pop_ * option Z * list (list Z))", gen_policy, impl_policy,
           encode_policy, oracle_policy, lambda c, o: any(x[0] == "evict" for x in c["ops"]),
           describe=lambda c: c["kind"]),
    Family("cached", IMPORTS, "ok_cache", "cache_case", gen_cached, impl_cached,
           encode_cached, oracle_cached, nontrivial_cached, attribute_cached, parallel=True,
           describe=lambda c: f"{c['kind']},{'wt' if c['wt'] else 'wb'},{c['style']}"),
]

PROOF_FILES = ["C16/Model.v", "C16/Lists.v", "C16/Policies.v", "C16/Store.v", "C16/Races.v", "C16/Seq.v", "C16/Props.v"]

TRUSTED = [
    "Coq 8.16.1 kernel (coqc, vm_compute for refutation witnesses and case evaluation); no native_compute",
    "axioms: none",
    "correspondence harness harness/props/c16.py (generators, hand-stepping driver entity, observers, in-Coq comparison ok_* of C16/Model.v)",
    "the engine's scheduling of generator segments is not modelled: theorems quantify over every interleaving of segments (a superset of the engine's)",
]


def run(ctx):
    ctx.prove(PROOF_FILES, allowed_axioms=(), trusted_base=TRUSTED)
    stats = [
        run_family(ctx, FAMILIES[0], ctx.n(400, 6000)),
        run_family(ctx, FAMILIES[1], ctx.n(300, 5000)),
    ]
    merge_stats(ctx, stats, "random structured op sequences; non-trivial = contains an eviction; distinct by JSON of the input")
    ctx.finish_obligations()


def replay(data):
    fam = {f.name: f for f in FAMILIES}[data["detail"]["family"]]
    c = data["detail"]["case"]
    obs = fam.impl(c)
    fails = fam.oracle(c, obs)
    print("oracle failures:", fails)
    return 1 if fails else 0
