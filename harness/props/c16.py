"""C16 — caches: capacity, policy/cache agreement, read-after-write, write-back, soft TTL.

Tie to /repo (six families; in every family the implementation's observations after EVERY call /
generator segment are compared with the model inside Coq):
  * `policy`:  call sequences on the nine real eviction-policy objects (cache-like and arbitrary);
    return value and complete internal state.
  * `cached`:  CachedStore workloads inside a real Simulation (overlapping get/put/delete/invalidate/
    invalidate_all/flush on a few keys, capacity 1-3, all nine policies, write-through and write-back).
    A driver entity steps every generator method by hand (as CacheWarmer does) and records, for every
    segment between two yields: which operation ran, what it yielded/returned, the complete state.
  * `sttl`:    SoftTTLCache workloads (fresh/stale/expired zones at exact boundaries, background refresh
    delivered by the real engine and recorded through a wrapper of handle_event, coalescing, foreign
    writers of the backing store).
  * `mt`:      MultiTierCache over two CachedStore tiers (any two policies, all promotion policies,
    direct tier-2 reads).
  * `pcache`:  PageCache read_page/write_page/flush, overlapping loads and evictions.
  * `wpolicy`: WriteThrough/WriteBack/WriteAround call sequences.

RNG draws (RandomEviction.choice, SampledLRU.sample), the iteration order of the dirty-key set in
flush() and the TTL policy's clock readings are recorded from the implementation and fed to the model
as oracle inputs; the model checks that they are possible ones.

The property oracles (oracle_*) evaluate the C16 statement on the recorded observations only:
capacity and policy-key agreement after every segment, a regular-register check of every get against
the intervals of the writes, step-wise preservation of dirty data, age of every served soft-TTL entry.

Private attributes read: CachedStore._cache/_dirty_keys/_eviction_policy, KVStore._data, the policies'
tracking structures, SoftTTLCache._cache/_refreshing_keys/_access_order, MultiTierCache._access_counts,
PageCache._pages, WriteAround._invalidated_keys.
"""
from __future__ import annotations

import random

from hsverif.coq import Ctor, Raw, SomeV, term
from hsverif.family import Family, merge_stats, run_family

IMPORTS = "From HS Require Import Base.Prelude C16.Model."
LEVEL = "proof"

KINDS = ["lru", "lfu", "ttl", "fifo", "random", "slru", "sampled", "clock", "twoq"]


def K(i):
    return f"k{i}"


def unk(s):
    return int(s[1:])


def kind_term(kind, param):
    return {
        "lru": Ctor("KLru"), "lfu": Ctor("KLfu"), "ttl": Ctor("KTtl", param), "fifo": Ctor("KFifo"),
        "random": Ctor("KRandom"), "slru": Ctor("KSlru"), "sampled": Ctor("KSampled", param),
        "clock": Ctor("KClock"), "twoq": Ctor("KTwoQ"),
    }[kind]


class RecRng:
    """random.Random wrapper that records what the policy drew."""

    def __init__(self, seed):
        self.r = random.Random(seed)
        self.draws = []

    def choice(self, seq):
        x = self.r.choice(seq)
        self.draws.append([unk(x)])
        return x

    def sample(self, pop, k):
        x = self.r.sample(pop, k)
        self.draws.append([unk(e) for e in x])
        return x

    def take(self):
        d, self.draws = self.draws, []
        return d


def make_policy(kind, param, seed, clock):
    from happysimulator.components.datastore import eviction_policies as ep
    if kind == "lru":
        return ep.LRUEviction()
    if kind == "lfu":
        return ep.LFUEviction()
    if kind == "ttl":
        return ep.TTLEviction(ttl=param, clock_func=clock)
    if kind == "fifo":
        return ep.FIFOEviction()
    if kind == "random":
        p = ep.RandomEviction(seed=seed)
        p._rng = RecRng(seed)
        return p
    if kind == "slru":
        return ep.SLRUEviction()
    if kind == "sampled":
        p = ep.SampledLRUEviction(sample_size=param, seed=seed)
        p._rng = RecRng(seed)
        return p
    if kind == "clock":
        return ep.ClockEviction()
    if kind == "twoq":
        return ep.TwoQueueEviction()
    raise ValueError(kind)


def policy_view(kind, p):
    u = unk
    if kind in ("lru",):
        return [[u(k) for k in p._order]]
    if kind == "fifo":
        return [[u(k) for k in p._order]]
    if kind == "lfu":
        return [[u(k) for k in p._counts], list(p._counts.values()), [p._min_count]]
    if kind == "ttl":
        return [[u(k) for k in p._insert_times], list(p._insert_times.values())]
    if kind == "random":
        return [sorted(u(k) for k in p._keys)]
    if kind == "slru":
        return [[u(k) for k in p._probationary], [u(k) for k in p._protected]]
    if kind == "sampled":
        return [[u(k) for k in p._access_times], list(p._access_times.values()), [p._clock]]
    if kind == "clock":
        if list(p._ref_bits) != list(p._keys) and sorted(p._ref_bits) != sorted(p._keys):
            raise AssertionError("ClockEviction: _keys and _ref_bits hold different keys")
        return [[u(k) for k in p._keys], [1 if p._ref_bits[k] else 0 for k in p._keys], [p._hand]]
    if kind == "twoq":
        return [[u(k) for k in p._a1in], [u(k) for k in p._a1out], [u(k) for k in p._am]]
    raise ValueError(kind)


def tracked_keys(kind, view):
    if kind == "slru":
        return view[0] + view[1]
    if kind == "twoq":
        return view[0] + view[2]
    return view[0]


def gen_kind(rng):
    kind = rng.choice(KINDS)
    param = 0
    if kind == "ttl":
        param = rng.choice([1, 3, 5, 20])
    if kind == "sampled":
        param = rng.choice([1, 2, 3, 5])
    return kind, param


# --------------------------------------------------------------------------- family: policy
def gen_policy(rng):
    kind, param = gen_kind(rng)
    big = kind == "twoq" and rng.random() < 0.3
    nkeys = rng.choice([60, 70]) if big else rng.randint(2, 6)
    n = rng.randint(60, 160) if big else rng.randint(1, 40)
    ops, now = [], 0
    cache_like = rng.random() < 0.6      # only calls a cache makes: insert of untracked keys only
    for _ in range(n):
        now += rng.choice([0, 0, 1, 1, 2, 7]) if rng.random() < 0.9 else -rng.randint(0, 3)
        k = rng.randrange(nkeys)
        r = rng.random()
        if big:
            r = r * 0.7 if r > 0.1 else 0.95
        if r < 0.3:
            ops.append(["touch", now, k] if cache_like else ["insert", now, k])
        elif r < 0.55:
            ops.append(["evict", now])
        elif r < 0.75:
            ops.append(["access", k])
        elif r < 0.93:
            ops.append(["remove", k])
        else:
            ops.append(["clear"])
    return dict(kind=kind, param=param, seed=rng.randrange(1000), ops=ops, cache_like=cache_like)


def impl_policy(c):
    cell = {"now": 0}
    p = make_policy(c["kind"], c["param"], c["seed"], lambda: cell["now"])
    out = []
    for o in c["ops"]:
        ret, draws = None, []
        before = sorted(set(tracked_keys(c["kind"], policy_view(c["kind"], p))))
        if o[0] == "touch":      # what _cache_put does: on_access for a tracked key, else on_insert
            o = ["access", o[2]] if o[2] in before else ["insert", o[1], o[2]]
        if o[0] == "access":
            p.on_access(K(o[1]))
        elif o[0] == "insert":
            cell["now"] = o[1]
            p.on_insert(K(o[2]))
        elif o[0] == "remove":
            p.on_remove(K(o[1]))
        elif o[0] == "evict":
            cell["now"] = o[1]
            r = p.evict()
            ret = None if r is None else unk(r)
            if hasattr(p, "_rng") and isinstance(p._rng, RecRng):
                draws = p._rng.take()
        elif o[0] == "clear":
            p.clear()
        out.append(dict(op=o, ret=ret, draws=draws, view=policy_view(c["kind"], p), before=before))
    return out


def encode_policy(c, obs):
    tr = []
    for r in obs:
        o = r["op"]
        if o[0] == "access":
            t = Ctor("PAccess", o[1])
        elif o[0] == "insert":
            t = Ctor("PInsert", o[1], o[2])
        elif o[0] == "remove":
            t = Ctor("PRemove", o[1])
        elif o[0] == "evict":
            t = Ctor("PEvict", o[1], r["draws"] if r["draws"] else Raw("(@nil (list Z))"))
        else:
            t = Ctor("PClear")
        ret = None if r["ret"] is None else SomeV(r["ret"])
        tr.append((t, ret, [v if v else Raw("(@nil Z)") for v in r["view"]]))
    return term((kind_term(c["kind"], c["param"]), tr if tr else Raw("[]")))


def oracle_policy(c, obs):
    """evict() returns a tracked key whenever the policy tracks one, None only when empty,
    and stops tracking exactly that key."""
    if not c["cache_like"]:
        return []
    for i, r in enumerate(obs):
        o = r["op"]
        after = sorted(set(tracked_keys(c["kind"], r["view"])))
        if len(tracked_keys(c["kind"], r["view"])) != len(after):
            return [dict(clause="policy: no key is tracked twice", step=i)]
        before = r["before"]
        if o[0] == "insert" and after != sorted(set(before) | {o[2]}):
            return [dict(clause="policy: on_insert tracks the key", step=i)]
        if o[0] == "access" and after != before:
            return [dict(clause="policy: on_access keeps the tracked keys", step=i)]
        if o[0] == "remove" and after != sorted(set(before) - {o[1]}):
            return [dict(clause="policy: on_remove stops tracking the key", step=i)]
        if o[0] != "evict":
            continue
        if r["ret"] is None:
            if before:
                return [dict(clause="policy: evict returns a key while it tracks one", step=i, before=before)]
        else:
            if r["ret"] not in before:
                return [dict(clause="policy: evict returns a tracked key", step=i, ret=r["ret"], before=before)]
            if after != sorted(set(before) - {r["ret"]}):
                return [dict(clause="policy: evict stops tracking exactly the evicted key", step=i)]
    return []


# --------------------------------------------------------------------------- family: cached
UNIT = 1.0 / 512.0      # one time unit in seconds: exact in binary floating point and exactly 1953125 ns


def gen_cached(rng):
    kind, param = gen_kind(rng)
    nkeys = rng.randint(2, 5)
    cap = rng.randint(1, 3)
    wt = rng.random() < 0.5
    lat = dict(c=rng.choice([1, 1, 2]), r=rng.choice([3, 6, 10]), w=rng.choice([2, 5, 12]), d=rng.choice([2, 7]))
    style = rng.choice(["sequential", "overlap", "overlap", "burst"])
    ops, t = [], 0
    val = 100
    for _ in range(rng.randint(3, 26)):
        if style == "sequential":
            t += 40
        elif style == "overlap":
            t += rng.choice([0, 1, 1, 2, 3, 4, 6, 9, 15])
        else:
            t += rng.choice([0, 0, 1, 30])
        k = rng.randrange(nkeys)
        r = rng.random()
        if r < 0.40:
            ops.append([t, "get", k])
        elif r < 0.72:
            val += 1
            ops.append([t, "put", k, val])
        elif r < 0.80:
            ops.append([t, "del", k])
        elif r < 0.88:
            ops.append([t, "inv", k])
        elif r < 0.91:
            ops.append([t, "invall"])
        else:
            ops.append([t, "flush"])
    # a quiescent tail: flush, then read every key
    t += 60
    if rng.random() < 0.7:
        ops.append([t, "flush"])
        t += 40 * (nkeys + 1)
    for k in range(nkeys):
        ops.append([t, "get", k])
        t += 40
    init = {str(k): 10 + k for k in range(nkeys) if rng.random() < 0.6}
    if kind == "ttl":
        param = rng.choice([2, 8, 30, 200])
    return dict(kind=kind, param=param, seed=rng.randrange(1000), cap=cap, wt=wt, lat=lat, init=init, ops=ops, style=style)


def _snapshot(kind, cache):
    def val(v):
        return -1 if v is None else v
    return dict(
        cache=[[unk(k), val(v)] for k, v in cache._cache.items()],
        dirty=sorted(unk(k) for k in cache._dirty_keys),
        back=[[unk(k), val(v)] for k, v in cache._backing_store._data.items()],
        view=policy_view(kind, cache._eviction_policy),
        stats=[cache._reads, cache._writes, cache._hits, cache._misses, cache._evictions, cache._writebacks],
        size=cache.cache_size,
        keys=[unk(k) for k in cache.get_cached_keys()],
    )


def impl_cached(c):
    from happysimulator.components.datastore.cached_store import CachedStore
    from happysimulator.components.datastore.kv_store import KVStore
    from happysimulator.core.entity import Entity
    from happysimulator.core.event import Event
    from happysimulator.core.simulation import Simulation
    from happysimulator.core.temporal import Instant
    from hsverif.util import run_bounded

    lat = c["lat"]
    log = []
    holder = {}

    def tick():
        return holder["drv"].now.nanoseconds // 1000

    pol = make_policy(c["kind"], c["param"], c["seed"], tick)
    backing = KVStore("backing", read_latency=lat["r"] * UNIT, write_latency=lat["w"] * UNIT,
                      delete_latency=lat["d"] * UNIT)
    for k, v in c["init"].items():
        backing.put_sync(K(k), v)
    cache = CachedStore("cache", backing, c["cap"], pol, cache_read_latency=lat["c"] * UNIT,
                        write_through=c["wt"])
    kind = c["kind"]

    def draws():
        r = getattr(pol, "_rng", None)
        return r.take() if isinstance(r, RecRng) else []

    class Driver(Entity):
        def handle_event(self, ev):
            oid = ev.context["oid"]
            o = c["ops"][oid]
            name = o[1]
            order = None
            if name == "get":
                gen = cache.get(K(o[2]))
            elif name == "put":
                gen = cache.put(K(o[2]), o[3])
            elif name == "del":
                gen = cache.delete(K(o[2]))
            elif name == "flush":
                order = [unk(k) for k in sorted(cache._dirty_keys)]     # flush() iterates sorted(dirty keys)
                gen = cache.flush()
            elif name == "inv":
                cache.invalidate(K(o[2]))
                log.append(dict(oid=oid, seg=0, now=tick(), kind="ret", val=None, draws=draws(), snap=_snapshot(kind, cache)))
                return
            else:
                cache.invalidate_all()
                log.append(dict(oid=oid, seg=0, now=tick(), kind="ret", val=None, draws=draws(), snap=_snapshot(kind, cache)))
                return
            seg = 0
            while True:
                try:
                    d = next(gen)
                except StopIteration as e:
                    v = e.value
                    if isinstance(v, bool):
                        v = int(v)
                    log.append(dict(oid=oid, seg=seg, now=tick(), kind="ret", val=v, draws=draws(),
                                    snap=_snapshot(kind, cache), order=order))
                    return
                log.append(dict(oid=oid, seg=seg, now=tick(), kind="yield", val=round(d / UNIT), draws=draws(),
                                snap=_snapshot(kind, cache), order=order))
                seg += 1
                yield d

    drv = Driver("driver")
    holder["drv"] = drv
    sim = Simulation(entities=[backing, cache, drv])
    for oid, o in enumerate(c["ops"]):
        sim.schedule(Event(time=Instant.from_seconds(o[0] * UNIT), event_type="op", target=drv, context={"oid": oid}))
    _, verdict = run_bounded(sim, wall_s=20.0)
    return dict(log=log, verdict=verdict)


def _zl(l):
    return l if l else Raw("(@nil Z)")


def _pairs(l):
    return [tuple(p) for p in l] if l else Raw("(@nil (Z * Z))")


def _snap_term(s):
    return (_pairs(s["cache"]), _zl(s["dirty"]), _pairs(s["back"]), [_zl(v) for v in s["view"]], s["stats"])


def encode_cached(c, obs):
    tr = []
    for e in obs["log"]:
        o = c["ops"][e["oid"]]
        if e["seg"] == 0:
            name = o[1]
            if name == "get":
                op = Ctor("OGet", o[2])
            elif name == "put":
                op = Ctor("OPut", o[2], o[3])
            elif name == "del":
                op = Ctor("ODel", o[2])
            elif name == "inv":
                op = Ctor("OInv", o[2])
            elif name == "invall":
                op = Ctor("OInvAll")
            else:
                op = Ctor("OFlush", _zl(e["order"]))
            act = Ctor("IStart", e["oid"], op)
        else:
            act = Ctor("IResume", e["oid"])
        dr = e["draws"] if e["draws"] else Raw("(@nil (list Z))")
        inp = Ctor("Build_input", e["now"], dr, act)
        if e["kind"] == "yield":
            out = Ctor("OYield", e["val"])
        else:
            out = Ctor("ORet", None if e["val"] is None else SomeV(e["val"]))
        tr.append((inp, out, _snap_term(e["snap"])))
    lat = c["lat"]
    cfg = Ctor("Build_cfg", c["cap"], c["wt"], lat["c"], lat["r"], lat["w"], lat["d"])
    b0 = _pairs([[int(k), v] for k, v in c["init"].items()])
    return term((kind_term(c["kind"], c["param"]), cfg, b0, tr if tr else Raw("[]")))


def _ops_view(c, obs):
    """Per operation: first and last segment index in the global log, return value."""
    info = {}
    for idx, e in enumerate(obs["log"]):
        d = info.setdefault(e["oid"], dict(start=idx, ret=None, val=None, segs=[]))
        d["segs"].append(idx)
        if e["kind"] == "ret":
            d["ret"], d["val"] = idx, e["val"]
    return info


def oracle_cached(c, obs):
    fails = []
    log = obs["log"]
    if obs["verdict"] != "ok":
        return [dict(clause="run terminates", verdict=obs["verdict"])]
    kind, cap = c["kind"], c["cap"]
    ops = c["ops"]
    info = _ops_view(c, obs)
    if len(info) != len(ops) or any(d["ret"] is None for d in info.values()):
        return [dict(clause="every operation completes")]

    def once(f):
        if not any(x.get("mechanism") == f.get("mechanism") and x["clause"] == f["clause"] for x in fails):
            fails.append(f)

    # (1) capacity, (2) policy keys = cache keys, after every segment
    for idx, e in enumerate(log):
        s = e["snap"]
        if s["size"] > cap or len(s["cache"]) > cap:
            once(dict(clause="capacity: cache holds at most its capacity", step=idx, size=s["size"], cap=cap))
        tk = tracked_keys(kind, s["view"])
        if sorted(tk) != sorted(s["keys"]) or len(set(tk)) != len(tk):
            once(dict(clause="policy keys are exactly the cached keys", step=idx, policy=tk, cache=s["keys"]))
        if not set(s["dirty"]) <= set(s["keys"]):
            once(dict(clause="write-back: dirty keys are cached", step=idx))
    # (4) write-back data never discarded before it reaches the backing store
    prev = dict(cache=[], dirty=[], back=[[int(k), v] for k, v in c["init"].items()])
    for idx, e in enumerate(log):
        s = e["snap"]
        o = ops[e["oid"]]
        pc, sc, sb = dict(map(tuple, prev["cache"])), dict(map(tuple, s["cache"])), dict(map(tuple, s["back"]))
        for k in prev["dirty"]:
            v = pc.get(k)
            explicit_write = e["seg"] == 0 and o[1] in ("put", "del") and o[2] == k
            if explicit_write:
                continue
            if k in s["dirty"] and sc.get(k) == v:
                continue
            if sb.get(k) == v and k not in s["dirty"]:
                continue
            if o[1] in ("inv", "invall"):
                mech = "invalidate-dirty"
            elif o[1] == "flush" and e["seg"] > 0:
                mech = "flush-overlaps-put"
            elif o[1] == "get" and e["seg"] > 0:
                mech = "fill-overlaps-write"
            else:
                mech = "dirty-dropped"
            once(dict(clause="write-back data is never discarded before it reaches the backing store",
                      mechanism=mech, step=idx, key=k, value=v, op=o,
                      what=WHAT.get(mech, "")))
        prev = s
    # (3) read-after-write (regular-register check over operation intervals)
    writes = {}
    for oid, o in enumerate(ops):
        if o[1] == "put":
            writes.setdefault(o[2], []).append(dict(start=info[oid]["start"], ret=info[oid]["ret"], val=o[3], oid=oid))
        elif o[1] == "del":
            writes.setdefault(o[2], []).append(dict(start=info[oid]["start"], ret=info[oid]["ret"], val=None, oid=oid))
    for k in range(8):
        init_v = c["init"].get(str(k))
        writes.setdefault(k, []).append(dict(start=-2, ret=-1, val=init_v, oid=-1))
    for oid, o in enumerate(ops):
        if o[1] != "get":
            continue
        k = o[2]
        g = info[oid]
        ws = writes.get(k, [])
        done = [w for w in ws if w["ret"] < g["start"]]
        allowed = set()
        for w in ws:
            if w["start"] >= g["ret"]:
                continue
            if any(w["ret"] < w2["start"] for w2 in done):
                continue
            allowed.add(w["val"])
        if g["val"] not in allowed:
            mech = classify_stale_read(c, obs, info, k, g)
            once(dict(clause="a read issued after a completed write returns that write's value or a later one",
                      mechanism=mech, key=k, got=g["val"], allowed=sorted(allowed, key=str), get_op=oid,
                      what=WHAT.get(mech, "")))
    return fails


WHAT = {
    "fill-overlaps-write": "CachedStore.get miss-fill overlapping a put/delete of the same key installs the old backing value over the newer one",
    "invalidate-dirty": "CachedStore.invalidate/invalidate_all drops a dirty write-back entry without writing it to the backing store",
    "flush-overlaps-put": "CachedStore.flush writes the value captured before its latency (and then clears the dirty mark) although the key was rewritten or deleted meanwhile",
}


def classify_stale_read(c, obs, info, k, g):
    """Which mechanism (if a recorded one) explains a stale read of key k by get g."""
    ops, log = c["ops"], obs["log"]
    # operations on k before the read returned
    wr = [(oid, info[oid]) for oid, o in enumerate(ops) if o[1] in ("put", "del") and o[2] == k]
    gets = [(oid, info[oid]) for oid, o in enumerate(ops) if o[1] == "get" and o[2] == k and len(info[oid]["segs"]) > 1]
    # a miss (two segments, first yield = backing read latency) whose interval overlaps a write of k
    for goid, gi in gets:
        first = log[gi["start"]]
        if first["kind"] == "yield" and first["val"] == c["lat"]["r"] and gi["ret"] <= g["ret"]:
            for woid, wi in wr:
                if wi["start"] < gi["ret"] and gi["start"] < wi["ret"]:
                    return "fill-overlaps-write"
    if not c["wt"]:
        # k was dirty when an invalidate hit it
        prev_dirty = []
        for idx, e in enumerate(log[: g["ret"]]):
            o = ops[e["oid"]]
            if o[1] == "invall" and k in prev_dirty:
                return "invalidate-dirty"
            if o[1] == "inv" and o[2] == k and k in prev_dirty:
                return "invalidate-dirty"
            prev_dirty = e["snap"]["dirty"]
        # a put of k started while a flush had k's backing write in flight
        for foid, o in enumerate(ops):
            if o[1] != "flush":
                continue
            fi = info[foid]
            for woid, wi in wr:
                if fi["start"] < wi["start"] < fi["ret"] and fi["start"] < g["ret"]:
                    return "flush-overlaps-put"          # put or delete started while the flush write was in flight
    return "stale-read"


def attribute_cached(c, obs, f):
    return {
        "fill-overlaps-write": "C16-fill-race",
        "invalidate-dirty": "C16-invalidate-dirty",
        "flush-overlaps-put": "C16-flush-race",
    }.get(f.get("mechanism"))


def nontrivial_cached(c, obs):
    return any(e["snap"]["stats"][4] > 0 for e in obs["log"][-1:])



# --------------------------------------------------------------------------- family: sttl
IMPORTS_TTL = "From HS Require Import Base.Prelude C16.Model C16.ModelTTL."
UNIT_NS = 1953125


def gen_sttl(rng):
    nkeys = rng.randint(1, 4)
    cap = rng.choice([None, 1, 2, 3])
    soft = rng.choice([0, 4, 8, 20])
    hard = soft + rng.choice([0, 3, 10, 30])
    lat = dict(c=rng.choice([1, 2]), r=rng.choice([3, 6, 10]), w=rng.choice([4, 5, 12]))
    external = rng.random() < 0.35
    style = rng.choice(["sequential", "overlap", "overlap", "burst"])
    ops, t, val = [], 0, 100
    for _ in range(rng.randint(3, 28)):
        if style == "sequential":
            t += rng.choice([15, 20, 33])
        elif style == "overlap":
            t += rng.choice([0, 1, 1, 2, 3, 4, 6, 9, 15, soft, hard])
        else:
            t += rng.choice([0, 0, 1, 30])
        k = rng.randrange(nkeys)
        r = rng.random()
        if r < 0.55:
            ops.append([t, "get", k])
        elif r < 0.80:
            val += 1
            ops.append([t, "put", k, val])
        elif r < 0.86:
            ops.append([t, "inv", k])
        elif r < 0.89:
            ops.append([t, "invall"])
        elif external and r < 0.95:
            ops.append([t, "bdel", k])
        elif external:
            val += 1
            ops.append([t, "bput", k, val])
        else:
            ops.append([t, "get", k])
    t += 40
    for k in range(nkeys):
        ops.append([t, "get", k])
        t += 25
    init = {str(k): 10 + k for k in range(nkeys) if rng.random() < 0.7}
    return dict(cap=cap, soft=soft, hard=hard, lat=lat, init=init, ops=ops, style=style, external=external)


def _tsnap(cache):
    def val(v):
        return -1 if v is None else v
    return dict(
        cache=[[unk(k), val(e.value), e.cached_at.nanoseconds] for k, e in cache._cache.items()],
        refreshing=sorted(unk(k) for k in cache._refreshing_keys),
        order=[unk(k) for k in cache._access_order],
        back=[[unk(k), val(v)] for k, v in cache._backing_store._data.items()],
        stats=[cache._reads, cache._fresh_hits, cache._stale_hits, cache._hard_misses, cache._background_refreshes,
               cache._refresh_successes, cache._coalesced_requests, cache._evictions],
        size=cache.cache_size,
    )


def impl_sttl(c):
    from happysimulator.components.datastore.kv_store import KVStore
    from happysimulator.components.datastore.soft_ttl_cache import SoftTTLCache
    from happysimulator.core.entity import Entity
    from happysimulator.core.event import Event
    from happysimulator.core.simulation import Simulation
    from happysimulator.core.temporal import Instant
    from hsverif.util import run_bounded

    lat = c["lat"]
    log = []
    backing = KVStore("backing", read_latency=lat["r"] * UNIT, write_latency=lat["w"] * UNIT)
    for k, v in c["init"].items():
        backing.put_sync(K(k), v)
    cache = SoftTTLCache("sttl", backing, soft_ttl=c["soft"] * UNIT, hard_ttl=c["hard"] * UNIT,
                         cache_capacity=c["cap"], cache_read_latency=lat["c"] * UNIT)
    counter = {"rid": 1000}

    def rec(oid, seg, kind, val, spawn=False, key=None):
        log.append(dict(oid=oid, seg=seg, now=cache.now.nanoseconds, kind=kind, val=val, spawn=spawn, key=key,
                        snap=_tsnap(cache)))

    orig = cache.handle_event

    def wrapped(ev):
        if ev.event_type != "_sttl_refresh":
            return orig(ev)
        rid = counter["rid"]
        counter["rid"] += 1
        key = unk(ev.context["metadata"]["key"])

        def g():
            gen = orig(ev)
            seg = 0
            while True:
                try:
                    d = next(gen)
                except StopIteration as e:
                    rec(rid, seg, "ret", None, key=key)
                    return e.value
                rec(rid, seg, "yield", round(d / UNIT), key=key)
                seg += 1
                yield d
        return g()

    cache.handle_event = wrapped

    class Driver(Entity):
        def handle_event(self, ev):
            oid = ev.context["oid"]
            o = c["ops"][oid]
            name = o[1]
            if name == "get":
                gen = cache.get(K(o[2]))
            elif name == "put":
                gen = cache.put(K(o[2]), o[3])
            else:
                if name == "inv":
                    cache.invalidate(K(o[2]))
                elif name == "invall":
                    cache.invalidate_all()
                elif name == "bput":
                    backing.put_sync(K(o[2]), o[3])
                elif name == "bdel":
                    backing.delete_sync(K(o[2]))
                rec(oid, 0, "ret", None)
                return
            seg = 0
            while True:
                try:
                    d = next(gen)
                except StopIteration as e:
                    rec(oid, seg, "ret", e.value)
                    return
                if isinstance(d, tuple):
                    rec(oid, seg, "yield", round(d[0] / UNIT), spawn=bool(d[1]))
                else:
                    rec(oid, seg, "yield", round(d / UNIT))
                seg += 1
                yield d

    drv = Driver("driver")
    sim = Simulation(entities=[backing, cache, drv])
    for oid, o in enumerate(c["ops"]):
        sim.schedule(Event(time=Instant.from_seconds(o[0] * UNIT), event_type="op", target=drv, context={"oid": oid}))
    _, verdict = run_bounded(sim, wall_s=20.0)
    return dict(log=log, verdict=verdict, soft_ns=cache.soft_ttl.nanoseconds, hard_ns=cache.hard_ttl.nanoseconds)


def _tsnap_term(s, u=1):
    ca = [(e[0], (e[1], e[2] // u)) for e in s["cache"]] if s["cache"] else Raw("(@nil (Z * (Z * Z)))")
    return (ca, _zl(s["refreshing"]), _zl(s["order"]), _pairs(s["back"]), s["stats"])


def _sttl_unit(obs):
    """All instants are exact multiples of UNIT_NS (UNIT is dyadic): send them in units; fall back to ns."""
    vals = [obs["soft_ns"], obs["hard_ns"]]
    for e in obs["log"]:
        vals.append(e["now"])
        vals += [x[2] for x in e["snap"]["cache"]]
    return UNIT_NS if all(v % UNIT_NS == 0 for v in vals) else 1


def encode_sttl(c, obs):
    tr = []
    u = _sttl_unit(obs)
    for e in obs["log"]:
        if e["seg"] == 0:
            if e["oid"] >= 1000:
                op = Ctor("TRefresh", e["key"])
            else:
                o = c["ops"][e["oid"]]
                op = {"get": lambda: Ctor("TGet", o[2]), "put": lambda: Ctor("TPut", o[2], o[3]),
                      "inv": lambda: Ctor("TInv", o[2]), "invall": lambda: Ctor("TInvAll"),
                      "bput": lambda: Ctor("TBackPut", o[2], o[3]), "bdel": lambda: Ctor("TBackDel", o[2])}[o[1]]()
            act = Ctor("TStart", e["oid"], op)
        else:
            act = Ctor("TResume", e["oid"])
        inp = Ctor("Build_tinput", e["now"] // u, act)
        if e["kind"] == "yield":
            out = Ctor("TOYield", e["val"], e["spawn"])
        else:
            out = Ctor("TORet", None if e["val"] is None else SomeV(e["val"]))
        tr.append((inp, out, _tsnap_term(e["snap"], u)))
    lat = c["lat"]
    cap = None if c["cap"] is None else SomeV(c["cap"])
    cfg = Ctor("Build_tcfg", obs["soft_ns"] // u, obs["hard_ns"] // u, cap, lat["c"], lat["r"], lat["w"])
    b0 = _pairs([[int(k), v] for k, v in c["init"].items()])
    return term((cfg, b0, tr if tr else Raw("[]")))


def oracle_sttl(c, obs):
    fails = []
    log, ops = obs["log"], c["ops"]
    if obs["verdict"] != "ok":
        return [dict(clause="run terminates", verdict=obs["verdict"])]
    info = {}
    for idx, e in enumerate(log):
        d = info.setdefault(e["oid"], dict(start=idx, ret=None, val=None, segs=[]))
        d["segs"].append(idx)
        if e["kind"] == "ret":
            d["ret"], d["val"] = idx, e["val"]
    if any(oid not in info or info[oid]["ret"] is None for oid in range(len(ops))):
        return [dict(clause="every operation completes")]
    hard = obs["hard_ns"]
    lat = c["lat"]
    # capacity and LRU bookkeeping
    for idx, e in enumerate(log):
        s = e["snap"]
        keys = [x[0] for x in s["cache"]]
        if c["cap"] is not None and (s["size"] > c["cap"] or len(keys) > c["cap"]):
            fails.append(dict(clause="capacity: cache holds at most its capacity", step=idx))
            break
        if sorted(s["order"]) != sorted(keys) or len(set(s["order"])) != len(s["order"]):
            fails.append(dict(clause="LRU order tracks exactly the cached keys", step=idx, order=s["order"], keys=keys))
            break
    # hard TTL: an entry served from the cache is younger than the hard TTL when the decision is made
    for oid, o in enumerate(ops):
        if o[1] != "get":
            continue
        g = info[oid]
        first = log[g["start"]]
        pre = log[g["start"] - 1]["snap"] if g["start"] > 0 else dict(cache=[], refreshing=[])
        entry = {x[0]: x for x in pre["cache"]}.get(o[2])
        if first["kind"] == "yield" and first["val"] == lat["c"]:
            if entry is None or first["now"] - entry[2] >= hard:
                fails.append(dict(clause="soft TTL: never serves an entry older than its hard TTL", path="hit", get_op=oid,
                                  age=None if entry is None else first["now"] - entry[2], hard=hard))
        elif first["kind"] == "yield" and o[2] in pre["refreshing"] and g["val"] is not None and len(g["segs"]) == 2:
            # coalesced with a refresh and answered from the cache when it resumed (three segments = it fell
            # through to a blocking fetch of its own: the value comes from the backing store)
            last = log[g["ret"]]
            pre2 = log[g["ret"] - 1]["snap"]
            entry2 = {x[0]: x for x in pre2["cache"]}.get(o[2])
            if entry2 is None or last["now"] - entry2[2] >= hard:
                fails.append(dict(clause="soft TTL: never serves an entry older than its hard TTL", path="coalesced",
                                  mechanism="coalesced-expired", get_op=oid,
                                  age=None if entry2 is None else last["now"] - entry2[2], hard=hard))
    # read-after-write for keys only written through the cache
    ext = {o[2] for o in ops if o[1] in ("bput", "bdel")}
    writes = {}
    for oid, o in enumerate(ops):
        if o[1] == "put":
            writes.setdefault(o[2], []).append(dict(start=info[oid]["start"], ret=info[oid]["ret"], val=o[3]))
    for k in range(6):
        writes.setdefault(k, []).append(dict(start=-2, ret=-1, val=c["init"].get(str(k))))
    for oid, o in enumerate(ops):
        if o[1] != "get" or o[2] in ext:
            continue
        g = info[oid]
        ws = writes[o[2]]
        done = [w for w in ws if w["ret"] < g["start"]]
        allowed = {w["val"] for w in ws if w["start"] < g["ret"] and not any(w["ret"] < w2["start"] for w2 in done)}
        if g["val"] not in allowed:
            fails.append(dict(clause="a read issued after a completed write returns that write's value or a later one",
                              component="SoftTTLCache", key=o[2], got=g["val"], allowed=sorted(allowed, key=str), get_op=oid))
            break
    return fails[:3]


def nontrivial_sttl(c, obs):
    return any(e["snap"]["stats"][2] > 0 or e["snap"]["stats"][7] > 0 for e in obs["log"][-1:])



# --------------------------------------------------------------------------- family: mt (MultiTierCache)
IMPORTS_MT = "From HS Require Import Base.Prelude C16.Model C16.ModelMT."


def gen_mt(rng):
    k1, p1 = gen_kind(rng)
    k2, p2 = gen_kind(rng)
    if k1 == "ttl":
        p1 = rng.choice([2, 8, 30, 200])
    if k2 == "ttl":
        p2 = rng.choice([2, 8, 30, 200])
    nkeys = rng.randint(2, 5)
    lat = dict(c1=1, c2=rng.choice([2, 3]), r=rng.choice([6, 10]), w=rng.choice([4, 5, 12]), d=rng.choice([7, 9]))
    style = rng.choice(["sequential", "overlap", "overlap", "burst"])
    ops, t, val = [], 0, 100
    for _ in range(rng.randint(3, 24)):
        if style == "sequential":
            t += 45
        elif style == "overlap":
            t += rng.choice([0, 1, 1, 2, 3, 4, 6, 9, 15])
        else:
            t += rng.choice([0, 0, 1, 30])
        k = rng.randrange(nkeys)
        r = rng.random()
        if r < 0.40:
            ops.append([t, "get", k])
        elif r < 0.66:
            val += 1
            ops.append([t, "put", k, val])
        elif r < 0.74:
            ops.append([t, "del", k])
        elif r < 0.80:
            ops.append([t, "inv", k])
        elif r < 0.83:
            ops.append([t, "invall"])
        else:
            ops.append([t, "l2get", k])
    t += 60
    for k in range(nkeys):
        ops.append([t, "get", k])
        t += 45
    init = {str(k): 10 + k for k in range(nkeys) if rng.random() < 0.6}
    return dict(k1=k1, p1=p1, k2=k2, p2=p2, seed=rng.randrange(1000), cap1=rng.randint(1, 2), cap2=rng.randint(1, 3),
                wt1=rng.random() < 0.6, promote=rng.choice(["always", "on_second_access", "never"]),
                lat=lat, init=init, ops=ops, style=style)


def _tier_snap(kind, t):
    return dict(cache=[[unk(k), -1 if v is None else v] for k, v in t._cache.items()],
                dirty=sorted(unk(k) for k in t._dirty_keys), view=policy_view(kind, t._eviction_policy),
                stats=[t._reads, t._writes, t._hits, t._misses, t._evictions, t._writebacks], size=t.cache_size)


def impl_mt(c):
    from happysimulator.components.datastore.cached_store import CachedStore
    from happysimulator.components.datastore.kv_store import KVStore
    from happysimulator.components.datastore.multi_tier_cache import MultiTierCache
    from happysimulator.core.entity import Entity
    from happysimulator.core.event import Event
    from happysimulator.core.simulation import Simulation
    from happysimulator.core.temporal import Instant
    from hsverif.util import run_bounded

    lat = c["lat"]
    log = []
    holder = {}

    def tick():
        return holder["drv"].now.nanoseconds // 1000

    pol1 = make_policy(c["k1"], c["p1"], c["seed"], tick)
    pol2 = make_policy(c["k2"], c["p2"], c["seed"] + 1, tick)
    backing = KVStore("backing", read_latency=lat["r"] * UNIT, write_latency=lat["w"] * UNIT, delete_latency=lat["d"] * UNIT)
    for k, v in c["init"].items():
        backing.put_sync(K(k), v)
    t1 = CachedStore("l1", backing, c["cap1"], pol1, cache_read_latency=lat["c1"] * UNIT, write_through=c["wt1"])
    t2 = CachedStore("l2", backing, c["cap2"], pol2, cache_read_latency=lat["c2"] * UNIT, write_through=True)
    mt = MultiTierCache("mt", [t1, t2], backing, promotion_policy=c["promote"])

    def draws():
        out = []
        for p in (pol1, pol2):
            r = getattr(p, "_rng", None)
            if isinstance(r, RecRng):
                out += r.take()
        return out

    def snap():
        st = mt.stats
        return dict(l1=_tier_snap(c["k1"], t1), l2=_tier_snap(c["k2"], t2),
                    back=[[unk(k), -1 if v is None else v] for k, v in backing._data.items()],
                    counts=[[unk(k), n] for k, n in mt._access_counts.items()],
                    stats=[st.reads, st.writes, st.tier_hits.get(0, 0), st.tier_hits.get(1, 0), st.backing_store_hits,
                           st.misses, st.promotions])

    class Driver(Entity):
        def handle_event(self, ev):
            oid = ev.context["oid"]
            o = c["ops"][oid]
            name = o[1]
            if name == "get":
                gen = mt.get(K(o[2]))
            elif name == "put":
                gen = mt.put(K(o[2]), o[3])
            elif name == "del":
                gen = mt.delete(K(o[2]))
            elif name == "l2get":
                gen = t2.get(K(o[2]))
            else:
                if name == "inv":
                    mt.invalidate(K(o[2]))
                else:
                    mt.invalidate_all()
                log.append(dict(oid=oid, seg=0, now=tick(), kind="ret", val=None, draws=draws(), snap=snap()))
                return
            seg = 0
            while True:
                try:
                    d = next(gen)
                except StopIteration as e:
                    v = e.value
                    if isinstance(v, bool):
                        v = int(v)
                    log.append(dict(oid=oid, seg=seg, now=tick(), kind="ret", val=v, draws=draws(), snap=snap()))
                    return
                log.append(dict(oid=oid, seg=seg, now=tick(), kind="yield", val=round(d / UNIT), draws=draws(), snap=snap()))
                seg += 1
                yield d

    drv = Driver("driver")
    holder["drv"] = drv
    sim = Simulation(entities=[backing, t1, t2, mt, drv])
    for oid, o in enumerate(c["ops"]):
        sim.schedule(Event(time=Instant.from_seconds(o[0] * UNIT), event_type="op", target=drv, context={"oid": oid}))
    _, verdict = run_bounded(sim, wall_s=20.0)
    return dict(log=log, verdict=verdict)


def _tier_term(s):
    return (_pairs(s["cache"]), _zl(s["dirty"]), [_zl(v) for v in s["view"]], s["stats"])


def encode_mt(c, obs):
    tr = []
    for e in obs["log"]:
        o = c["ops"][e["oid"]]
        if e["seg"] == 0:
            op = {"get": lambda: Ctor("MGet", o[2]), "put": lambda: Ctor("MPut", o[2], o[3]),
                  "del": lambda: Ctor("MDel", o[2]), "inv": lambda: Ctor("MInv", o[2]),
                  "invall": lambda: Ctor("MInvAll"), "l2get": lambda: Ctor("ML2Get", o[2])}[o[1]]()
            act = Ctor("MStart", e["oid"], op)
        else:
            act = Ctor("MResume", e["oid"])
        dr = e["draws"] if e["draws"] else Raw("(@nil (list Z))")
        inp = Ctor("Build_minput", e["now"], dr, act)
        out = Ctor("OYield", e["val"]) if e["kind"] == "yield" else Ctor("ORet", None if e["val"] is None else SomeV(e["val"]))
        s = e["snap"]
        tr.append((inp, out, (_tier_term(s["l1"]), _tier_term(s["l2"]), _pairs(s["back"]), _pairs(s["counts"]), s["stats"])))
    lat = c["lat"]
    cf1 = Ctor("Build_cfg", c["cap1"], c["wt1"], lat["c1"], lat["r"], lat["w"], lat["d"])
    cf2 = Ctor("Build_cfg", c["cap2"], True, lat["c2"], lat["r"], lat["w"], lat["d"])
    pr = Ctor({"always": "PAlways", "on_second_access": "PSecond", "never": "PNever"}[c["promote"]])
    b0 = _pairs([[int(k), v] for k, v in c["init"].items()])
    return term((kind_term(c["k1"], c["p1"]), kind_term(c["k2"], c["p2"]), Ctor("Build_mcfg", cf1, cf2, pr), b0,
                 tr if tr else Raw("[]")))


WHAT["mt-stale-install"] = ("MultiTierCache.get installs a value it read earlier (tier-2 hit to promote, or a backing read to "
                            "cache) into tier 1 after a put/delete of the same key has gone through")


def oracle_mt(c, obs):
    fails = []
    log, ops = obs["log"], c["ops"]
    if obs["verdict"] != "ok":
        return [dict(clause="run terminates", verdict=obs["verdict"])]
    info = {}
    for idx, e in enumerate(log):
        d = info.setdefault(e["oid"], dict(start=idx, ret=None, val=None, segs=[]))
        d["segs"].append(idx)
        if e["kind"] == "ret":
            d["ret"], d["val"] = idx, e["val"]
    if len(info) != len(ops) or any(d["ret"] is None for d in info.values()):
        return [dict(clause="every operation completes")]
    for idx, e in enumerate(log):
        for name, kind, cap in (("l1", c["k1"], c["cap1"]), ("l2", c["k2"], c["cap2"])):
            s = e["snap"][name]
            keys = [x[0] for x in s["cache"]]
            if s["size"] > cap or len(keys) > cap:
                fails.append(dict(clause="capacity: cache holds at most its capacity", tier=name, step=idx))
            tk = tracked_keys(kind, s["view"])
            if sorted(tk) != sorted(keys) or len(set(tk)) != len(tk):
                fails.append(dict(clause="policy keys are exactly the cached keys", tier=name, step=idx))
        if fails:
            return fails[:2]
    # read-after-write through the multi-tier API (tier 1 write-through only: write-back tiers keep
    # data away from the backing store by design until flushed)
    writes = {}
    for oid, o in enumerate(ops):
        if o[1] in ("put", "del"):
            writes.setdefault(o[2], []).append(dict(start=info[oid]["start"], ret=info[oid]["ret"],
                                                    val=o[3] if o[1] == "put" else None, oid=oid))
    for k in range(6):
        writes.setdefault(k, []).append(dict(start=-2, ret=-1, val=c["init"].get(str(k)), oid=-1))
    for oid, o in enumerate(ops):
        if o[1] != "get":
            continue
        g = info[oid]
        ws = writes[o[2]]
        done = [w for w in ws if w["ret"] < g["start"]]
        allowed = {w["val"] for w in ws if w["start"] < g["ret"] and not any(w["ret"] < w2["start"] for w2 in done)}
        if g["val"] not in allowed:
            # a get (through mt or directly on tier 2) of this key that was in flight across a write of it
            mech = "stale-read"
            for goid, o2 in enumerate(ops):
                if o2[1] in ("get", "l2get") and o2[2] == o[2] and info[goid]["ret"] <= g["ret"]:
                    gi = info[goid]
                    if any(w["oid"] >= 0 and w["start"] < gi["ret"] and gi["start"] < w["ret"] for w in ws):
                        mech = "mt-stale-install"
            fails.append(dict(clause="a read issued after a completed write returns that write's value or a later one",
                              component="MultiTierCache", mechanism=mech, key=o[2], got=g["val"],
                              allowed=sorted(allowed, key=str), get_op=oid, what=WHAT.get(mech, "")))
            break
    return fails


def attribute_mt(c, obs, f):
    return {"mt-stale-install": "C16-mt-stale-install"}.get(f.get("mechanism"))



# --------------------------------------------------------------------------- family: pcache (PageCache)
IMPORTS_PC = "From HS Require Import Base.Prelude C16.Model C16.ModelPC."


def gen_pc(rng):
    cap = rng.choice([1, 2, 3, 3, 4, 6])      # (room for read-ahead next to dirty pages)
    ra = rng.choice([0, 0, 1, 2])
    lat = dict(r=rng.choice([3, 4]), w=rng.choice([5, 6, 9]))
    style = rng.choice(["sequential", "overlap", "overlap"])
    npages = rng.randint(2, 6)
    ops, t = [], 0
    for _ in range(rng.randint(2, 22)):
        r = rng.random()
        if r < 0.08:
            # flush only while nothing else runs (its iteration over the live dict is not modelled under overlap)
            t += 120
            ops.append([t, "flush"])
            t += 120
            continue
        t += 60 if style == "sequential" else rng.choice([0, 1, 1, 2, 3, 5, 8, 13])
        ops.append([t, "read" if r < 0.55 else "write", rng.randrange(npages)])
    return dict(cap=cap, ra=ra, lat=lat, ops=ops, style=style)


def impl_pc(c):
    from happysimulator.components.infrastructure.page_cache import PageCache
    from happysimulator.core.entity import Entity
    from happysimulator.core.event import Event
    from happysimulator.core.simulation import Simulation
    from happysimulator.core.temporal import Instant
    from hsverif.util import run_bounded

    lat = c["lat"]
    pc = PageCache("pc", capacity_pages=c["cap"], readahead_pages=c["ra"],
                   disk_read_latency_s=lat["r"] * UNIT, disk_write_latency_s=lat["w"] * UNIT)
    log = []

    def snap():
        st = pc.stats
        return dict(ids=list(pc._pages.keys()), dirty=[1 if p.dirty else 0 for p in pc._pages.values()],
                    stats=[st.hits, st.misses, st.evictions, st.dirty_writebacks, st.readaheads],
                    cached=pc.pages_cached)

    class Driver(Entity):
        def handle_event(self, ev):
            oid = ev.context["oid"]
            o = c["ops"][oid]
            gen = pc.flush() if o[1] == "flush" else (pc.read_page(o[2]) if o[1] == "read" else pc.write_page(o[2]))
            seg = 0
            while True:
                try:
                    d = next(gen)
                except StopIteration as e:
                    log.append(dict(oid=oid, seg=seg, kind="ret", val=e.value, snap=snap()))
                    return
                except (KeyError, RuntimeError) as e:
                    log.append(dict(oid=oid, seg=seg, kind="exc", val=type(e).__name__, snap=snap()))
                    return
                log.append(dict(oid=oid, seg=seg, kind="yield", val=round(d / UNIT), snap=snap()))
                seg += 1
                yield d

    drv = Driver("driver")
    sim = Simulation(entities=[pc, drv])
    for oid, o in enumerate(c["ops"]):
        sim.schedule(Event(time=Instant.from_seconds(o[0] * UNIT), event_type="op", target=drv, context={"oid": oid}))
    _, verdict = run_bounded(sim, wall_s=20.0)
    return dict(log=log, verdict=verdict)


def encode_pc(c, obs):
    tr = []
    for e in obs["log"]:
        o = c["ops"][e["oid"]]
        if e["seg"] == 0:
            op = Ctor("PFlush") if o[1] == "flush" else Ctor("PRead" if o[1] == "read" else "PWrite", o[2])
            act = Ctor("PStart", e["oid"], op)
        else:
            act = Ctor("PResume", e["oid"])
        if e["kind"] == "yield":
            out = Ctor("OYield", e["val"])
        elif e["kind"] == "ret":
            out = Ctor("ORet", None if e["val"] is None else SomeV(e["val"]))
        else:
            out = Ctor("ONone")
        s = e["snap"]
        tr.append((act, out, (_zl(s["ids"]), _zl(s["dirty"]), s["stats"])))
    lat = c["lat"]
    return term((Ctor("Build_pcfg", c["cap"], c["ra"], lat["r"], lat["w"]), tr if tr else Raw("[]")))


WHAT["pc-overlap"] = ("PageCache operations that overlap: _load_page checks for room before the disk-read latency and inserts "
                      "after it (capacity exceeded, a dirty page replaced by a clean one), and two evictions of the same "
                      "dirty page both delete it (KeyError)")


def oracle_pc(c, obs):
    fails = []
    log, ops = obs["log"], c["ops"]
    if obs["verdict"] != "ok":
        return [dict(clause="run terminates", verdict=obs["verdict"])]
    span = {}
    for idx, e in enumerate(log):
        a = span.setdefault(e["oid"], [idx, idx])
        a[1] = idx
    def overlapped(x):
        return any(y != x and span[y][0] < span[x][1] and span[x][0] < span[y][1] for y in span)
    prev = dict(ids=[], dirty=[], stats=[0, 0, 0, 0, 0])
    tainted = False
    for idx, e in enumerate(log):
        tainted = tainted or overlapped(e["oid"])      # an overlap happened up to here: the state may be corrupted
        mech = "pc-overlap" if tainted else "pc-sequential"
        s = e["snap"]
        if e["kind"] == "exc" and not any(f["clause"].startswith("no exception") for f in fails):
            fails.append(dict(clause="no exception escapes a page-cache operation", mechanism=mech, step=idx, exc=e["val"],
                              what=WHAT.get(mech, "")))
        if (s["cached"] > c["cap"] or len(s["ids"]) > c["cap"]) and not any(f["clause"].startswith("capacity") for f in fails):
            fails.append(dict(clause="capacity: cache holds at most its capacity", component="PageCache", mechanism=mech,
                              step=idx, pages=s["ids"], cap=c["cap"], what=WHAT.get(mech, "")))
        pd = dict(zip(prev["ids"], prev["dirty"]))
        sd = dict(zip(s["ids"], s["dirty"]))
        lost = [p for p, d in pd.items() if d and not sd.get(p)]
        if len(lost) > s["stats"][3] - prev["stats"][3] and not any(f["clause"].startswith("write-back") for f in fails):
            fails.append(dict(clause="write-back data is never discarded before it reaches the backing store",
                              component="PageCache", mechanism=mech, step=idx, lost=lost, what=WHAT.get(mech, "")))
        prev = s
    return fails


def attribute_pc(c, obs, f):
    return {"pc-overlap": "C16-pagecache-overlap"}.get(f.get("mechanism"))



# --------------------------------------------------------------------------- family: wpolicy (write_policies.py)
IMPORTS_WP = "From HS Require Import Base.Prelude C16.Model C16.ModelWP."


def gen_wp(rng):
    kind = rng.choice(["through", "back", "back", "around"])
    ops = []
    for _ in range(rng.randint(1, 25)):
        r = rng.random()
        if r < 0.6:
            ops.append(["write", rng.randrange(5)])
        elif r < 0.85:
            ops.append(["flush", [rng.randrange(5) for _ in range(rng.randint(0, 4))]])
        else:
            ops.append(["take"])
    return dict(kind=kind, max_dirty=rng.randint(1, 4), ops=ops)


def impl_wp(c):
    from happysimulator.components.datastore import write_policies as wp
    p = {"through": wp.WriteThrough, "around": wp.WriteAround}.get(c["kind"], lambda: wp.WriteBack(max_dirty=c["max_dirty"]))()
    out = []
    for o in c["ops"]:
        taken = None
        if o[0] == "write":
            p.on_write(K(o[1]), 0)
        elif o[0] == "flush":
            p.on_flush([K(k) for k in o[1]])
        elif hasattr(p, "get_keys_to_invalidate"):
            taken = [unk(k) for k in p.get_keys_to_invalidate()]
        inval = [unk(k) for k in getattr(p, "_invalidated_keys", [])]
        out.append(dict(wt=bool(p.should_write_through()), sf=bool(p.should_flush()),
                        keys=sorted(unk(k) for k in p.get_keys_to_flush()), inval=inval, taken=taken))
    return out


def encode_wp(c, obs):
    kd = {"through": Ctor("WThrough"), "back": Ctor("WBack", c["max_dirty"]), "around": Ctor("WAround")}[c["kind"]]
    tr = []
    for o, r in zip(c["ops"], obs):
        op = Ctor("WOnWrite", o[1]) if o[0] == "write" else (Ctor("WOnFlush", _zl(o[1])) if o[0] == "flush" else Ctor("WTakeInval"))
        tr.append((op, (r["wt"], r["sf"], _zl(r["keys"]), _zl(r["inval"]))))
    return term((kd, tr if tr else Raw("[]")))


def oracle_wp(c, obs):
    """WriteBack: a written key stays pending until a flush names it."""
    if c["kind"] != "back":
        return []
    pending = set()
    for i, (o, r) in enumerate(zip(c["ops"], obs)):
        if o[0] == "write":
            pending.add(o[1])
        elif o[0] == "flush":
            pending -= set(o[1])
        if sorted(pending) != r["keys"]:
            return [dict(clause="write-back policy: a written key is pending until it is flushed", step=i,
                         expected=sorted(pending), got=r["keys"])]
    return []


FAMILIES = [
    Family("policy", IMPORTS, "ok_policy", "pkind * list (pop_ * option Z * list (list Z))", gen_policy, impl_policy,
           encode_policy, oracle_policy, lambda c, o: any(x[0] == "evict" for x in c["ops"]),
           describe=lambda c: c["kind"]),
    Family("cached", IMPORTS, "ok_cache", "cache_case", gen_cached, impl_cached,
           encode_cached, oracle_cached, nontrivial_cached, attribute_cached, parallel=True,
           describe=lambda c: f"{c['kind']},{'wt' if c['wt'] else 'wb'},{c['style']}"),
    Family("sttl", IMPORTS_TTL, "ok_sttl", "sttl_case", gen_sttl, impl_sttl,
           encode_sttl, oracle_sttl, nontrivial_sttl, parallel=True,
           describe=lambda c: f"cap={c['cap']},{c['style']},{'ext' if c['external'] else 'own'}"),
    Family("mt", IMPORTS_MT, "ok_mt", "mt_case", gen_mt, impl_mt,
           encode_mt, oracle_mt, lambda c, o: any(e["snap"]["stats"][3] > 0 or e["snap"]["stats"][6] > 0 for e in o["log"][-1:]),
           attribute_mt, parallel=True,
           describe=lambda c: f"{c['promote']},{'wt' if c['wt1'] else 'wb'},{c['style']}"),
    Family("pcache", IMPORTS_PC, "ok_pc", "pc_case", gen_pc, impl_pc,
           encode_pc, oracle_pc, lambda c, o: any(e["snap"]["stats"][2] > 0 for e in o["log"][-1:]),
           attribute_pc, parallel=True,
           describe=lambda c: f"cap={c['cap']},ra={c['ra']},{c['style']}"),
    Family("wpolicy", IMPORTS_WP, "ok_wp", "wkind * list (wop * wobs)", gen_wp, impl_wp,
           encode_wp, oracle_wp, lambda c, o: any(x[0] == "flush" for x in c["ops"]), describe=lambda c: c["kind"]),
]

PROOF_FILES = ["C16/Model.v", "C16/Lists.v", "C16/Policies.v", "C16/Store.v", "C16/Races.v", "C16/Seq.v", "C16/ModelTTL.v", "C16/SoftTTL.v", "C16/ModelMT.v", "C16/MT.v", "C16/ModelPC.v", "C16/PC.v", "C16/ModelWP.v",
               "Base/PyLib.v", "Gen/EvictionGen.v", "C16/GenTie.v", "C16/Props.v"]

TRUSTED = [
    "translator harness/translate/py2coq.py + declared types (py2coq_targets.py EvictionGen): LRUEviction, FIFOEviction and LFUEviction are regenerated from "
    "components/datastore/eviction_policies.py on every run and proved to act on the tracked keys as the model policies lru / fifo / lfu (C16/GenTie.v); "
    "idioms trusted: cache keys are integers, an (Ordered)dict is an insertion-ordered association list (d[k] = None stores 0, move_to_end / "
    "list.remove only under a membership guard, next(iter(d)) is the first key, del d[k] raises on a missing key); min(d.values()) raises on an empty dict, a loop over d.items() may modify d only when it leaves the loop at once); the other six policies are hand-modelled",
    "Coq 8.16.1 kernel (coqc, vm_compute for refutation witnesses and case evaluation); no native_compute",
    "axioms: none",
    "correspondence harness harness/props/c16.py (generators, hand-stepping driver entity, observers, in-Coq comparison ok_* of C16/Model.v)",
    "the engine's scheduling of generator segments is not modelled: theorems quantify over every interleaving of segments (a superset of the engine's)",
]


def _fast_coq_cases(ctx):
    """Smaller shards than the framework default: the case terms carry a full state
    snapshot per segment, and parsing them dominates the Coq time."""
    from hsverif import coq

    def coq_cases(tag, imports, ok_fn, case_type, cases):
        return coq.eval_cases(f"{ctx.pid}_{tag}", imports, ok_fn, case_type, cases, shard=12, workers=12, timeout=900)
    ctx.coq_cases = coq_cases


def run(ctx):
    _fast_coq_cases(ctx)
    from props import pygen
    ok, info = pygen.regenerate("EvictionGen")    # LRUEviction / FIFOEviction translated from $HS_REPO by py2coq
    ctx.coverage["regenerated"] = info
    ctx.prove(PROOF_FILES, allowed_axioms=(), trusted_base=TRUSTED)
    if not ok and ctx.pending_obligation_violation:
        ctx.pending_obligation_violation["translator"] = info.get("error")
    counts = [ctx.n(80, 1000), ctx.n(50, 500), ctx.n(50, 500), ctx.n(40, 400), ctx.n(50, 500), ctx.n(60, 600)]
    # The families are independent; run them side by side (most of the time is spent waiting for coqc and for
    # the worker processes).  Each family draws from its own generator derived from the run's seed, so the
    # inputs do not depend on thread scheduling.
    import dataclasses
    import json as _json
    from concurrent.futures import ThreadPoolExecutor
    from hsverif.family import load_corpus, run_impl

    # 1. generate every family's inputs (own generator per family, derived from the run's seed) and run the
    #    implementation on them in worker processes, from the main thread.
    plans = []
    for fam, n in zip(FAMILIES, counts):
        own = random.Random(f"{ctx.seed}/{ctx.tier}/{fam.name}")
        cases = [fam.gen(own) for _ in range(n)]
        corpus = load_corpus(ctx.pid, fam.name)
        results = run_impl(fam, corpus + cases)
        plans.append((fam, n, own, cases, corpus, results))
    ctx.log("implementation runs done")

    # 2. encode / compare inside Coq / evaluate the oracle, the families side by side (threads only wait for coqc).
    def one(plan):
        fam, n, own, cases, corpus, results = plan
        memo = {_json.dumps(c, sort_keys=True): r for c, r in zip(corpus + cases, results)}
        queue = list(cases)

        def gen(_rng):
            return queue.pop(0) if queue else fam.gen(own)

        def impl(c):
            r = memo.get(_json.dumps(c, sort_keys=True))
            if r is None:
                # only reached by the search after a correspondence break: run it in a fresh process
                # (signal-based watchdogs need a main thread; forking from a thread can deadlock)
                import multiprocessing
                from concurrent.futures import ProcessPoolExecutor
                with ProcessPoolExecutor(max_workers=1, mp_context=multiprocessing.get_context("spawn")) as px:
                    return px.submit(fam.impl, c).result(timeout=120)
            if "exc" in r:
                raise RuntimeError(r["exc"])
            return r["ok"]

        fam2 = dataclasses.replace(fam, gen=gen, impl=impl, parallel=False)
        st = run_family(ctx, fam2, n)
        ctx.log(f"family {fam.name}: cases={st['cases']} mismatches={st['mismatches']} "
                f"oracle_failures={st['oracle_failures']} known={st['known']}")
        return st

    with ThreadPoolExecutor(max_workers=len(FAMILIES)) as ex:
        stats = list(ex.map(one, plans))
    merge_stats(ctx, stats, "random structured op sequences / timed workloads over 2-6 keys with capacity 1-3; non-trivial = the case evicts (policy, cached, pcache), serves a stale hit or evicts (sttl), hits tier 2 or promotes (mt), flushes (wpolicy); distinct by JSON of the input")
    ctx.finish_obligations()
    ctx.assumptions += [
        "read-after-write is proved for non-overlapping operations (c16_sequential_read_after_write_partial) and refuted for a miss-fill overlapping a write (C16-fill-race, C16-mt-stale-install); the oracle checks it on every generated interleaving",
        "write-back preservation is proved per segment except explicit invalidation and the two recorded races (c16_writeback_preserved_partial); invalidate of a dirty key and flush-vs-put are known findings",
        "soft-TTL hard bound is about the age at the instant a segment decides to serve a cached entry (the value is handed over after cache_read_latency)",
        "PageCache: capacity theorem for non-overlapping operations only; overlapping operations exceed capacity (C16-pagecache-overlap); flush overlapping other operations is not modelled",
        "MultiTierCache sequential write visibility is checked by the oracle only (no theorem); CacheWarmer is not modelled",
    ]


def replay(data):
    fam = {f.name: f for f in FAMILIES}[data["detail"]["family"]]
    c = data["detail"]["case"]
    obs = fam.impl(c)
    fails = fam.oracle(c, obs)
    print("oracle failures:", fails)
    return 1 if fails else 0
