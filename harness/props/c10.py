"""C10 — rate limiters never over-admit and report time-until-available truthfully.

Tie to /repo: generated operation sequences are executed on the real policy
objects (TokenBucket/LeakyBucket/SlidingWindow/FixedWindow/Adaptive), and on
RateLimitedEntity / Inductor / NullRateLimiter / DistributedRateLimiter inside
real Simulations; observations (result of every call and the policy state after
every call; every handle_event input, outputs and post-state) are compared
inside Coq with coq/C10/Model.v (ok_* functions):

* `<policy>_q` families: inputs on the dyadic grid, compared with the exact
  rational instance (the one the theorems are about);
* `<policy>_f` families: arbitrary inputs, compared with the binary64 instance.

The oracle evaluates the C10 statement on the implementation's observations.

Private attributes read: TokenBucketPolicy._tokens/_last_refill_time,
LeakyBucketPolicy._last_leak_time, SlidingWindowPolicy._request_log,
FixedWindowPolicy._current_window_start/_current_window_count,
AdaptivePolicy._current_rate/_tokens/_last_refill_time/_increase_step,
RateLimitedEntity._queue/_poll_scheduled, Inductor._queue/_poll_scheduled/
_smoothed_interval/_last_arrival_time/_last_output_time.
"""
from __future__ import annotations

import math
from fractions import Fraction

from hsverif.coq import Ctor, Raw, SomeV, term
from hsverif.family import Family, merge_stats, run_family

IMPORTS = "From Coq Require Import QArith Floats.\nFrom HS Require Import Base.Prelude C10.Model."
LEVEL = "proof"
GRID = 1953125          # 2^-9 s in ns
NS = 1_000_000_000


# --------------------------------------------------------------------------- term encoder
def tm(v) -> str:
    """hsverif.coq.term with lists written as cons chains: Coq parses the recursive list
    notation [a; b; ...] several times slower on the long traces of this property."""
    if isinstance(v, Raw):
        return str(v)
    if isinstance(v, list):
        return "(" + "".join(f"cons {tm(a)} (" for a in v) + "nil" + ")" * len(v) + ")"
    if isinstance(v, tuple):
        return "(" + ", ".join(tm(a) for a in v) + ")"
    if isinstance(v, Ctor):
        return "(" + v.name + " " + " ".join(tm(a) for a in v.args) + ")" if v.args else v.name
    if isinstance(v, SomeV):
        return f"(Some {tm(v.v)})"
    return term(v)


# --------------------------------------------------------------------------- number encoders
def numq(x) -> Raw:
    fr = Fraction(x)
    n, d = fr.numerator, fr.denominator
    return Raw(f"(({n}) # {d})%Q" if n < 0 else f"({n} # {d})%Q")


def numf(x) -> Raw:
    x = float(x)
    if x != x or x in (math.inf, -math.inf):
        raise ValueError("non-finite float in observation")
    n, d = x.as_integer_ratio()
    e = -(d.bit_length() - 1)
    while n % 2 == 0 and n != 0:
        n //= 2
        e += 1
    if abs(n) >= 2 ** 62:
        raise ValueError("mantissa too large")
    return Raw(f"(fl ({n}) ({e}))")


def opt(t):
    return None if t is None else SomeV(t)


# --------------------------------------------------------------------------- policy adapters
class Kind:
    name = ""
    ntype = {"q": "Q", "f": "float"}

    def make(self, p): ...
    def snap(self, pol): ...
    def params_term(self, p, num): ...
    def state_term(self, st, num): ...
    def case_type(self, inst): ...

    def op_term(self, op, t):
        return Ctor(op, t)


def _ns(i):
    return None if i is None else i.nanoseconds


class TB(Kind):
    name = "tb"

    def make(self, p):
        from happysimulator.components.rate_limiter.policy import TokenBucketPolicy
        return TokenBucketPolicy(p["cap"], p["rate"], p.get("init"))

    def snap(self, pol):
        return [pol._tokens, _ns(pol._last_refill_time)]

    def params_term(self, p, num):
        init = p["cap"] if p.get("init") is None else p["init"]
        return (num(p["cap"]), num(p["rate"]), num(init))

    def state_term(self, st, num):
        return (num(st[0]), opt(st[1]))

    def case_type(self, inst):
        n = self.ntype[inst]
        return f"({n} * {n} * {n}) * list (pop * (Z * ({n} * option Z)))"


class LK(Kind):
    name = "lk"

    def make(self, p):
        from happysimulator.components.rate_limiter.policy import LeakyBucketPolicy
        return LeakyBucketPolicy(p["rate"])

    def snap(self, pol):
        return _ns(pol._last_leak_time)

    def params_term(self, p, num):
        return num(p["rate"])

    def state_term(self, st, num):
        return opt(st)

    def case_type(self, inst):
        return f"{self.ntype[inst]} * list (pop * (Z * option Z))"


class SW(Kind):
    name = "sw"

    def make(self, p):
        from happysimulator.components.rate_limiter.policy import SlidingWindowPolicy
        return SlidingWindowPolicy(p["w"], p["n"])

    def snap(self, pol):
        return [t.nanoseconds for t in pol._request_log]

    def params_term(self, p, num):
        return (num(p["w"]), p["n"])

    def state_term(self, st, num):
        return list(st)

    def case_type(self, inst):
        return f"({self.ntype[inst]} * Z) * list (pop * (Z * list Z))"


class FW(Kind):
    name = "fw"

    def make(self, p):
        from happysimulator.components.rate_limiter.policy import FixedWindowPolicy
        return FixedWindowPolicy(p["n"], p["w"])

    def snap(self, pol):
        return [_ns(pol._current_window_start), pol._current_window_count]

    def params_term(self, p, num):
        return (num(p["w"]), p["n"])

    def state_term(self, st, num):
        return (opt(st[0]), st[1])

    def case_type(self, inst):
        return f"({self.ntype[inst]} * Z) * list (pop * (Z * (option Z * Z)))"


class AD(Kind):
    name = "ad"

    def make(self, p):
        from happysimulator.components.rate_limiter.policy import AdaptivePolicy
        return AdaptivePolicy(p["r0"], p["min"], p["max"], p.get("inc"), p["dec"], p["win"])

    def snap(self, pol):
        return [pol._current_rate, pol._tokens, _ns(pol._last_refill_time)]

    def params_term(self, p, num):
        inc = p["inc"] if p.get("inc") is not None else p["r0"] * 0.1
        return (num(p["min"]), num(p["max"]), num(inc), num(p["dec"]), num(p["win"]), num(p["r0"]))

    def state_term(self, st, num):
        return (num(st[0]), num(st[1]), opt(st[2]))

    def op_term(self, op, t):
        return Ctor("ACall", Ctor(op, t)) if op in ("Acq", "Tua") else Ctor(op, t)

    def case_type(self, inst):
        n = self.ntype[inst]
        return f"({n} * {n} * {n} * {n} * {n} * {n}) * list (aop * (Z * ({n} * {n} * option Z)))"


KINDS = {k.name: k for k in [TB(), LK(), SW(), FW(), AD()]}


# --------------------------------------------------------------------------- implementation driver
def impl_policy(c):
    """Run the relative op list on the real policy; returns the realised trace
    [[op, t_ns, result, state]...] plus drain records."""
    from happysimulator.core.temporal import Instant
    kind = KINDS[c["kind"]]
    pol = kind.make(c["params"])
    cur = c.get("t0", 0)
    tr, drains = [], []

    def acq():
        r = 1 if pol.try_acquire(Instant(cur)) else 0
        tr.append(["Acq", cur, r, kind.snap(pol)])
        return r

    def tua():
        w = pol.time_until_available(Instant(cur)).nanoseconds
        tr.append(["Tua", cur, w, kind.snap(pol)])
        return w

    for o in c["ops"]:
        cur = max(0, cur + o[1])
        if o[0] == "acq":
            acq()
        elif o[0] == "tua":
            tua()
        elif o[0] == "probe":
            tua()
            acq()
        elif o[0] == "drain":
            start, waits = len(tr), 0
            while waits <= 6:
                w = tua()
                if w == 0:
                    break
                waits += 1
                cur += w
            ok = acq() if waits <= 6 else 0
            drains.append(dict(start=start, waits=waits, acquired=ok))
        elif o[0] == "succ":
            pol.record_success(Instant(cur))
            tr.append(["RecS", cur, 0, kind.snap(pol)])
        elif o[0] == "fail":
            pol.record_failure(Instant(cur))
            tr.append(["RecF", cur, 0, kind.snap(pol)])
    return dict(trace=tr, drains=drains)


def encode_policy(c, obs):
    kind = KINDS[c["kind"]]
    num = numq if c["inst"] == "q" else numf
    tr = [(kind.op_term(op, t), (r, kind.state_term(st, num))) for op, t, r, st in obs["trace"]]
    return tm((kind.params_term(c["params"], num), tr))


# --------------------------------------------------------------------------- property oracle
MAX_WAITS = 3      # "within a few steps"


def monotone(tr):
    return all(tr[i][1] <= tr[i + 1][1] for i in range(len(tr) - 1))


def oracle_tua(c, obs, feedback_breaks=False, can_admit=True):
    """tua == 0 => immediate acquire succeeds; tua = w > 0 => no acquire succeeds before
    now + w; drains reach an admitting instant within MAX_WAITS waits."""
    out = []
    tr = obs["trace"]
    for i, (op, t, r, _st) in enumerate(tr):
        if op != "Tua":
            continue
        for j in range(i + 1, len(tr)):
            op2, t2, r2, _ = tr[j]
            if feedback_breaks and op2 in ("RecS", "RecF"):
                break
            if t2 < t:
                break
            if r == 0:
                if t2 != t:
                    break
                if op2 == "Acq":
                    if r2 != 1:
                        out.append(dict(clause="time_until_available returned zero but an immediate acquire failed",
                                        at=t, index=i))
                    break
            else:
                if t2 >= t + r:
                    break
                if op2 == "Acq" and r2 == 1:
                    out.append(dict(clause="an acquire succeeded before the wait returned by time_until_available elapsed",
                                    at=t, wait=r, acquired_at=t2, index=i))
                    break
    for d in obs["drains"] if can_admit else []:
        if d["waits"] > MAX_WAITS or not d["acquired"]:
            out.append(dict(clause="repeatedly waiting the returned duration did not reach an admitting instant within a few steps",
                            drain=d))
    return out[:3]


def admitted_times(tr):
    return [t for op, t, r, _ in tr if op == "Acq" and r == 1]


def oracle_tb(c, obs):
    out = []
    tr = obs["trace"]
    p = c["params"]
    if monotone(tr):
        A = admitted_times(tr)
        init = p["cap"] if p.get("init") is None else p["init"]
        B = Fraction(max(p["cap"], init))
        rate = Fraction(p["rate"])
        slack = Fraction(0) if c["inst"] == "q" else Fraction(1, 10 ** 6)
        for i in range(len(A)):
            for j in range(i, len(A)):
                if (j - i + 1) > B + rate * Fraction(A[j] - A[i], NS) + slack:
                    out.append(dict(clause="token bucket: admitted in [s,e] <= capacity + rate*(e-s)",
                                    s=A[i], e=A[j], admitted=j - i + 1))
                    return out + oracle_tua(c, obs)
        # a bucket whose capacity is below one token can never admit after its initial tokens are used
        out += oracle_tua(c, obs, can_admit=p["cap"] >= 1.0)
    return out


def fslack(c, x=Fraction(1, 10 ** 6)):
    return Fraction(0) if c["inst"] == "q" else x


def oracle_lk(c, obs):
    out = []
    tr = obs["trace"]
    if not monotone(tr):
        return out
    A = admitted_times(tr)
    rate = Fraction(c["params"]["rate"])
    for a, b in zip(A, A[1:]):
        # spacing >= 1/rate seconds (one part in 1e12 of float slack off the grid)
        if Fraction(b - a, NS) * rate < 1 - fslack(c, Fraction(1, 10 ** 12)):
            out.append(dict(clause="leaky bucket: consecutive admissions at least 1/rate apart", a=a, b=b))
            break
    return out + oracle_tua(c, obs)


def win_ns(w):
    return int(w * 1_000_000_000)


def oracle_sw(c, obs):
    out = []
    tr = obs["trace"]
    if not monotone(tr):
        return out
    A = admitted_times(tr)
    wn, n = win_ns(c["params"]["w"]), c["params"]["n"]
    for j in range(len(A)):
        k = sum(1 for t in A[:j + 1] if t >= A[j] - wn)
        if k > n:
            out.append(dict(clause="sliding window: at most N admitted in any window", window_end=A[j], admitted=k))
            break
    return out + oracle_tua(c, obs, can_admit=wn >= 1)


def oracle_fw(c, obs):
    out = []
    tr = obs["trace"]
    if not monotone(tr):
        return out
    A = admitted_times(tr)
    wn, n = max(1, win_ns(c["params"]["w"])), c["params"]["n"]
    per = {}
    for t in A:
        per[t // wn] = per.get(t // wn, 0) + 1
    bad = [k for k, v in per.items() if v > n]
    if bad:
        out.append(dict(clause="fixed window: at most N admitted per aligned window", window_index=bad[0], admitted=per[bad[0]]))
    for i in range(len(A)):
        k = sum(1 for t in A[i:] if t <= A[i] + wn)
        if k > 2 * n:
            out.append(dict(clause="fixed window: at most 2N admitted in any window-length interval", start=A[i], admitted=k))
            break
    return out + oracle_tua(c, obs)


def oracle_ad(c, obs):
    out = []
    tr = obs["trace"]
    p = c["params"]
    for op, t, r, st in tr:
        if not (p["min"] <= st[0] <= p["max"]):
            out.append(dict(clause="adaptive: rate stays within [min, max]", rate=st[0], at=t))
            return out
    if not monotone(tr):
        return out
    # bucket bound w.r.t. the largest rate in force up to the end of the interval
    win = Fraction(p["win"])
    rmax = Fraction(p["r0"])
    adm = []          # (time, rmax up to then)
    for op, t, r, st in tr:
        rmax = max(rmax, Fraction(st[0]))
        if op == "Acq" and r == 1:
            adm.append((t, rmax))
    for i in range(len(adm)):
        for j in range(i, len(adm)):
            R = adm[j][1]
            if (j - i + 1) > R * win + R * Fraction(adm[j][0] - adm[i][0], NS) + fslack(c):
                out.append(dict(clause="adaptive: admitted in [s,e] <= rate*window + rate*(e-s) for the largest rate in force",
                                s=adm[i][0], e=adm[j][0], admitted=j - i + 1))
                return out + oracle_tua(c, obs, feedback_breaks=True)
    return out + oracle_tua(c, obs, feedback_breaks=True, can_admit=p["min"] * p["win"] >= 1.0)


ORACLES = {"tb": oracle_tb, "lk": oracle_lk, "sw": oracle_sw, "fw": oracle_fw, "ad": oracle_ad}


def oracle_policy(c, obs):
    return ORACLES[c["kind"]](c, obs)


# --------------------------------------------------------------------------- generators
POW2 = [0.25, 0.5, 1.0, 2.0, 4.0, 8.0, 64.0]
DYAD = [0.0, 0.5, 1.0, 1.5, 2.0, 3.0, 4.25, 0.75, 1.0, 2.0, 5.0]


def gen_ops(rng, grid: bool, n=None, feedback=False):
    n = n or rng.randint(1, 24)
    style = rng.choice(["dense", "sparse", "mixed", "burst"])
    ops = []
    for _ in range(n):
        if style == "dense":
            k = rng.choice([0, 0, 0, 1, 1, 2])
        elif style == "sparse":
            k = rng.choice([64, 128, 512, 1024, 300, 700])
        elif style == "burst":
            k = 0 if rng.random() < 0.8 else rng.choice([256, 512, 1024])
        else:
            k = rng.choice([0, 0, 1, 2, 8, 64, 256, 512, 513, 511, 1024])
        if grid:
            dt = k * GRID
        else:
            dt = rng.choice([k * GRID, k * 1_000_000, k, k * 333_333, rng.randint(0, 3), rng.randint(0, 2 * NS),
                             k * 100_000_000, k * 100_000_000 + rng.choice([-1, 0, 1])])
        r = rng.random()
        if feedback and r < 0.25:
            ops.append([rng.choice(["succ", "fail"]), dt])
        elif r < 0.55:
            ops.append(["acq", dt])
        elif r < 0.7:
            ops.append(["tua", dt])
        elif r < 0.9 or grid:
            ops.append(["probe", dt])
        else:
            ops.append(["drain", dt])
    if not grid and rng.random() < 0.06:
        # malformed stream: time going backwards once (correspondence only; the oracle skips non-monotone runs)
        ops.insert(rng.randrange(len(ops) + 1), ["acq", -rng.randint(1, NS)])
    return ops


def gen_tb(inst):
    def g(rng):
        if inst == "q":
            p = dict(cap=rng.choice(DYAD[1:]), rate=rng.choice(POW2),
                     init=rng.choice([None, None, 0.0, 0.5, 1.0, 2.0, 8.0]))
            return dict(kind="tb", inst="q", params=p, t0=rng.choice([0, 0, GRID * 5, NS]), ops=gen_ops(rng, True))
        p = dict(cap=rng.choice([1.0, 1.0, 2.0, 3.0, 5.0, 10.0, 2.5, 1.1, 0.5, rng.uniform(1, 20)]),
                 rate=rng.choice([1.0, 3.0, 10.0, 7.0, 0.1, 1000.0, 1e6, 0.3, 2.0, rng.uniform(0.01, 5000)]),
                 init=rng.choice([None, None, None, 0.0, 0.7, 1.0, 12.0, rng.uniform(0, 3)]))
        return dict(kind="tb", inst="f", params=p, t0=rng.choice([0, 0, 1, NS, 123456789]), ops=gen_ops(rng, False))
    return g


def gen_lk(inst):
    def g(rng):
        if inst == "q":
            return dict(kind="lk", inst="q", params=dict(rate=rng.choice(POW2)), t0=rng.choice([0, GRID, NS]),
                        ops=gen_ops(rng, True))
        rate = rng.choice([1.0, 3.0, 10.0, 7.0, 0.1, 1000.0, 1e6, 1e9, 2e9, 0.3, 2, 5, rng.uniform(0.01, 5000)])
        return dict(kind="lk", inst="f", params=dict(rate=rate), t0=rng.choice([0, 0, 1, NS, 123456789]),
                    ops=gen_ops(rng, False))
    return g


def gen_win(kind, inst):
    def g(rng):
        if inst == "q":
            w = rng.choice([1, 2, 8, 64, 256, 512, 513, 1024]) / 512.0
            return dict(kind=kind, inst="q", params=dict(w=w, n=rng.randint(1, 4)), t0=rng.choice([0, GRID, NS]),
                        ops=gen_ops(rng, True))
        w = rng.choice([0.1, 0.1, 0.3, 1.0, 0.05, 1e-9, 2e-9, 0.7, 1, 2.5, 0.001, rng.uniform(1e-6, 3)])
        return dict(kind=kind, inst="f", params=dict(w=w, n=rng.randint(1, 5)), t0=rng.choice([0, 0, 1, NS, 300_000_000]),
                    ops=gen_ops(rng, False))
    return g


def _is_pow2(fr):
    return fr > 0 and (fr.numerator & (fr.numerator - 1)) == 0 and (fr.denominator & (fr.denominator - 1)) == 0


def gen_ad(inst):
    def g(rng):
        if inst == "q":
            mn = rng.choice([0.5, 1.0, 2.0])
            mx = mn * rng.choice([1, 2, 4, 16])
            r0 = rng.choice([x for x in (mn, mn * 2, mn * 4, mx) if mn <= x <= mx])
            p = dict(min=mn, max=mx, r0=r0, inc=rng.choice([0.5, 1.0, 2.0, 0.25]), dec=rng.choice([0.5, 0.25, 0.75]),
                     win=rng.choice([1.0, 0.5, 2.0, 4.0]))
            ops = gen_ops(rng, True, feedback=True)
            # the division in time_until_available is exact only while the rate is a power of two
            rate = Fraction(r0)
            for o in ops:
                if o[0] == "succ":
                    rate = min(Fraction(mx), rate + Fraction(p["inc"]))
                elif o[0] == "fail":
                    rate = max(Fraction(mn), rate * Fraction(p["dec"]))
                elif o[0] in ("tua", "probe") and not _is_pow2(rate):
                    o[0] = "acq"
            return dict(kind="ad", inst="q", params=p, t0=rng.choice([0, GRID, NS]), ops=ops)
        mn = rng.choice([1.0, 0.5, 3.0, 10.0, 0.1])
        mx = mn * rng.choice([1, 2, 10, 100, 3.7])
        r0 = rng.choice([mn, mx, (mn + mx) / 2, rng.uniform(mn, mx)])
        p = dict(min=mn, max=mx, r0=r0, inc=rng.choice([None, None, 1.0, 0.3, 5.0]), dec=rng.choice([0.5, 0.9, 0.1, 0.33]),
                 win=rng.choice([1.0, 1.0, 0.1, 2.0, 0.5, 3]))
        return dict(kind="ad", inst="f", params=p, t0=rng.choice([0, 0, 1, NS, 123456789]),
                    ops=gen_ops(rng, False, feedback=True))
    return g


def nontrivial_policy(c, obs):
    rs = [r for op, _t, r, _ in obs["trace"] if op == "Acq"]
    return (0 in rs and 1 in rs) or any(op == "Tua" and r > 0 for op, _t, r, _ in obs["trace"])


def describe_policy(c):
    return f"{c['kind']}_{c['inst']},ops={len(c['ops']) // 10 * 10}+"


def policy_family(kind, inst, gen):
    return Family(f"{kind}_{inst}", IMPORTS, f"ok_{kind}_{inst}", KINDS[kind].case_type(inst), gen, impl_policy,
                  encode_policy, oracle_policy, nontrivial_policy, describe=describe_policy)


# --------------------------------------------------------------------------- RateLimitedEntity in a real Simulation
def run_bounded(sim, max_events_per_instant=5000, max_events=200000, wall_s=30.0):
    """hsverif.util.run_bounded without signals (usable from the family threads): the frozen-clock
    and event-count watchdog wraps the heap's pop; the wall-clock limit is checked there too."""
    import time as _time
    from hsverif.util import FrozenClock, Timeout
    heap = sim._event_heap
    orig_pop = heap.pop
    st = {"t": None, "same": 0, "total": 0}
    deadline = _time.time() + wall_s

    def pop():
        ev = orig_pop()
        st["total"] += 1
        if ev.time == st["t"]:
            st["same"] += 1
            if st["same"] > max_events_per_instant:
                raise FrozenClock(f"more than {max_events_per_instant} pops at t={ev.time!r}")
        else:
            st["t"], st["same"] = ev.time, 0
        if st["total"] > max_events:
            raise FrozenClock(f"more than {max_events} pops in total")
        if st["total"] % 64 == 0 and _time.time() > deadline:
            raise Timeout("wall-clock limit")
        return ev

    heap.pop = pop
    try:
        return sim.run(), "ok"
    except FrozenClock as e:
        return None, "frozen-clock" if "at t=" in str(e) else "too-many-events"
    except Timeout:
        return None, "wall-timeout"
    finally:
        heap.pop = orig_pop


def _ent_terms(c):
    """(policy config term, initial policy state term) for the entity correspondence."""
    O = "Qops" if c["inst"] == "q" else "Fops"
    num = numq if c["inst"] == "q" else numf
    k, p = c["kind"], c["params"]
    if k == "tb":
        init = p["cap"] if p.get("init") is None else p["init"]
        return (Raw(f"(@CTb {O} (Build_tbp {O} {num(p['cap'])} {num(p['rate'])}))"),
                Raw(f"(@STb {O} (Build_tbs {O} {num(init)} None))"))
    if k == "lk":
        return Raw(f"(@CLk {O} (lk_interval {O} {num(p['rate'])}))"), Raw(f"(@SLk {O} None)")
    if k == "sw":
        return Raw(f"(@CSw {O} (nanos {O} {num(p['w'])}) {p['n']})"), Raw(f"(@SSw {O} [])")
    if k == "fw":
        return Raw(f"(@CFw {O} (nanos {O} {num(p['w'])}) {p['n']})"), Raw(f"(@SFw {O} (Build_fws None 0))")
    raise ValueError(k)


def _pol_obs_term(c, st):
    O = "Qops" if c["inst"] == "q" else "Fops"
    num = numq if c["inst"] == "q" else numf
    k = c["kind"]
    if k == "tb":
        return Raw(f"(@OTb {O} {num(st[0])} {tm(opt(st[1]))})")
    if k == "lk":
        return Raw(f"(@OLk {O} {tm(opt(st))})")
    if k == "sw":
        return Raw(f"(@OSw {O} {tm(list(st))})")
    return Raw(f"(@OFw {O} {tm(opt(st[0]))} {st[1]})")


def impl_entity(c, wall=120.0):
    from happysimulator.components.rate_limiter.rate_limited_entity import RateLimitedEntity
    from happysimulator.core.entity import Entity
    from happysimulator.core.event import Event
    from happysimulator.core.simulation import Simulation
    from happysimulator.core.temporal import Instant
    kind = KINDS[c["kind"]]
    pol = kind.make(c["params"])
    trace, got = [], []

    class Sink(Entity):
        def handle_event(self, event):
            got.append([event.time.nanoseconds, event.context.get("id")])
            return []

    class Rec(RateLimitedEntity):
        def handle_event(self, event):
            outs = super().handle_event(event)
            t = event.time.nanoseconds
            is_poll = event.event_type == f"rate_limit_poll::{self.name}"
            o = []
            for ev in outs:
                if ev.event_type.startswith("forward::"):
                    o.append(["F", ev.context["id"], ev.time.nanoseconds])
                else:
                    o.append(["P", ev.time.nanoseconds])
            st = self.stats
            trace.append(dict(inp=["P", t] if is_poll else ["R", event.context["id"], t], outs=o,
                              queue=[e.context["id"] for e in self._queue._queue], poll=bool(self._poll_scheduled),
                              stats=[st.received, st.forwarded, st.queued, st.dropped], pol=kind.snap(pol)))
            return outs

    sink = Sink("sink")
    rl = Rec("rl", sink, pol, queue_capacity=c["cap"])
    sim = Simulation(entities=[rl, sink], end_time=Instant(c["end"]))
    for i, t in enumerate(c["arrivals"]):
        sim.schedule(Event(time=Instant(t), event_type="req", target=rl, context={"id": i}))
    _summary, verdict = run_bounded(sim, max_events_per_instant=300, max_events=20000, wall_s=wall)
    if verdict == "wall-timeout" and wall < 900:      # starved machine, not a livelock (those are caught by event counts)
        return impl_entity(c, 900.0)
    st = rl.stats
    return dict(trace=trace[:400], steps=len(trace), sink=got, verdict=verdict, queue_depth=rl.queue_depth,
                stats=[st.received, st.forwarded, st.queued, st.dropped])


def encode_entity(c, obs):
    cfg, st0 = _ent_terms(c)
    tr = []
    for s in obs["trace"]:
        i = Ctor("EPoll", s["inp"][1]) if s["inp"][0] == "P" else Ctor("EReq", s["inp"][1], s["inp"][2])
        outs = [Ctor("OFwd", o[1], o[2]) if o[0] == "F" else Ctor("OPoll", o[1]) for o in s["outs"]]
        tr.append((i, (outs, list(s["queue"]), s["poll"], tuple(s["stats"]), _pol_obs_term(c, s["pol"]))))
    return tm((cfg, st0, c["cap"], tr))


def oracle_entity(c, obs):
    out = []
    n_arr = len(c["arrivals"])
    rc, fw, qd, dr = obs["stats"]
    ids = [i for _t, i in obs["sink"]]
    if obs["verdict"] != "ok":
        out.append(dict(clause="a drain never stalls: the entity re-delivers its poll at a frozen clock", verdict=obs["verdict"]))
        return out
    if rc != n_arr or rc != fw + obs["queue_depth"] + dr:
        out.append(dict(clause="every request is forwarded, queued or dropped exactly once (counters)",
                        received=rc, forwarded=fw, queue_depth=obs["queue_depth"], dropped=dr, arrivals=n_arr))
    if len(set(ids)) != len(ids) or any(i is None or not (0 <= i < n_arr) for i in ids) or len(ids) != fw:
        out.append(dict(clause="every request is forwarded at most once, and only requests that arrived", sink=ids[:40]))
    still = obs["trace"][-1]["queue"] if obs["trace"] and obs["steps"] <= 400 else None
    if still is not None and (set(still) & set(ids) or len(set(still)) != len(still)):
        out.append(dict(clause="a request is never both forwarded and still queued", queue=still))
    if obs["queue_depth"] != 0 and c.get("can_drain", True):
        out.append(dict(clause="a drain never stalls: requests still queued long after the last arrival",
                        queue_depth=obs["queue_depth"]))
    for a, b in zip(ids, ids[1:]):
        if a is not None and b is not None and a > b:
            # request a (arrived later) was forwarded before request b
            direct = any(s["inp"][0] == "R" and s["inp"][1] == a and any(o[0] == "F" and o[1] == a for o in s["outs"])
                         and len(s["queue"]) > 0 for s in obs["trace"])
            out.append(dict(clause="requests are forwarded in arrival order", overtaker=a, overtaken=b,
                            mechanism="bypass-nonempty-queue" if direct else "other",
                            what="RateLimitedEntity forwards an arriving request immediately while earlier requests are still queued "
                                 "(arrival at the instant of the pending poll, delivered before it)"))
            break
    return out


def attribute_entity(c, obs, f):
    if f.get("mechanism") == "bypass-nonempty-queue":
        return "C10-entity-arrival-overtakes-queue"
    return None


def gen_entity(inst):
    def g(rng):
        kind = rng.choice(["tb", "tb", "lk", "sw", "fw"])
        if inst == "q":
            unit = rng.choice([128, 256, 512]) * GRID
            if kind == "tb":
                p = dict(cap=rng.choice([1.0, 1.0, 2.0, 3.0]), rate=rng.choice([1.0, 2.0, 4.0, 0.5]),
                         init=rng.choice([None, None, 0.0, 1.0]))
            elif kind == "lk":
                p = dict(rate=rng.choice([1.0, 2.0, 4.0, 0.5]))
            else:
                p = dict(w=rng.choice([256, 512, 1024]) / 512.0, n=rng.randint(1, 3))
        else:
            unit = rng.choice([100_000_000, 50_000_000, 333_333_333, 250_000_000])
            if kind == "tb":
                p = dict(cap=rng.choice([1.0, 2.0, 3.0, 1.5]), rate=rng.choice([1.0, 3.0, 10.0, 7.0, 2.5]),
                         init=rng.choice([None, None, 0.0, 0.7]))
            elif kind == "lk":
                p = dict(rate=rng.choice([1.0, 3.0, 10.0, 7.0, 2.5]))
            else:
                p = dict(w=rng.choice([0.1, 0.3, 0.5, 1.0, 0.7]), n=rng.randint(1, 3))
        n = rng.randint(1, 14)
        t, arr = rng.choice([0, 0, unit, 3 * unit]), []
        for _ in range(n):
            t += rng.choice([0, 0, 0, 1, 1, 2, 3, 5]) * unit
            if inst == "f" and rng.random() < 0.2:
                t = max(0, t + rng.choice([-1, 1, 2]))
            arr.append(t)
        arr.sort()
        return dict(kind=kind, inst=inst, params=p, cap=rng.choice([0, 1, 2, 3, 5, 1000]), arrivals=arr,
                    end=arr[-1] + 400 * NS)
    return g


def ent_case_type(inst):
    O = "Qops" if inst == "q" else "Fops"
    return f"pol_cfg {O} * pol_st {O} * Z * list (ein * eobs {O})"


def entity_family(inst):
    return Family(f"ent_{inst}", IMPORTS, f"ok_ent_{inst}", ent_case_type(inst), gen_entity(inst), impl_entity,
                  encode_entity, oracle_entity,
                  lambda c, o: any(s["inp"][0] == "P" for s in o["trace"]),
                  attribute_entity, parallel=True,
                  describe=lambda c: f"ent_{c['kind']}_{c['inst']},cap={min(c['cap'], 9)}")


# --------------------------------------------------------------------------- Inductor and NullRateLimiter in real Simulations
def impl_inductor(c, wall=120.0):
    from happysimulator.components.rate_limiter.inductor import Inductor
    from happysimulator.core.entity import Entity
    from happysimulator.core.event import Event
    from happysimulator.core.simulation import Simulation
    from happysimulator.core.temporal import Instant
    trace, got = [], []
    tau = c["tau"]

    class Sink(Entity):
        def handle_event(self, event):
            got.append([event.time.nanoseconds, event.context.get("id")])
            return []

    class Rec(Inductor):
        def handle_event(self, event):
            t = event.time.nanoseconds
            is_poll = event.event_type == f"inductor_poll::{self.name}"
            alpha = 0.0
            if not is_poll and self._last_arrival_time is not None:
                dt = (event.time - self._last_arrival_time).to_seconds()
                if dt >= 0:
                    alpha = 1.0 - math.exp(-dt / tau) if tau > 0 else 1.0     # same expression as the code
            outs = super().handle_event(event)
            o = []
            for ev in outs:
                if ev.event_type.startswith("forward::"):
                    o.append(["F", ev.context["id"], ev.time.nanoseconds])
                else:
                    o.append(["P", ev.time.nanoseconds])
            st = self.stats
            trace.append(dict(inp=["P", t] if is_poll else ["R", event.context["id"], t, alpha], outs=o,
                              queue=[e.context["id"] for e in self._queue._queue], poll=bool(self._poll_scheduled),
                              stats=[st.received, st.forwarded, st.queued, st.dropped],
                              pol=[self._smoothed_interval, _ns(self._last_arrival_time), _ns(self._last_output_time)]))
            return outs

    sink = Sink("sink")
    rl = Rec("ind", sink, tau, queue_capacity=c["cap"])
    sim = Simulation(entities=[rl, sink], end_time=Instant(c["end"]))
    for i, t in enumerate(c["arrivals"]):
        sim.schedule(Event(time=Instant(t), event_type="req", target=rl, context={"id": i}))
    _summary, verdict = run_bounded(sim, max_events_per_instant=300, max_events=20000, wall_s=wall)
    if verdict == "wall-timeout" and wall < 900:
        return impl_inductor(c, 900.0)
    st = rl.stats
    return dict(trace=trace[:400], steps=len(trace), sink=got, verdict=verdict, queue_depth=rl.queue_depth,
                stats=[st.received, st.forwarded, st.queued, st.dropped])


def encode_inductor(c, obs):
    tr = []
    for s in obs["trace"]:
        if s["inp"][0] == "P":
            i = Raw(f"(@IPoll Fops {s['inp'][1]})")
        else:
            i = Raw(f"(@IReq Fops {s['inp'][1]} {s['inp'][2]} {numf(s['inp'][3])})")
        outs = [Ctor("OFwd", o[1], o[2]) if o[0] == "F" else Ctor("OPoll", o[1]) for o in s["outs"]]
        sm, la, lo = s["pol"]
        pol = (None if sm is None else SomeV(numf(sm)), opt(la), opt(lo))
        tr.append((i, (outs, list(s["queue"]), s["poll"], tuple(s["stats"]), pol)))
    return tm((numf(0.01), c["cap"], tr))


def gen_inductor(rng):
    unit = rng.choice([1, 1000, 1_000_000, 100_000_000, 250_000_000])
    n = rng.randint(1, 16)
    t, arr = rng.choice([0, 0, unit]), []
    for _ in range(n):
        t += rng.choice([0, 0, 0, 1, 1, 2, 3, 10]) * unit
        arr.append(t)
    return dict(tau=rng.choice([1.0, 0.1, 5.0, 0.001, 1e-9]), cap=rng.choice([0, 1, 2, 5, 1000]), arrivals=arr,
                end=arr[-1] + 400 * NS, can_drain=True)


def oracle_inductor(c, obs):
    fs = oracle_entity(c, obs)
    for f in fs:
        if f.get("mechanism") == "bypass-nonempty-queue":
            f["what"] = ("Inductor forwards an arriving request immediately while earlier requests are still queued "
                         "(same structure as RateLimitedEntity._handle_request)")
    return fs


def impl_null(c, wall=120.0):
    from happysimulator.components.rate_limiter.null import NullRateLimiter
    from happysimulator.core.entity import Entity
    from happysimulator.core.event import Event
    from happysimulator.core.simulation import Simulation
    from happysimulator.core.temporal import Instant
    trace, got = [], []

    class Sink(Entity):
        def handle_event(self, event):
            got.append([event.time.nanoseconds, event.context.get("id")])
            return []

    class Rec(NullRateLimiter):
        def handle_event(self, event):
            outs = super().handle_event(event)
            trace.append([event.context["id"], event.time.nanoseconds,
                          [[ev.context.get("id"), ev.time.nanoseconds, ev.target is sink] for ev in outs]])
            return outs

    sink = Sink("sink")
    rl = Rec("null", sink)
    sim = Simulation(entities=[rl, sink], end_time=Instant(c["end"]))
    for i, t in enumerate(c["arrivals"]):
        sim.schedule(Event(time=Instant(t), event_type="req", target=rl, context={"id": i}))
    _summary, verdict = run_bounded(sim, max_events_per_instant=300, max_events=20000, wall_s=wall)
    if verdict == "wall-timeout" and wall < 900:
        return impl_null(c, 900.0)
    return dict(trace=trace, sink=got, verdict=verdict)


def encode_null(c, obs):
    return tm([(i, t, [Ctor("OFwd", o[0], o[1]) for o in outs]) for i, t, outs in obs["trace"]])


def oracle_null(c, obs):
    ids = [i for _t, i in obs["sink"]]
    out = []
    if obs["verdict"] != "ok" or ids != list(range(len(c["arrivals"]))) or \
            [t for t, _ in obs["sink"]] != sorted(c["arrivals"]) or \
            any(not all(o[2] for o in outs) for _i, _t, outs in obs["trace"]):
        out.append(dict(clause="null limiter forwards every request exactly once, in arrival order, at its arrival time",
                        sink=obs["sink"][:20], verdict=obs["verdict"]))
    return out


def gen_null(rng):
    arr = sorted(rng.choice([0, 1, 5, 1000, NS]) * rng.randint(0, 5) for _ in range(rng.randint(1, 12)))
    return dict(arrivals=arr, end=arr[-1] + NS)


# --------------------------------------------------------------------------- DistributedRateLimiter (generator handler; one step per resumption)
def impl_dist(c, wall=120.0):
    from happysimulator.components.datastore import KVStore
    from happysimulator.components.rate_limiter.distributed import DistributedRateLimiter
    from happysimulator.core.entity import Entity
    from happysimulator.core.event import Event
    from happysimulator.core.simulation import Simulation
    from happysimulator.core.temporal import Instant
    trace, got = [], []
    store = KVStore("kv", read_latency=c["rl"], write_latency=c["wl"])
    lims = []

    def snapshot():
        st = sorted([int(k.rsplit(":", 1)[1]), v] for k, v in store._data.items())
        ls = []
        for L in lims:
            x = L.stats
            ls.append([L._local_window_id, L._local_count, L._last_known_global_count,
                       [x.requests_received, x.requests_forwarded, x.requests_dropped, x.store_reads, x.store_writes,
                        x.local_rejections, x.global_rejections]])
        return st, ls

    class Sink(Entity):
        def handle_event(self, event):
            got.append([event.time.nanoseconds, event.context.get("id")])
            return []

    class Rec(DistributedRateLimiter):
        def handle_event(self, event):
            gen = super().handle_event(event)
            req, li = event.context["id"], event.context["lim"]
            wid = self._get_window_id(event.time)

            def wrapped():
                first = True
                while True:
                    ev = ["S", li, req, wid] if first else ["R", req, self.now.nanoseconds]
                    first = False
                    try:
                        y = next(gen)
                    except StopIteration as e:
                        st, ls = snapshot()
                        trace.append(dict(ev=ev, out=["F", req, e.value[0].time.nanoseconds] if e.value else ["D", req],
                                          store=st, lims=ls))
                        return e.value
                    st, ls = snapshot()
                    trace.append(dict(ev=ev, out=["W"], store=st, lims=ls))
                    yield y
            return wrapped()

    sink = Sink("sink")
    for i in range(c["nlim"]):
        lims.append(Rec(f"lim{i}", sink, store, global_limit=c["limit"], window_size=c["w"]))
    sim = Simulation(entities=[*lims, store, sink], end_time=Instant(c["end"]))
    for i, (t, li) in enumerate(c["arrivals"]):
        sim.schedule(Event(time=Instant(t), event_type="req", target=lims[li], context={"id": i, "lim": li}))
    _summary, verdict = run_bounded(sim, max_events_per_instant=2000, max_events=50000, wall_s=wall)
    if verdict == "wall-timeout" and wall < 900:
        return impl_dist(c, 900.0)
    _st, ls = snapshot()
    return dict(trace=trace[:600], steps=len(trace), sink=got, verdict=verdict, lims=ls)


def encode_dist(c, obs):
    tr = []
    for s in obs["trace"]:
        ev = Ctor("DStart", s["ev"][1], s["ev"][2], s["ev"][3]) if s["ev"][0] == "S" else Ctor("DResume", s["ev"][1], s["ev"][2])
        o = s["out"]
        out = Ctor("DWait") if o[0] == "W" else (Ctor("DFwd", o[1], o[2]) if o[0] == "F" else Ctor("DDrop", o[1]))
        ls = [(opt(L[0]), L[1], L[2], tuple(L[3])) for L in s["lims"]]
        tr.append((ev, (out, [tuple(kv) for kv in s["store"]], ls)))
    return tm((c["limit"], tr))


def oracle_dist(c, obs):
    out = []
    if obs["verdict"] != "ok":
        return [dict(clause="distributed limiter run does not finish", verdict=obs["verdict"])]
    ids = [i for _t, i in obs["sink"]]
    if len(set(ids)) != len(ids):
        out.append(dict(clause="distributed: a request is forwarded at most once", sink=ids[:40]))
    for li, L in enumerate(obs["lims"]):
        rc, fw, dr, rd, wr, lr, gr = L[3]
        n_arr = sum(1 for _t, l in c["arrivals"] if l == li)
        if rc != n_arr or rc != fw + dr or dr != lr + gr:
            out.append(dict(clause="distributed: every request is forwarded or dropped exactly once (counters)", limiter=li,
                            received=rc, forwarded=fw, dropped=dr, arrivals=n_arr))
    if sum(L[3][1] for L in obs["lims"]) != len(ids):
        out.append(dict(clause="distributed: every request counted as forwarded reaches the downstream entity exactly once",
                        forwarded=sum(L[3][1] for L in obs["lims"]), delivered=len(ids)))
    return out


def gen_dist(rng):
    unit = rng.choice([1_000_000, 500_000, 10_000_000])
    n = rng.randint(1, 18)
    nlim = rng.randint(1, 3)
    t, arr = 0, []
    for _ in range(n):
        t += rng.choice([0, 0, 1, 1, 2, 3, 7, 100]) * unit
        arr.append([t, rng.randrange(nlim)])
    return dict(nlim=nlim, limit=rng.randint(1, 5), w=rng.choice([0.1, 0.05, 1.0, 0.3]),
                rl=rng.choice([0.001, 0.0005, 0.002, 0.0]), wl=rng.choice([0.001, 0.002, 0.0005, 0.0]),
                arrivals=arr, end=arr[-1][0] + 10 * NS)


DIST_FAMILY = Family("dist", IMPORTS, "ok_dist", "Z * list (dev * dobs)", gen_dist, impl_dist, encode_dist, oracle_dist,
                     lambda c, o: any(s["out"][0] == "D" for s in o["trace"]), parallel=True,
                     describe=lambda c: f"dist,nlim={c['nlim']},limit={c['limit']}")


IND_FAMILY = Family("ind_f", IMPORTS, "ok_ind_f", "float * Z * list (iin Fops * iobs Fops)", gen_inductor, impl_inductor,
                    encode_inductor, oracle_inductor, lambda c, o: any(s["inp"][0] == "P" for s in o["trace"]),
                    attribute_entity, parallel=True, describe=lambda c: f"ind,tau={c['tau']},cap={min(c['cap'], 9)}")
NULL_FAMILY = Family("null", IMPORTS, "ok_null", "list (Z * Z * list eout)", gen_null, impl_null, encode_null, oracle_null,
                     lambda c, o: len(set(c["arrivals"])) < len(c["arrivals"]), parallel=True)


FAMILIES = [
    policy_family("tb", "q", gen_tb("q")),
    policy_family("tb", "f", gen_tb("f")),
    policy_family("lk", "q", gen_lk("q")),
    policy_family("lk", "f", gen_lk("f")),
    policy_family("sw", "q", gen_win("sw", "q")),
    policy_family("sw", "f", gen_win("sw", "f")),
    policy_family("fw", "q", gen_win("fw", "q")),
    policy_family("fw", "f", gen_win("fw", "f")),
    policy_family("ad", "q", gen_ad("q")),
    policy_family("ad", "f", gen_ad("f")),
    entity_family("q"),
    entity_family("f"),
    IND_FAMILY,
    NULL_FAMILY,
    DIST_FAMILY,
]

PROOF_FILES = ["C10/Model.v", "C10/QFacts.v", "C10/TokenBucket.v", "C10/Leaky.v", "C10/Sliding.v", "C10/Fixed.v",
               "C10/Adaptive.v", "C10/Entity.v", "C10/Dist.v", "C10/Reach.v",
               "Base/PyLib.v", "Gen/PolicyGen.v", "C10/GenTie.v", "C10/CodeRun.v", "C10/Props.v"]

TRUSTED = [
    "Coq 8.16.1 kernel (coqc, vm_compute for witnesses and case evaluation); no native_compute",
    "axioms: none for the theorems (exact-rational instance); the binary64 instance used only by the correspondence evaluates Coq's primitive floats (PrimFloat) with vm_compute",
    "CPython float arithmetic = IEEE 754 binary64 round-to-nearest-even as implemented by PrimFloat (checked on every _f case)",
    "correspondence harness harness/props/c10.py (generators, observers, in-Coq comparison ok_* of C10/Model.v)",
    "translator harness/translate/py2coq.py + declared types (py2coq_targets.py PolicyGen): TokenBucket/LeakyBucket/SlidingWindow/FixedWindow policy methods are regenerated "
    "from policy.py on every run and proved equal to the model functions (C10/GenTie.v, C10/CodeRun.v); trusted there: the Instant/Duration idioms of core/temporal.py "
    "(Instant +/- float = ns +/- int(x*1e9), to_seconds = ns/1e9), constructors (not translated), AdaptivePolicy / RateLimitedEntity / Inductor / distributed limiter (model + correspondence only)",
]


# --------------------------------------------------------------------------- small-scope exhaustive enumeration (thorough tier)
ENUM_PTS = [0, 500, 999, 1000, 1001, 2000]           # around one window / refill period of 1000 ns
ENUM_PARAMS = {
    "tb": [dict(cap=1.0, rate=1e6, init=None), dict(cap=2.0, rate=1e6, init=0.0), dict(cap=1.0, rate=2e6, init=None)],
    "lk": [dict(rate=1e6), dict(rate=2e6), dict(rate=1e6 / 3)],
    "sw": [dict(w=1e-6, n=1), dict(w=1e-6, n=2), dict(w=5e-7, n=1)],
    "fw": [dict(w=1e-6, n=1), dict(w=1e-6, n=2), dict(w=5e-7, n=1)],
}


def enum_cases(kind, maxlen=4):
    import itertools
    out = []
    for p in ENUM_PARAMS[kind]:
        for L in range(1, maxlen + 1):
            for combo in itertools.combinations_with_replacement(ENUM_PTS, L):
                ops, prev = [], 0
                for t in combo:
                    ops.append(["probe", t - prev])
                    prev = t
                out.append(dict(kind=kind, inst="f", params=p, t0=0, ops=ops + [["drain", 0]]))
    return out


def enum_family(kind):
    cases = enum_cases(kind)
    it = iter(cases)
    fam = Family(f"enum_{kind}", IMPORTS, f"ok_{kind}_f", KINDS[kind].case_type("f"), lambda rng: next(it), impl_policy,
                 encode_policy, oracle_policy, nontrivial_policy, describe=lambda c: f"enum_{c['kind']},len={len(c['ops'])}")
    return fam, len(cases)


class _FamCtx:
    """Per-family view of the check context with its own deterministic PRNG, so that
    families can be run concurrently (each spends most of its time inside coqc)."""

    def __init__(self, ctx, seed):
        import random
        self._ctx = ctx
        self.rng = random.Random(seed)

    def __getattr__(self, name):
        return getattr(self._ctx, name)


def run_families(ctx, fams_n):
    from concurrent.futures import ThreadPoolExecutor
    subs = [(_FamCtx(ctx, ctx.rng.getrandbits(64)), fam, n) for fam, n in fams_n]
    with ThreadPoolExecutor(max_workers=6) as ex:
        return list(ex.map(lambda a: run_family(*a), subs))


def run(ctx):
    from props import pygen
    ok, info = pygen.regenerate("PolicyGen")      # policy.py kernels translated from $HS_REPO by py2coq
    ctx.coverage["regenerated"] = info
    ctx.prove(PROOF_FILES, allowed_axioms=(), trusted_base=TRUSTED)
    if not ok and ctx.pending_obligation_violation:
        ctx.pending_obligation_violation["translator"] = info.get("error")
    n = ctx.n(60, 300)
    plan = [(fam, n) for fam in FAMILIES]
    if not ctx.quick:
        # every sequence of <= 4 probes (tua + acquire) over a 6-point grid around a window/refill boundary
        plan += [enum_family(k) for k in ("tb", "lk", "sw", "fw")]
    for fam, k in plan:
        # worker processes (each re-imports happysimulator) only pay off for large batches
        fam.parallel = fam.parallel and k > 250
    stats = run_families(ctx, plan)
    merge_stats(ctx, stats, "random structured op sequences per policy (dense/sparse/burst/boundary-aligned, ns-adjacent, "
                            "probe = tua followed by acquire, drain = follow returned waits); non-trivial = both an admitted "
                            "and a denied acquire or a positive wait; distinct by JSON of the input")
    ctx.finish_obligations()
    ctx.assumptions += [
        "theorems are about the exact-rational instance of the generic policy code; binary64 rounding is covered by the correspondence of the float instance (bit-exact on every generated case) and by the implementation-side oracle (slack 1e-6 tokens / 1e-12 relative spacing off the dyadic grid)",
        "parameter ranges of the theorems: rate > 0, capacity >= 1 (progress), max_requests >= 1, window >= 1 ns, adaptive min > 0, min <= max, increase_step >= 0, 0 < decrease_factor <= 1; token bucket bound uses max(capacity, initial_tokens) (the constructor accepts initial_tokens > capacity)",
        "adaptive bucket bound is stated for the maximal rate (max_rate*window + max_rate*length); the oracle checks the sharper bound with the largest rate in force so far",
        "'forwards in arrival order' is refuted (c10_entity_fifo_refuted, known finding C10-entity-arrival-overtakes-queue); c10_entity_fifo_partial is what holds",
        "DistributedRateLimiter: conservation only; its read-modify-write of the shared counter is not atomic by design, so no per-window bound is claimed or checked",
        "Inductor: math.exp is not modelled, the EWMA weight of each arrival is a recorded input; theorems hold for all weights",
    ]


def replay(data):
    fams = {f.name: f for f in FAMILIES}
    for k in ("tb", "lk", "sw", "fw"):
        fams[f"enum_{k}"] = fams[f"{k}_f"]
    if "family" not in data.get("detail", {}):
        print("no failing input recorded:", data.get("detail"))
        return 1
    fam = fams[data["detail"]["family"]]
    c = data["detail"]["case"]
    obs = fam.impl(c)
    fails = fam.oracle(c, obs)
    print("observations:", obs)
    print("oracle failures:", fails)
    return 1 if fails else 0
