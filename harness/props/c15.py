"""C15 — durably acknowledged writes survive a crash at any point.

Tie to /repo: generated put/delete workloads with concurrent writers run inside a
real Simulation on an LSMTree with a WriteAheadLog (three sync policies); for
EVERY event index k of the run the workload is re-run from scratch, stopped after
event k, crash() + recover_from_crash() are executed, every key is read with
get_sync, and recovery is executed a second time.  The per-segment observations
(yielded delay, engine + WAL snapshot) and the post-crash observations at every k
are compared inside Coq with coq/C15/Model.v (ok_durable).  The property oracle
(independent of the model) evaluates the C15 statement from the harness' own
record of sequence numbers and of wal.synced_up_to at the crash instant.

Private attributes read: those of C14 plus WriteAheadLog._entries, _next_sequence,
_writes_since_sync.
"""
from __future__ import annotations

from hsverif.coq import Ctor, Nat, SomeV, term
from hsverif.family import Family, merge_stats, run_family
from props.c14 import (MS, US, Pre, bloom_fps, cfg_term, csnap_term, gen_cfg, kid, kname, lsm_snapshot, make_strategy,
                       ns_of, sval_py, sval_term, table_py, table_term)

IMPORTS = "From HS Require Import Base.Prelude C14.Model C15.Model."
LEVEL = "proof"


def gen_policy(rng):
    k = rng.random()
    if k < 0.5:
        return ["every"]
    if k < 0.8:
        return ["batch", rng.choice([2, 3])]
    return ["periodic", rng.choice([1233 * US, 2477 * US])]


def policy_term(p):
    return Ctor("SyncEvery") if p[0] == "every" else Ctor("SyncBatch", p[1]) if p[0] == "batch" else Ctor("SyncPeriodic", p[1])


def gen_durable(rng):
    nkeys = rng.choice([2, 3])
    cfg = gen_cfg(rng)
    if rng.random() < 0.5:
        cfg["thr"] = rng.choice([1, 2])
    t, ops = 0, []
    seqmode = rng.random() < 0.2          # 20%: operations do not overlap
    for i in range(rng.randint(2, 9)):
        if seqmode:
            t += 20 * MS
        else:
            t += rng.choices([0, 50 * US, 100 * US, 600 * US, 1100 * US, 1200 * US, 2 * MS, 3300 * US, 6 * MS],
                             [2, 2, 2, 3, 3, 3, 2, 2, 1])[0]
        key = rng.randrange(nkeys)
        ops.append([t, ["put", key, 100 + i] if rng.random() < 0.75 else ["del", key]])
    return dict(cfg=cfg, policy=gen_policy(rng), nkeys=nkeys, ops=ops)


def make_policy(p):
    from happysimulator.components.storage.wal import SyncEveryWrite, SyncOnBatch, SyncPeriodic
    return SyncEveryWrite() if p[0] == "every" else SyncOnBatch(p[1]) if p[0] == "batch" else SyncPeriodic(p[1] / 1e9)


def wal_snapshot(wal):
    return dict(entries=[[e.sequence_number, kid(e.key), sval_py(e.value)] for e in wal._entries],
                next=wal._next_sequence, synced=wal.synced_up_to, since=wal._writes_since_sync)


def run_once(c, stop_after=None):
    """Run the workload; with stop_after=k: stop before segment k (0-based) executes — i.e. after k
    events — then crash, recover, read every key, recover again.  Returns (log, crash observation)."""
    from happysimulator.components.storage.lsm_tree import LSMTree
    from happysimulator.components.storage.wal import WriteAheadLog
    from happysimulator.core.entity import Entity
    from happysimulator.core.event import Event
    from happysimulator.core.simulation import Simulation
    from happysimulator.core.temporal import Instant
    from hsverif.util import run_bounded

    cf = c["cfg"]
    wal = WriteAheadLog("wal", sync_policy=make_policy(c["policy"]))
    lsm = LSMTree("db", memtable_size=cf["thr"], compaction_strategy=make_strategy(cf["strategy"]), max_levels=cf["nlev"], wal=wal)
    log = []
    st = dict(dead=False, crash=None)

    def do_crash():
        pre = dict(lsm=lsm_snapshot(lsm), wal=wal_snapshot(wal))
        lsm.crash()
        lsm.recover_from_crash()
        vals = [lsm.get_sync(kname(k)) for k in range(c["nkeys"])]
        m1 = table_py(lsm._memtable._data.items())
        lsm.recover_from_crash()
        m2 = table_py(lsm._memtable._data.items())
        vals2 = [lsm.get_sync(kname(k)) for k in range(c["nkeys"])]
        # a second crash + recovery with no write in between (oracle only; not part of the Coq comparison)
        lsm.crash()
        lsm.recover_from_crash()
        m3 = table_py(lsm._memtable._data.items())
        vals3 = [lsm.get_sync(kname(k)) for k in range(c["nkeys"])]
        st["crash"] = dict(pre=pre, vals=vals, m1=m1, m2=m2, vals2=vals2, m3=m3, vals3=vals3)
        st["dead"] = True

    class Worker(Entity):
        def handle_event(self, event):
            op, oid = event.context["op"], event.context["oid"]
            g = lsm.put(kname(op[1]), op[2]) if op[0] == "put" else lsm.delete(kname(op[1]))
            first = True
            while True:
                if st["dead"]:
                    return
                if stop_after is not None and len(log) == stop_after:
                    do_crash()
                    return
                kind = "start" if first else "resume"
                first = False
                t = self.now.nanoseconds
                try:
                    d = next(g)
                except StopIteration:
                    log.append([kind, oid, t, ["done"], lsm_snapshot(lsm), wal_snapshot(wal)])
                    return
                log.append([kind, oid, t, ["yield", ns_of(d)], lsm_snapshot(lsm), wal_snapshot(wal)])
                yield d

    w = Worker("w")
    sim = Simulation(end_time=Instant.from_seconds(1000), entities=[lsm, wal, w])
    for i, (t, op) in enumerate(c["ops"]):
        sim.schedule(Event(time=Instant(t), event_type="op", target=w, context={"op": op, "oid": i}))
    _, verdict = run_bounded(sim, wall_s=600.0)
    if stop_after is not None and st["crash"] is None:
        do_crash()                      # crash after the last event
    return log, st["crash"], verdict


def impl_durable(c):
    log, _, verdict = run_once(c)
    crashes = []
    for k in range(1, len(log) + 1):
        lg, cr, v = run_once(c, stop_after=k)
        if lg != log[:k]:
            raise RuntimeError(f"re-run diverged before event {k}")
        crashes.append(cr)
    return dict(log=log, crashes=crashes, verdict=verdict)


def wentries_term(es):
    return [((s, k), sval_term(v)) for s, k, v in es]


def encode_durable(c, obs):
    steps = []
    for (kind, oid, t, payload, snap, ws), cr in zip(obs["log"], obs["crashes"]):
        op = c["ops"][oid][1]
        v = Ctor("Val", op[2]) if op[0] == "put" else Ctor("Tomb")
        st = Ctor("DStart", oid, op[1], v) if kind == "start" else Ctor("DResume", oid, t)
        ob = Ctor("DObsYield", payload[1]) if payload[0] == "yield" else Ctor("DObsDone")
        dsnap = (csnap_term(snap), wentries_term(ws["entries"]), ws["next"], ws["synced"], ws["since"])
        co = ([None if x is None else SomeV(x) for x in cr["vals"]], table_term(cr["m1"]), table_term(cr["m2"]))
        steps.append((st, ob, dsnap, co))
    return term((cfg_term(c["cfg"]), policy_term(c["policy"]), [(ks, k) for ks, k in bloom_fps(c["nkeys"])],
                 list(range(c["nkeys"])), steps))


CRASH_POINTS = [0]


def oracle_durable(c, obs):
    """Admissible value of a key after crash + recovery: the value of a write W to it that had started before the
    crash and is not superseded, i.e. there is no DURABLE write to the key (sequence number <= synced_up_to at the
    crash instant) that began after W completed; 'absent' only if no durable write to the key exists.  Writes that
    overlap in time may be applied in either order, exactly as in the overlap clause of C14."""
    CRASH_POINTS[0] += len(obs["crashes"])
    if obs["verdict"] != "ok":
        return [dict(clause="durable: run terminates", verdict=obs["verdict"])]
    log = obs["log"]
    seq_of, nxt = {}, 1
    start_t, done_pos, done_t = {}, {}, {}
    for pos, (kind, oid, t, payload, snap, ws) in enumerate(log):
        if kind == "start":
            start_t[oid] = t
        if payload[0] == "done":
            done_pos[oid], done_t[oid] = pos, t
    fails = []
    for k, ((kind, oid, t, payload, snap, ws), cr) in enumerate(zip(log, obs["crashes"]), 1):
        if kind == "start":
            seq_of[oid] = nxt
            nxt += 1
        synced = cr["pre"]["wal"]["synced"]
        if cr["vals"] != cr["vals2"] or cr["m1"] != cr["m2"]:
            fails.append(dict(clause="durable: recovering twice gives the same state as recovering once", crash_after=k))
        if "vals3" in cr and (cr["vals"] != cr["vals3"] or cr["m1"] != cr["m3"]):
            fails.append(dict(clause="durable: crashing and recovering a second time (no write in between) gives the same state",
                              crash_after=k, first=cr["vals"], second=cr["vals3"]))
        for key in range(c["nkeys"]):
            writes = [o for o in seq_of if c["ops"][o][1][1] == key]
            durable = [o for o in writes if seq_of[o] <= synced]

            def completed_before(o, o2):
                return o in done_pos and done_pos[o] < k and done_t[o] < start_t[o2]
            allowed = [(c["ops"][o][1][2] if c["ops"][o][1][0] == "put" else None) for o in writes
                       if not any(completed_before(o, o2) for o2 in durable)]
            if not durable:
                allowed.append(None)
            got = cr["vals"][key]
            if got not in allowed:
                known = [(c["ops"][o][1][2] if c["ops"][o][1][0] == "put" else None) for o in writes]
                f = dict(clause="durable: a value that was never written appears" if got not in known + [None]
                         else "durable: every write whose WAL sync completed before the crash is readable with its latest durable value",
                         crash_after=k, key=key, got=got, allowed=allowed, synced_up_to=synced)
                # mechanism: the log entry of a durable, unsuperseded write was truncated although the write was never flushed
                for o in sorted(durable, key=lambda o: -seq_of[o]):
                    if any(completed_before(o, o2) for o2 in durable):
                        continue
                    in_wal = any(e[0] == seq_of[o] for e in cr["pre"]["wal"]["entries"])
                    val = c["ops"][o][1][2] if c["ops"][o][1][0] == "put" else "T"
                    in_sst = any([key, val] in t for lvl in cr["pre"]["lsm"]["levels"] for t in lvl)
                    if not in_wal and not in_sst:
                        f["mechanism"] = "wal-truncated-past-unflushed"
                        f["what"] = ("_flush_memtable truncates the WAL at next_sequence-1 after its write delay: entries of synced writes that "
                                     "went into the newer memtable (or were still in flight) are discarded, so a crash loses acknowledged writes")
                    break
                fails.append(f)
                break
    return fails[:3]


def attribute_durable(c, obs, f):
    return "C15-wal-truncated-past-unflushed" if f.get("mechanism") == "wal-truncated-past-unflushed" else None


def nontrivial_durable(c, obs):
    # some crash point lies inside a flush (an immutable memtable exists) with a later write already logged
    return any(cr["pre"]["lsm"]["imm"] for cr in obs["crashes"])


FAMILIES = [
    Family("durable", IMPORTS, "ok_durable",
           "cfg * policy * list (list Z * Z) * list Z * list (dstep * dobs * dsnap * crash_obs)",
           gen_durable, impl_durable, encode_durable, oracle_durable, nontrivial=nontrivial_durable,
           attribute=attribute_durable, parallel=True,
           describe=lambda c: f"{c['policy'][0]},thr={c['cfg']['thr']}"),
]

TRUSTED = [
    "translator harness/translate/py2coq.py + declared types (py2coq_targets.py WalGen): WriteAheadLog.crash/truncate/recover/synced_up_to/size, "
    "SyncEveryWrite/SyncOnBatch.should_sync are regenerated from components/storage/wal.py on every run and proved to refine the WAL model "
    "(C15/GenTie.v); idioms trusted: [x for x in L if c] is filter, sorted(L, key=lambda) is a stable sort on an integer key, stored values and "
    "timestamps are opaque integers; NOT translated: append (a generator), SyncPeriodic (float seconds), the statistics",
    "Coq 8.16.1 kernel (coqc, vm_compute for refutation witnesses and case evaluation); no native_compute",
    "axioms: none (every theorem of C15/Props.v is 'Closed under the global context')",
    "correspondence harness harness/props/c15.py (re-run from scratch per crash index; in-Coq comparison ok_durable of C15/Model.v)",
    "model choices: those of C14 (keys/values Z, dicts as sorted association lists, Bloom filter oracle); the clock reading of each "
    "segment is an explicit input; float seconds are compared as integer nanoseconds (SyncPeriodic intervals chosen off the time grid)",
]

PROOF_FILES = ["C14/Model.v", "C14/LsmProofs.v", "C14/SeqProofs.v", "C15/Model.v", "C15/Proofs.v", "C15/RestProofs.v",
               "Base/PyLib.v", "Gen/WalGen.v", "C15/GenTie.v", "C15/Props.v"]


def run(ctx):
    from concurrent.futures import ThreadPoolExecutor
    from props import pygen
    ok, info = pygen.regenerate("WalGen")       # storage/wal.py (crash/truncate/recover, sync policies) translated from $HS_REPO by py2coq
    ctx.coverage["regenerated"] = info
    ctx.prove(PROOF_FILES, allowed_axioms=(), trusted_base=TRUSTED)
    if not ok and ctx.pending_obligation_violation:
        ctx.pending_obligation_violation["translator"] = info.get("error")
    n = ctx.n(60, 250)
    with ThreadPoolExecutor(max_workers=2) as pool:
        pre = Pre(ctx, FAMILIES[0], n, pool, pool_above=20)
        stats = [run_family(pre, pre.fam, n)]
    merge_stats(ctx, stats, "random put/delete workloads (2-9 writes, 2-3 keys, concurrent writers on a grid landing inside WAL write/sync, "
                            "flush and compaction delays), three sync policies, memtable size 1-4; crash at EVERY event index of every workload; "
                            "non-trivial = some crash point inside a flush; distinct by JSON of the input")
    ctx.coverage["crash_points"] = CRASH_POINTS[0]
    ctx.finish_obligations()
    ctx.assumptions += [
        "durable_at_rest / durable_at_rest_prefix are proved for workloads whose operations do not overlap (crash between operations), for all three sync policies",
        "the full statement (any crash point) is refuted on the faithful model (c15_durable_any_crash_point_refuted): finding C15-wal-truncated-past-unflushed",
        "crash while other generators are suspended: only the state at the crash instant is checked (the generators that survive a crash are not resumed)",
    ]


def replay(data):
    fam = FAMILIES[0]
    c = data["detail"]["case"]
    obs = fam.impl(c)
    fails = fam.oracle(c, obs)
    print("crash observations:", [cr["vals"] for cr in obs["crashes"]])
    print("oracle failures:", fails)
    return 1 if fails else 0
