"""C08 — queueing pipelines never lose, duplicate, misorder or strand work.

Tie to /repo (every run):
  * policy family: generated push/pop sequences are executed on the real
    FIFOQueue / LIFOQueue / PriorityQueue / DeadlineQueue / FairQueue /
    WeightedFairQueue / BalkingQueue objects; result of every operation and a
    snapshot of the object after every operation are compared inside Coq with
    C08/Model.v (ok_policy).
  * pipeline family: real Simulation runs of Server / ShiftedServer
    (Queue + QueueDriver + worker) fed by bursts through relay chains of
    different hop counts; every handler invocation (queue, driver, worker
    generator segment, completion hook) is recorded with its outputs and the
    component state afterwards and replayed through the world model inside Coq
    (ok_pipeline): the real run must be one of the model's schedules.
  * industrial family: PooledCycleResource, GateController, ConveyorBelt,
    BatchProcessor, RenegingQueuedResource handler traces (ok_ind).
The property oracle (independent of the model) evaluates the C08 statement on the
implementation's observations.

Private attributes read: policy internals (_queue, _heap, _flows, _insert_counter,
counters), Server._concurrency_model, ShiftedServer._active/_current_capacity.
"""
from __future__ import annotations

from hsverif.coq import Ctor, Raw, SomeV, term
from hsverif.family import Family, merge_stats, run_family

IMPORTS = "From HS Require Import Base.Prelude C08.Model."
LEVEL = "proof"

END_NS = 10 ** 12
COQ_FILES = ["C08/Model.v", "C08/Policies.v", "C08/PolicyThms.v", "C08/Pipeline.v", "C08/IndModel.v", "C08/IndThms.v",
             "Base/PyLib.v", "Gen/QueuePolicyGen.v", "C08/GenTie.v", "Gen/ConcurrencyGen.v", "C08/ConcTie.v", "Gen/DeadlineGen.v", "C08/DeadlineTie.v", "C08/Props.v"]


# --------------------------------------------------------------------------- items / policies
class It:
    __slots__ = ("id", "prio", "dl", "flow")

    def __init__(self, d):
        self.id, self.prio, self.dl, self.flow = d["id"], d["prio"], d["dl"], d["flow"]


def opt(v):
    return None if v is None else SomeV(v)


def item_term(d, weights):
    return Ctor("MkItem", d["id"], d["prio"], d["dl"], d["flow"], weights.get(str(d["flow"]), 1))


def pol_term(p, sched=()):
    k = p["kind"]
    if k == "red":
        return Ctor("PRed", p["cap"], [], Raw("rs0"))
    if k == "codel":
        return Ctor("PCodel", opt(p["cap"]), [], list(sched), Raw("cs0"))
    if k == "adapt":
        return Ctor("PAdapt", p["thr"], opt(p["cap"]), [], False, Raw("as0"))
    if k == "fifo":
        return Ctor("PFifo", opt(p["cap"]), [])
    if k == "lifo":
        return Ctor("PLifo", opt(p["cap"]), [])
    if k == "prio":
        return Ctor("PPrio", opt(p["cap"]), 0, [])
    if k == "dead":
        return Ctor("PDead", opt(p["cap"]), 0, [], Raw("ds0"))
    if k == "fair":
        return Ctor("PFair", opt(p["maxf"]), opt(p["pfc"]), [], 0, Raw("fs0"))
    if k == "wfq":
        return Ctor("PWfq", opt(p["cap"]), opt(p["pfc"]), [], 0, Raw("ws0"))
    if k == "balk":
        return Ctor("PBalk", p["thr"], 0, pol_term(p["inner"], sched))
    raise ValueError(k)


class _Rand:
    """Stand-in for the `random` module inside industrial/balking.py: the draw is an
    explicit input of the case (balk_probability is 0.5)."""

    def __init__(self):
        self.next_balk = False
        self.draws = 0

    def random(self):
        self.draws += 1
        return 0.0 if self.next_balk else 0.9


def make_policy(p, get, clock_ns, rand):
    """Build the real policy object.  `get(item)` -> dict-like accessor of the harness item
    (items are It objects in the policy family and Events in the pipeline family)."""
    from happysimulator.components.queue_policy import FIFOQueue, LIFOQueue, PriorityQueue
    from happysimulator.components.queue_policies.deadline_queue import DeadlineQueue
    from happysimulator.components.queue_policies.fair_queue import FairQueue
    from happysimulator.components.queue_policies.weighted_fair_queue import WeightedFairQueue
    from happysimulator.core.temporal import Instant
    inf = float("inf")
    k = p["kind"]
    if k == "fifo":
        return FIFOQueue(capacity=inf if p["cap"] is None else p["cap"])
    if k == "lifo":
        return LIFOQueue(capacity=inf if p["cap"] is None else p["cap"])
    if k == "prio":
        return PriorityQueue(capacity=inf if p["cap"] is None else p["cap"], key=lambda it: get(it).prio)
    if k == "dead":
        return DeadlineQueue(get_deadline=lambda it: Instant(get(it).dl), capacity=p["cap"],
                             clock_func=lambda: Instant(clock_ns()))
    if k == "fair":
        return FairQueue(get_flow_id=lambda it: get(it).flow, max_flows=p["maxf"], per_flow_capacity=p["pfc"])
    if k == "wfq":
        w = p["weights"]
        return WeightedFairQueue(get_flow_id=lambda it: get(it).flow, get_weight=lambda f: w.get(str(f), 1),
                                 capacity=p["cap"], per_flow_capacity=p["pfc"])
    if k == "red":
        import happysimulator.components.queue_policies.red as rmod
        rmod.random = rand
        return rmod.REDQueue(min_threshold=p["minth"], max_threshold=p["maxth"], max_probability=1.0, capacity=p["cap"], weight=0.5)
    if k == "codel":
        from happysimulator.components.queue_policies.codel import CoDelQueue
        u = p.get("unit", 1)
        return CoDelQueue(target_delay=p["target"] * u / 1e9, interval=p["interval"] * u / 1e9, capacity=p["cap"],
                          clock_func=lambda: Instant(clock_ns()))
    if k == "adapt":
        from happysimulator.components.queue_policies.adaptive_lifo import AdaptiveLIFO
        return AdaptiveLIFO(congestion_threshold=p["thr"], capacity=p["cap"])
    if k == "balk":
        import happysimulator.components.industrial.balking as bmod
        bmod.random = rand
        return bmod.BalkingQueue(make_policy(p["inner"], get, clock_ns, rand), balk_threshold=p["thr"], balk_probability=0.5)
    raise ValueError(k)


def pol_weights(p):
    if p["kind"] == "balk":
        return pol_weights(p["inner"])
    return p.get("weights", {})


def snap_policy(pol, get):
    """(len, ids in the model's internal order, counters) read from the real object."""
    name = type(pol).__name__
    if name == "FIFOQueue":
        return [len(pol), [get(x).id for x in pol._queue], []]
    if name == "LIFOQueue":
        return [len(pol), [get(x).id for x in reversed(pol._queue)], []]
    if name == "PriorityQueue":
        es = sorted(pol._heap, key=lambda e: (e.priority, e.insert_order))
        return [len(pol), [get(e.item).id for e in es], [pol._insert_counter]]
    if name == "DeadlineQueue":
        es = sorted(pol._heap, key=lambda e: (e.deadline_ns, e.insert_order))
        s = pol.stats
        return [len(pol), [get(e.item).id for e in es],
                [pol._insert_counter, s.enqueued, s.dequeued, s.expired, s.capacity_rejected]]
    if name == "FairQueue":
        s = pol.stats
        return [len(pol), [get(x).id for q in pol._flows.values() for x in q],
                [len(pol._flows), s.enqueued, s.dequeued, s.rejected_flow_capacity, s.rejected_max_flows,
                 s.flows_created, s.flows_removed]]
    if name == "WeightedFairQueue":
        s = pol.stats
        per = []
        for fid, fs in pol._flows.items():
            per += [fid, fs.weight, fs.credits]
        return [len(pol), [get(x).id for fs in pol._flows.values() for x in fs.queue],
                [len(pol._flows), s.enqueued, s.dequeued, s.rejected_capacity, s.flows_created, s.flows_removed] + per]
    if name == "REDQueue":
        s = pol.stats
        return [len(pol), [get(x).id for x in pol._queue],
                [s.enqueued, s.dequeued, s.dropped_probabilistic + s.dropped_forced, s.capacity_rejected]]
    if name == "CoDelQueue":
        s = pol.stats
        return [len(pol), [get(x.item).id for x in pol._queue], [s.enqueued, s.dequeued, s.dropped, s.capacity_rejected]]
    if name == "AdaptiveLIFO":
        s = pol.stats
        return [len(pol), [get(x).id for x in pol._queue],
                [1 if pol._was_congested else 0, s.enqueued, s.dequeued_fifo, s.dequeued_lifo, s.capacity_rejected, s.mode_switches]]
    if name == "BalkingQueue":
        n, ids, cs = snap_policy(pol.inner, get)
        return [n, ids, [pol.balked] + cs]
    raise ValueError(name)


def gen_policy_cfg(rng, allow_balk=True):
    k = rng.choice(["fifo", "lifo", "prio", "dead", "fair", "wfq", "codel", "adapt"] + (["balk", "red"] if allow_balk else []))
    cap = rng.choice([None, None, 1, 2, 3, 4])
    if k == "red":
        mn = rng.choice([0, 0, 1, 2])
        mx = mn + rng.randint(1, 3)
        return dict(kind=k, minth=mn, maxth=mx, cap=mx + rng.randint(0, 2))
    if k == "codel":
        return dict(kind=k, cap=cap, target=rng.choice([1, 2, 5]), interval=rng.choice([1, 3, 10]))
    if k == "adapt":
        return dict(kind=k, thr=rng.randint(1, 4), cap=cap)
    if k in ("fifo", "lifo", "prio"):
        if rng.random() < 0.1:
            cap = 0
        return dict(kind=k, cap=cap)
    if k == "dead":
        return dict(kind=k, cap=cap)
    if k == "fair":
        return dict(kind=k, maxf=rng.choice([None, 1, 2, 3]), pfc=rng.choice([None, 1, 2, 3]))
    if k == "wfq":
        return dict(kind=k, cap=cap, pfc=rng.choice([None, None, 1, 2]),
                    weights={str(f): rng.choice([0, 1, 1, 2, 3]) for f in range(4)})
    return dict(kind="balk", thr=rng.randint(0, 3), inner=gen_policy_cfg(rng, allow_balk=False))


def gen_item(rng, i, now):
    return dict(id=i, prio=rng.randint(0, 2), dl=now + rng.choice([-3, 0, 0, 2, 5, 40]), flow=rng.randint(0, 3))


def gen_policy(rng):
    p = gen_policy_cfg(rng)
    ops, now, i = [], 0, 0
    pushy = rng.choice([0.45, 0.6, 0.75])
    for _ in range(rng.randint(1, 40)):
        now += rng.choice([0, 0, 1, 3])
        if rng.random() < pushy:
            ops.append(["push", gen_item(rng, i, now), rng.random() < 0.5, now])
            i += 1
        else:
            ops.append(["pop", now])
    return dict(policy=p, ops=ops)


def impl_policy(c):
    cur = {"now": 0}
    rand = _Rand()
    pol = make_policy(c["policy"], lambda it: it, lambda: cur["now"], rand)
    out = []
    live = {}
    for o in c["ops"]:
        if o[0] == "push":
            it = It(o[1])
            cur["now"] = o[3]
            rand.next_balk = o[2]
            ok = bool(pol.push(it))
            if ok:
                live[it.id] = it
            out.append(dict(ok=ok, res=None, snap=snap_policy(pol, lambda x: x), cap=_cap(pol), empty=pol.is_empty(),
                            peek=_peek(pol)))
        else:
            cur["now"] = o[1]
            r = pol.pop()
            out.append(dict(ok=True, res=None if r is None else r.id, snap=snap_policy(pol, lambda x: x), cap=_cap(pol),
                            empty=pol.is_empty(), peek=_peek(pol)))
    if type(pol).__name__ == "DeadlineQueue" and out:
        # final phase, oracle only (not part of the Coq comparison): an operator purges the expired entries at some
        # instant, then the queue is drained; count_valid / purge_expired / pop must agree with the deadlines
        held = {it.id: it for it in live.values() if it.id in out[-1]["snap"][1]}
        dls = sorted(it.dl for it in held.values())
        at = dls[len(dls) // 2] if dls else cur["now"]          # median deadline: expired and live entries coexist
        cur["now"] = max(cur["now"], at)
        valid = pol.count_valid()
        removed = pol.purge_expired()
        drained = []
        while (r := pol.pop()) is not None and len(drained) < 200:
            drained.append(r.id)
        out[-1]["purge"] = dict(at=cur["now"], held=[[i, it.dl] for i, it in sorted(held.items())], valid=valid, removed=removed, drained=drained)
    return out


def _cap(pol):
    c = pol.capacity
    return None if c == float("inf") else int(c)


def _peek(pol):
    r = pol.peek()
    return None if r is None else r.id


def _expired_of(prev_ids, ob):
    """ids that left the policy in a pop without being returned."""
    gone = [x for x in prev_ids if x not in ob["snap"][1]]
    return [x for x in gone if x != ob["res"]]


def encode_policy(c, obs):
    w = pol_weights(c["policy"])
    kind = base_kind(c["policy"])
    ops, obl, sched = [], [], []
    prev = []
    prev_drop = 0
    for o, ob in zip(c["ops"], obs):
        if o[0] == "push":
            balk = o[2]
            if kind == "red":       # the early-drop decision (float EWMA + draw) is an input of the model
                balk = ob["snap"][2][2] > prev_drop
                prev_drop = ob["snap"][2][2]
            ops.append(Ctor("OPush", balk, item_term(o[1], w)))
            obl.append(((ob["ok"], None, []), (ob["snap"][0], ob["snap"][1], ob["snap"][2])))
        else:
            ops.append(Ctor("OPop", o[1]))
            ex = _expired_of(prev, ob)
            if kind == "codel" and ob["res"] is not None:
                sched.append(len(ex))
            # expired/dropped items are reported in the order of the previous snapshot
            obl.append(((True, opt(ob["res"]), ex), (ob["snap"][0], ob["snap"][1], ob["snap"][2])))
        prev = ob["snap"][1]
    return term((pol_term(c["policy"], sched), ops, obl))


def base_kind(p):
    return base_kind(p["inner"]) if p["kind"] == "balk" else p["kind"]


def base_policy(p):
    return base_policy(p["inner"]) if p["kind"] == "balk" else p


def oracle_purge(obs):
    pg = obs[-1].get("purge") if obs else None
    if not pg:
        return []
    live = [(dl, i) for i, dl in pg["held"] if not dl < pg["at"]]
    if pg["valid"] != len(live) or pg["removed"] != len(pg["held"]) - len(live):
        return [dict(clause="deadline queue: count_valid / purge_expired count exactly the entries whose deadline has not passed", observed=pg)]
    # ties on the deadline leave in insertion order = id order (ids are allocated in push order)
    if pg["drained"] != [i for _, i in sorted(live)]:
        return [dict(clause="deadline queue: after a purge the remaining entries still leave earliest deadline first", observed=pg,
                     expected=[i for _, i in sorted(live)])]
    return []


def oracle_policy(c, obs):
    """C08, policy clauses: never holds more than its capacity; enqueued = dequeued +
    dropped + held at all times; items leave in the order the policy defines."""
    pf = oracle_purge(obs)
    if pf:
        return pf
    p = c["policy"]
    kind = base_kind(p)
    inner = p["inner"] if p["kind"] == "balk" else p
    held = []          # (arrival index, item dict) of accepted, not yet popped / expired
    enq = deq = exp = 0
    arrival = 0
    fails = []
    flows_order = []   # fair: flows in service order (least recently served first)
    for idx, (o, ob) in enumerate(zip(c["ops"], obs)):
        n = ob["snap"][0]
        if ob["cap"] is not None and n > ob["cap"]:
            fails.append(dict(clause="a policy never holds more than its capacity", step=idx, len=n, cap=ob["cap"]))
        if kind in ("fifo", "lifo", "prio", "dead", "red", "codel", "adapt") and inner.get("cap") is not None and n > inner["cap"]:
            fails.append(dict(clause="a policy never holds more than its capacity", step=idx, len=n, cap=inner["cap"]))
        if o[0] == "push":
            if ob["ok"]:
                enq += 1
                held.append((arrival, o[1]))
                if kind in ("fair", "wfq") and o[1]["flow"] not in flows_order:
                    flows_order.append(o[1]["flow"])
            arrival += 1
        else:
            now = o[1]
            res = ob["res"]
            # peek() announces what the next pop returns (policies whose peek has no side effect and no clock)
            if kind in ("fifo", "lifo", "prio") and p["kind"] != "balk" and idx > 0 and "peek" in obs[idx - 1] \
                    and obs[idx - 1]["peek"] != res:
                fails.append(dict(clause="peek returns the item the next pop returns", step=idx, peek=obs[idx - 1]["peek"], res=res))
            gone = [h for h in held if h[1]["id"] not in ob["snap"][1]]
            expired = [h for h in gone if h[1]["id"] != res]
            exp += len(expired)
            if res is not None:
                deq += 1
                if not any(h[1]["id"] == res for h in held):
                    fails.append(dict(clause="pop returns an item that is held exactly once", step=idx, res=res))
            # order
            cand = list(held)
            if kind == "dead":
                for h in expired:
                    if not h[1]["dl"] < now:
                        fails.append(dict(clause="deadline queue drops only expired items", step=idx, item=h[1]))
                cand = [h for h in held if not h[1]["dl"] < now]
            elif kind == "codel":
                # CoDel drops (and counts) items from the head of the line, right behind the item it returns
                rest = sorted((h for h in held if h[1]["id"] != res), key=lambda h: h[0])
                if sorted(expired, key=lambda h: h[0]) != rest[:len(expired)] or (expired and res is None):
                    fails.append(dict(clause="CoDel drops only from the head of the line", step=idx))
                cand = [h for h in held if h not in expired]
            elif expired:
                fails.append(dict(clause="items vanish from the policy without being popped", step=idx,
                                  ids=[h[1]["id"] for h in expired]))
            exp_res = None
            if cand:
                if kind in ("fifo", "red", "codel"):
                    exp_res = min(cand, key=lambda h: h[0])
                elif kind == "adapt":
                    exp_res = (max if len(held) >= inner["thr"] else min)(cand, key=lambda h: h[0])
                elif kind == "lifo":
                    exp_res = max(cand, key=lambda h: h[0])
                elif kind == "prio":
                    exp_res = min(cand, key=lambda h: (h[1]["prio"], h[0]))
                elif kind == "dead":
                    exp_res = min(cand, key=lambda h: (h[1]["dl"], h[0]))
                elif kind == "fair":
                    # head of the least recently served flow that has items
                    for f in flows_order:
                        fl = [h for h in cand if h[1]["flow"] == f]
                        if fl:
                            exp_res = min(fl, key=lambda h: h[0])
                            break
                elif kind == "wfq":
                    exp_res = "any-flow-head"
            if kind == "wfq":
                if res is not None:
                    f = next(h[1]["flow"] for h in held if h[1]["id"] == res)
                    head = min((h for h in held if h[1]["flow"] == f), key=lambda h: h[0])
                    if head[1]["id"] != res:
                        fails.append(dict(clause="weighted fair queue: items of one flow leave in arrival order", step=idx))
                elif cand:
                    fails.append(dict(clause="pop returns None although items are held", step=idx))
            else:
                want = None if exp_res is None else exp_res[1]["id"]
                if want != res:
                    fails.append(dict(clause=f"items leave the queue in the order its policy defines ({kind})",
                                      step=idx, expected=want, got=res))
            if kind == "fair" and res is not None:
                f = next(h[1]["flow"] for h in held if h[1]["id"] == res)
                flows_order.remove(f)
                held = [h for h in held if h not in gone]
                if any(h[1]["flow"] == f for h in held):
                    flows_order.append(f)
            held = [h for h in held if h not in gone]
        if enq != deq + exp + n:
            fails.append(dict(clause="enqueued = dequeued + dropped + held at all times", step=idx, enq=enq, deq=deq, dropped=exp, held=n))
        if ob["empty"] != (n == 0):
            fails.append(dict(clause="is_empty agrees with len", step=idx))
        if len(fails) > 3:
            break
    return fails[:1]


# --------------------------------------------------------------------------- pipeline runs
def gen_stage(rng, first):
    p = gen_policy_cfg(rng)
    if rng.random() < 0.4:
        p = dict(kind="fifo", cap=rng.choice([None, None, 0, 1, 2, 3]))
    worker = rng.choice(["server", "server", "server", "shift", "reneg"])
    st = dict(policy=p, worker=worker, limit=rng.randint(1, 3),
              svc=[rng.choice([0, 1, 5, 10, 10]) for _ in range(rng.randint(1, 4))])
    if worker == "shift":
        bs = sorted(rng.sample([1, 2, 5, 10, 11, 20, 30], rng.choice([2, 4])))
        st["shifts"] = [[bs[i], bs[i + 1], rng.randint(0, 3)] for i in range(0, len(bs), 2)]
        st["default_capacity"] = rng.choice([0, 0, 1, 2])
        st["svc"] = [rng.choice([1, 5, 10])]
    return st


def gen_pipe(rng):
    stages = [gen_stage(rng, True)]
    if rng.random() < 0.3:
        stages.append(gen_stage(rng, False))
    tick = 10 ** 9 if any(s["worker"] == "shift" for s in stages) or rng.random() < 0.15 else 1
    times = rng.choice([[0], [0, 0, 5], [0, 5, 10, 10], [0, 1, 2, 3, 10], [0, 10, 20, 30]])
    n = rng.randint(1, 9)
    arrivals = []
    for i in range(n):
        t = rng.choice(times)
        it = gen_item(rng, i, t + rng.choice([0, 5, 20]))
        arrivals.append(dict(t=t, hops=rng.randint(0, 4), item=it, balk=rng.random() < 0.5))
    return dict(stages=stages, tick=tick, arrivals=arrivals, mode=rng.choice(["pre", "in"]))


def enum_bursts():
    """Exhaustive small scope (thorough tier): an item in service completes at t=10 while 1-3 items arrive
    at t=10 through every combination of hop counts 0..3; Server with 1 or 2 slots; both injection modes."""
    import itertools
    out = []
    for n in (1, 2, 3):
        for hops in itertools.product(range(4), repeat=n):
            for limit in (1, 2):
                for mode in ("pre", "in"):
                    arrivals = [dict(t=0, hops=2, item=dict(id=0, prio=0, dl=1000, flow=0), balk=False)]
                    for i, h in enumerate(hops):
                        arrivals.append(dict(t=10, hops=h, item=dict(id=i + 1, prio=i % 2, dl=1000, flow=i % 2), balk=False))
                    out.append(dict(stages=[dict(policy=dict(kind="fifo", cap=None), worker="server", limit=limit, svc=[10, 5])],
                                    tick=1, arrivals=arrivals, mode=mode))
    return out


def _norm_case(c):
    """Corpus files may use the single-stage layout of the first version."""
    if "stages" in c:
        return c
    c = dict(c)
    c["stages"] = [dict(policy=c.pop("policy"), worker=c.pop("worker"), limit=c.pop("limit"), svc=c.pop("svc"))]
    c.setdefault("tick", 1)
    return c


class _Meta:
    __slots__ = ("id", "prio", "dl", "flow")


def _meta(ev):
    m = _Meta()
    d = ev.context["metadata"]["item"]
    m.id, m.prio, m.dl, m.flow = d["id"], d["prio"], d["dl_ns"], d["flow"]
    return m


def initial_limit(st):
    if st["worker"] != "shift":
        return st["limit"]
    for a, b, cap in sorted(st["shifts"]):
        if a <= 0 < b:
            return cap
    return st["default_capacity"]


def impl_pipe(c):
    from collections.abc import Generator

    from happysimulator.components.industrial.reneging import RenegingQueuedResource
    from happysimulator.components.industrial.shift_schedule import Shift, ShiftedServer, ShiftSchedule
    from happysimulator.components.queue import QueueDeliverEvent, QueueNotifyEvent, QueuePollEvent
    from happysimulator.components.server.server import Server
    from happysimulator.core.entity import Entity
    from happysimulator.core.event import Event
    from happysimulator.core.simulation import Simulation
    from happysimulator.core.temporal import Duration, Instant
    from hsverif.util import run_bounded

    c = _norm_case(c)
    tick = c["tick"]

    class Lat:
        def __init__(self, seq):
            self.seq, self.i = list(seq), 0

        def next_ns(self):
            v = self.seq[self.i % len(self.seq)]
            self.i += 1
            return v * tick

        def get_latency(self, now):
            return Duration(self.next_ns())

    class Relay(Entity):
        def __init__(self, name, nxt):
            super().__init__(name)
            self.nxt = nxt

        def handle_event(self, e):
            return [Event(time=self.now, event_type=e.event_type, target=self.nxt, context=e.context)]

    class Sink(Entity):
        def __init__(self, name):
            super().__init__(name)
            self.got = []

        def handle_event(self, e):
            self.got.append([self.now.nanoseconds, e.context["metadata"]["item"]["id"]])

    class RenegSrv(RenegingQueuedResource):
        def __init__(self, name, limit, lat, downstream, policy, reneged_target):
            super().__init__(name, reneged_target=reneged_target, policy=policy)
            self._active, self._limit, self._done, self._lat, self._down = 0, limit, 0, lat, downstream

        def has_capacity(self):
            return self._active < self._limit

        def _handle_served_event(self, event):
            self._active += 1
            yield self._lat.next_ns() / 1e9
            self._active -= 1
            self._done += 1
            return [Event(time=self.now, event_type=event.event_type, target=self._down, context=event.context)]

    def mk_event(a, heads):
        it = dict(a["item"])
        it["dl_ns"] = it["dl"] * tick
        return Event(time=Instant(a["t"] * tick), event_type="req", target=heads[a["hops"]],
                     context={"metadata": {"item": it, "balk": a["balk"]},
                              "patience_s": (it["dl"] - a["t"]) * tick / 1e9})

    class Injector(Entity):
        def __init__(self, arrivals, heads):
            super().__init__("inj")
            self.arr, self.heads = arrivals, heads

        def handle_event(self, e):
            return [mk_event(a, self.heads) for a in self.arr]

    rand = _Rand()
    sink = Sink("sink")
    rsink = Sink("reneged")
    ents = [sink, rsink]
    logs, servers = [], []
    nxt = sink
    clockbox = {}
    for si in reversed(range(len(c["stages"]))):
        st = c["stages"][si]
        base_policy(st["policy"])["unit"] = tick
        pol = make_policy(st["policy"], _meta, lambda: clockbox["e"].now.nanoseconds, rand)
        if st["worker"] == "server":
            srv = Server(f"srv{si}", concurrency=st["limit"], service_time=Lat(st["svc"]), queue_policy=pol, downstream=nxt)
            cm = srv._concurrency_model

            def state(srv=srv, cm=cm):
                return [srv._queue.depth, srv._queue.stats_accepted, srv._queue.stats_dropped, cm.active, cm.limit,
                        srv._requests_completed, srv._requests_rejected]
        elif st["worker"] == "shift":
            sched = ShiftSchedule([Shift(a * tick / 1e9, b * tick / 1e9, cap) for a, b, cap in st["shifts"]],
                                  default_capacity=st["default_capacity"])
            srv = ShiftedServer(f"srv{si}", sched, service_time=st["svc"][0] * tick / 1e9, downstream=nxt, policy=pol)

            def state(srv=srv):
                return [srv._queue.depth, srv._queue.stats_accepted, srv._queue.stats_dropped, srv._active,
                        srv._current_capacity, srv._processed, 0]
        else:
            srv = RenegSrv(f"srv{si}", st["limit"], Lat(st["svc"]), nxt, pol, rsink)

            def state(srv=srv):
                return [srv._queue.depth, srv._queue.stats_accepted, srv._queue.stats_dropped, srv._active, srv._limit,
                        srv._done, srv._reneged]
        log = []
        _instrument(srv, pol, rand, log, state, QueuePollEvent, QueueNotifyEvent, QueueDeliverEvent, Generator)
        logs.insert(0, log)
        servers.insert(0, (srv, state))
        ents.append(srv)
        nxt = srv
    srv0 = servers[0][0]
    clockbox["e"] = srv0._queue
    heads = {0: srv0}
    prev = srv0
    for h in range(1, 5):
        r = Relay(f"r{h}", prev)
        heads[h] = r
        ents.append(r)
        prev = r
    inj = Injector(c["arrivals"], heads)
    ents.append(inj)
    sim = Simulation(entities=ents, end_time=Instant(END_NS))
    if c["mode"] == "pre":
        for a in c["arrivals"]:
            sim.schedule(mk_event(a, heads))
    else:
        sim.schedule(Event(time=Instant(0), event_type="kick", target=inj))
    _, verdict = run_bounded(sim, wall_s=20.0)
    return dict(logs=logs, sink=sink.got, reneged=rsink.got, verdict=verdict, final=[st() for _, st in servers])


def _instrument(srv, pol, rand, log, state, QueuePollEvent, QueueNotifyEvent, QueueDeliverEvent, Generator):
    """Record every handler invocation of one queue-fronted resource: queue, driver, worker
    generator segments, completion hook, shift changes; with outputs and state afterwards."""
    def now():
        return srv._queue.now.nanoseconds

    def classify(evs):
        out = []
        for e in evs or []:
            if isinstance(e, QueueNotifyEvent):
                out.append(["notify"])
            elif isinstance(e, QueuePollEvent):
                out.append(["poll"])
            elif isinstance(e, QueueDeliverEvent):
                out.append(["deliver", _meta(e.payload).id])
            else:
                out.append(["other", e.event_type])
        return out

    def qsnap():
        return snap_policy(pol, _meta)

    q_orig = srv._queue.handle_event

    def q_logged(ev):
        if isinstance(ev, QueuePollEvent):
            r = q_orig(ev)
            log.append(dict(t=now(), h="poll", out=classify(r), st=state(), q=qsnap()))
            return r
        rand.next_balk = bool(ev.context["metadata"].get("balk"))
        red = _find_red(pol)
        before = (red.stats.dropped_probabilistic + red.stats.dropped_forced) if red is not None else 0
        r = q_orig(ev)
        balk = rand.next_balk
        if red is not None:   # RED's early-drop decision (float EWMA + draw) is an input of the model
            balk = (red.stats.dropped_probabilistic + red.stats.dropped_forced) > before
        log.append(dict(t=now(), h="enq", item=ev.context["metadata"]["item"], balk=balk, out=classify(r),
                        st=state(), q=qsnap()))
        return r

    srv._queue.handle_event = q_logged
    d_orig = srv._driver.handle_event

    def d_logged(ev):
        if isinstance(ev, QueueNotifyEvent):
            r = d_orig(ev)
            log.append(dict(t=now(), h="notify", out=classify(r), st=state(), q=qsnap()))
            return r
        if isinstance(ev, QueueDeliverEvent):
            x = _meta(ev.payload).id
            r = d_orig(ev)
            outs = []
            for e in r:
                if e is ev.payload and e.target is srv._worker:
                    outs.append(["payload", x])
                    hook = e.on_complete[-1]

                    def logged_hook(time, hook=hook):
                        hr = hook(time)
                        log.append(dict(t=now(), h="hook", out=classify([hr] if hr is not None else []), st=state(), q=qsnap()))
                        return hr
                    e.on_complete[-1] = logged_hook
                else:
                    outs.append(["other", e.event_type])
            log.append(dict(t=now(), h="deliver", x=x, out=outs, st=state(), q=qsnap()))
            return r
        r = d_orig(ev)
        log.append(dict(t=now(), h="driver-other", out=classify(r), st=state(), q=qsnap()))
        return r

    srv._driver.handle_event = d_logged
    w_orig = srv._worker.handle_event

    def w_logged(ev):
        x = _meta(ev).id
        g = w_orig(ev)
        if not isinstance(g, Generator):
            log.append(dict(t=now(), h="start", x=x, out=[], ret=True, st=state(), q=qsnap(),
                            value=[e.event_type for e in (g or [])]))
            return g

        def wrap():
            sent, seg = None, 0
            while True:
                try:
                    y = g.send(sent)
                except StopIteration as s:
                    log.append(dict(t=now(), h="start" if seg == 0 else "resume", x=x, out=[], ret=True, st=state(), q=qsnap()))
                    return s.value
                log.append(dict(t=now(), h="start" if seg == 0 else "resume", x=x, out=[["cont", x]], ret=False,
                                st=state(), q=qsnap(), delay=y))
                sent = yield y
                seg += 1
        return wrap()

    srv._worker.handle_event = w_logged
    if hasattr(srv, "_handle_shift_change"):
        sc_orig = srv._handle_shift_change

        def sc_logged():
            r = sc_orig()
            log.append(dict(t=now(), h="setlimit", n=srv._current_capacity, out=[], st=state(), q=qsnap()))
            return r
        srv._handle_shift_change = sc_logged


def _find_red(pol):
    while pol is not None:
        if type(pol).__name__ == "REDQueue":
            return pol
        pol = getattr(pol, "inner", None) if type(pol).__name__ == "BalkingQueue" else None
    return None


def pev_term(o):
    k = o[0]
    if k == "notify":
        return Raw("PNotify")
    if k == "poll":
        return Raw("PPoll")
    if k == "deliver":
        return Ctor("PDeliver", o[1])
    if k == "payload":
        return Ctor("PPayload", o[1])
    if k == "cont":
        return Ctor("PCont", o[1])
    raise ValueError(f"unexpected output event {o}")


def pipe_steps(log):
    """Merge the raw handler log of one resource into world labels: worker segments that
    return are followed by their completion hook in the same engine step."""
    steps = []
    i = 0
    while i < len(log):
        e = log[i]
        h = e["h"]
        if h == "enq":
            steps.append(dict(label=("arrive", e["balk"], e["item"]), out=e["out"], st=e["st"], q=e["q"], t=e["t"]))
        elif h == "poll":
            steps.append(dict(label=("fire", e["t"], ["poll"]), out=e["out"], st=e["st"], q=e["q"], t=e["t"]))
        elif h == "notify":
            steps.append(dict(label=("fire", e["t"], ["notify"]), out=e["out"], st=e["st"], q=e["q"], t=e["t"]))
        elif h == "deliver":
            steps.append(dict(label=("fire", e["t"], ["deliver", e["x"]]), out=e["out"], st=e["st"], q=e["q"], t=e["t"]))
        elif h == "setlimit":
            steps.append(dict(label=("setlimit", e["n"]), out=[], st=e["st"], q=e["q"], t=e["t"]))
        elif h in ("start", "resume"):
            out = list(e["out"])
            st, q = e["st"], e["q"]
            if e["ret"]:
                if i + 1 < len(log) and log[i + 1]["h"] == "hook" and log[i + 1]["t"] == e["t"]:
                    out += log[i + 1]["out"]
                    st, q = log[i + 1]["st"], log[i + 1]["q"]
                    i += 1
                else:
                    raise ValueError("worker generator finished without its completion hook running next")
            ev = ["payload", e["x"]] if h == "start" else ["cont", e["x"]]
            steps.append(dict(label=("fire", e["t"], ev), out=out, st=st, q=q, t=e["t"], started=(h == "start" and not e["ret"]),
                              finished=(h == "resume"), discarded=(h == "start" and e["ret"]), x=e["x"]))
        else:
            raise ValueError(f"unexpected handler log entry {h}")
        i += 1
    return steps


WKIND = {"server": "WServer", "shift": "WShift", "reneg": "WReneg"}


def encode_pipe(c, obs):
    c = _norm_case(c)
    out = []
    for st, log in zip(c["stages"], obs["logs"]):
        w = pol_weights(st["policy"])
        tr = []
        sched, prev_ids = [], []
        for s in pipe_steps(log):
            lb = s["label"]
            if lb[0] == "fire" and lb[2][0] == "poll" and any(o[0] == "deliver" for o in s["out"]):
                delivered = [o[1] for o in s["out"] if o[0] == "deliver"]
                sched.append(len([x for x in prev_ids if x not in s["q"][1] and x not in delivered]))
            prev_ids = s["q"][1]
            if lb[0] == "arrive":
                it = dict(lb[2])
                it["dl"] = it["dl_ns"]
                lt = Ctor("LArrive", lb[1], item_term(it, w))
            elif lb[0] == "setlimit":
                lt = Ctor("LSetLimit", lb[1])
            else:
                lt = Ctor("LFire", lb[1], pev_term(lb[2]))
            tr.append((lt, [pev_term(o) for o in s["out"]], s["st"], (s["q"][0], s["q"][1], s["q"][2])))
        out.append((Raw(WKIND[st["worker"]]), pol_term(st["policy"], sched if base_kind(st["policy"]) == "codel" else ()),
                    initial_limit(st), tr))
    return term(out)


def oracle_stage(st, steps, offered_in, sink_out, reneged_out, last, tick=1):
    """C08 on one resource's run: ledger per offered item, in-service bound, no stranding."""
    fails = []
    kind = st["worker"]
    refused, waiting, transit, service, done, disc, expired = set(), set(), set(), set(), [], [], set()
    seen = []
    raised_while_waiting = False
    prev_lim = None
    dl_of = {}
    for idx, s in enumerate(steps):
        lb = s["label"]
        depth, acc, drp, act, lim, fin, rej = s["st"]
        held_now = set(s["q"][1])
        if lb[0] == "arrive":
            x = lb[2]["id"]
            dl_of[x] = lb[2]["dl_ns"]
            seen.append(x)
            if x in held_now:
                waiting.add(x)
            else:
                refused.add(x)
        elif lb[0] == "setlimit":
            if prev_lim is not None and lb[1] > prev_lim and depth > 0:
                raised_while_waiting = True
            if kind == "shift":
                tt = s["t"] // tick
                want = next((cap for a, b, cap in sorted(st["shifts"]) if a <= tt < b), st["default_capacity"])
                if lb[1] != want:
                    fails.append(dict(clause="the shift capacity in force is the one the schedule defines", step=idx, t=tt, got=lb[1], expected=want))
        else:
            ev = lb[2]
            if ev[0] == "poll":
                gone = waiting - held_now
                for o in s["out"]:
                    if o[0] == "deliver":
                        transit.add(o[1])
                        gone = gone - {o[1]}
                expired |= gone
                waiting = waiting & held_now
            elif ev[0] == "payload":
                transit.discard(ev[1])
                if s["started"]:
                    service.add(ev[1])
                    if act > lim or len(service) > lim:
                        fails.append(dict(clause="work in service never exceeds the concurrency limit", step=idx,
                                          in_service=len(service), active=act, limit=lim, mechanism="over-dispatch",
                                          what="a second poll issued while a delivery was in flight dispatches more items than the "
                                               "worker has slots; the worker increments its active counter without a guard"))
                else:
                    disc.append(ev[1])
                    if kind == "reneg" and not s["t"] > dl_of[ev[1]]:
                        fails.append(dict(clause="an item reneges only when it waited longer than its patience", step=idx, item=ev[1]))
                if kind == "reneg" and s["started"] and s["t"] > dl_of[ev[1]]:
                    fails.append(dict(clause="an item that waited longer than its patience is not served", step=idx, item=ev[1]))
            elif ev[0] == "cont":
                service.discard(ev[1])
                done.append(ev[1])
        prev_lim = lim
        classes = [refused, waiting, transit, service, set(done), set(disc), expired]
        for x in seen:
            k = sum(1 for cl in classes if x in cl)
            if k != 1:
                fails.append(dict(clause="each offered item is exactly one of rejected-and-counted, waiting, in service, completed",
                                  step=idx, item=x, classes=k))
                break
        if len(done) != len(set(done)):
            fails.append(dict(clause="an item completes at most once", step=idx))
        if drp != len(refused) or acc != len(seen) - len(refused) or fin != len(done) or rej != len(disc) or depth != len(waiting):
            fails.append(dict(clause="counters agree with the ledger (accepted/dropped/completed/rejected/depth)", step=idx,
                              st=s["st"], ledger=[len(waiting), len(seen) - len(refused), len(refused), len(service), len(done), len(disc)]))
        if act != len(service):
            fails.append(dict(clause="active counter equals the number of items in service", step=idx, active=act, in_service=len(service)))
        last_of_instant = idx + 1 == len(steps) or steps[idx + 1]["t"] > s["t"]
        if last_of_instant and depth > 0 and act < lim:
            if act > 0:
                mech = "strand-partial"
            elif kind == "shift" and raised_while_waiting:
                mech = "strand-capacity-raised"
            else:
                mech = "strand-idle"
            fails.append(dict(clause="no simulated time passes while an item waits and the worker has free capacity",
                              step=idx, t=s["t"], depth=depth, active=act, limit=lim, mechanism=mech,
                              what="item waits in the queue although the worker has a free slot: only the enqueue that finds the queue "
                                   "empty notifies the driver, and the driver polls once per notify/completion"
                              if mech == "strand-partial" else
                              "items wait with an idle worker after the shift capacity was raised: nothing polls the queue when "
                              "capacity becomes available"))
    # one failure per (clause, mechanism), first occurrence
    uniq, seen_k = [], set()
    for f in fails:
        k = (f["clause"], f.get("mechanism"))
        if k not in seen_k:
            seen_k.add(k)
            uniq.append(f)
    fails = uniq
    if True:
        if disc and kind == "server":
            fails.append(dict(clause="accepted work is never discarded (each offered item is rejected at admission, waiting, in service or completed)",
                              mechanism="overpoll-discard", items=disc,
                              what="item accepted by the queue, dequeued by a second poll while the first delivery was still in flight, "
                                   "then dropped by Server.handle_queued_event (requests_rejected) because acquire() failed"))
        if sorted(sink_out) != sorted(done):
            fails.append(dict(clause="each completed item reaches the downstream exactly once", sink=sink_out, done=done))
        if kind == "reneg" and last and sorted(reneged_out) != sorted(disc):
            fails.append(dict(clause="each reneged item reaches the reneged target exactly once", got=reneged_out, reneged=disc))
        if sorted(seen) != sorted(offered_in):
            fails.append(dict(clause="every arrival reaches the queue exactly once", offered=offered_in, seen=seen))
    return fails, done


def oracle_pipe(c, obs):
    c = _norm_case(c)
    if obs["verdict"] != "ok":
        return [dict(clause="the run terminates", verdict=obs["verdict"])]
    offered = [a["item"]["id"] for a in c["arrivals"]]
    all_steps = [pipe_steps(log) for log in obs["logs"]]
    fails = []
    n = len(c["stages"])
    for i, (st, steps) in enumerate(zip(c["stages"], all_steps)):
        if i + 1 < n:
            out_ids = [s["label"][2]["id"] for s in all_steps[i + 1] if s["label"][0] == "arrive"]
        else:
            out_ids = [g[1] for g in obs["sink"]]
        f, done = oracle_stage(st, steps, offered, out_ids, [g[1] for g in obs["reneged"]], n == 1, c["tick"])
        for x in f:
            x["stage"] = i
        fails += f
        offered = done
    return fails[:4]


def attribute_pipe(c, obs, f):
    m = f.get("mechanism")
    if m == "overpoll-discard":
        return "C08-overpoll-discard"
    if m == "strand-partial":
        return "C08-strand-partial-capacity"
    if m == "strand-capacity-raised":
        return "C08-strand-capacity-raised"
    if m == "over-dispatch":
        c = _norm_case(c)
        if c["stages"][f.get("stage", 0)]["worker"] in ("shift", "reneg"):
            return "C08-unguarded-over-dispatch"
    return None


def nontrivial_pipe(c, obs):
    ts = [a["t"] for a in c["arrivals"]]
    hops = {a["hops"] for a in c["arrivals"]}
    return len(ts) != len(set(ts)) and len(hops) > 1


def describe_pipe(c):
    c = _norm_case(c)
    return "+".join(f"{s['worker']}/{s['policy']['kind']}" for s in c["stages"]) + f",{c['mode']}"


# --------------------------------------------------------------------------- industrial components
def gen_conc(rng):
    m = rng.choice(["fixed", "dyn", "weighted"])
    c = dict(kind="conc", model=m, ops=[])
    if m == "fixed":
        c["mx"] = rng.randint(1, 3)
    elif m == "dyn":
        c["mn"] = rng.randint(1, 2)
        c["mxl"] = rng.choice([None, c["mn"] + rng.randint(0, 3)])
        c["init"] = c["mn"] + (rng.randint(0, 2) if c["mxl"] is None else rng.randint(0, c["mxl"] - c["mn"]))
    else:
        c["total"] = rng.randint(1, 6)
    for _ in range(rng.randint(1, 30)):
        k = rng.random()
        w = rng.choice([1, 1, 1, 2, 3, 0, -1]) if m == "weighted" else rng.choice([1, 1, 2])
        if k < 0.4:
            c["ops"].append(["acquire", w])
        elif k < 0.7:
            c["ops"].append(["release", w])
        elif k < 0.85 or m != "dyn":
            c["ops"].append(["has", w])
        else:
            c["ops"].append([rng.choice(["set", "up", "down"]), rng.randint(0, 4)])
    return c


def impl_conc(c):
    from happysimulator.components.server.concurrency import DynamicConcurrency, FixedConcurrency, WeightedConcurrency
    if c["model"] == "fixed":
        m = FixedConcurrency(c["mx"])
    elif c["model"] == "dyn":
        m = DynamicConcurrency(c["init"], min_limit=c["mn"], max_limit=c["mxl"])
    else:
        m = WeightedConcurrency(c["total"])
    out = []
    for op, a in c["ops"]:
        lim_before = m.limit
        try:
            if op == "acquire":
                r = 1 if m.acquire(a) else 0
            elif op == "release":
                m.release(a)
                r = 0
            elif op == "has":
                r = 1 if m.has_capacity(a) else 0
            elif op == "set":
                m.set_limit(a)
                r = 0
            elif op == "up":
                m.scale_up(a)
                r = 0
            else:
                m.scale_down(a)
                r = 0
        except ValueError:
            r = 2
        out.append(dict(res=r, active=m.active, limit=m.limit, available=m.available, lim_before=lim_before))
    return dict(log=out, verdict="ok")


def encode_conc(c, obs):
    if c["model"] == "fixed":
        m = Ctor("CFixed", c["mx"], 0)
    elif c["model"] == "dyn":
        m = Ctor("CDyn", c["init"], c["mn"], opt(c["mxl"]), 0)
    else:
        m = Ctor("CWeighted", c["total"], 0)
    tr = []
    for (op, a), e in zip(c["ops"], obs["log"]):
        if op == "acquire":
            o = Ctor("CAcquire", a)
        elif op == "release":
            o = Ctor("CRelease", a)
        elif op == "has":
            o = Ctor("CHasCap", a)
        elif op == "set":
            o = Ctor("CSetLimit", a)
        elif op == "up":
            o = Ctor("CSetLimit", e["lim_before"] + a)
        else:
            o = Ctor("CSetLimit", e["lim_before"] - a)
        tr.append((o, (e["res"], e["active"], e["limit"])))
    return term(Ctor("IConc", m, tr))


def oracle_conc(c, obs):
    fails = []
    prev_active = 0
    for idx, ((op, a), e) in enumerate(zip(c["ops"], obs["log"])):
        if op == "acquire" and e["res"] == 1 and e["active"] > e["limit"]:
            fails.append(dict(clause="work in service never exceeds the concurrency limit (concurrency model admits above its limit)", step=idx))
        if c["model"] != "dyn" and not 0 <= e["active"] <= e["limit"]:
            fails.append(dict(clause="work in service never exceeds the concurrency limit (concurrency model)", step=idx, active=e["active"]))
        if op == "acquire" and e["res"] != 1 and e["active"] != prev_active:
            fails.append(dict(clause="a refused acquire does not take capacity", step=idx))
        if op == "has" and c["model"] != "weighted" and (e["res"] == 1) != (e["active"] < e["limit"]):
            fails.append(dict(clause="has_capacity agrees with active < limit", step=idx))
        if e["active"] < 0:
            fails.append(dict(clause="active count is never negative", step=idx))
        prev_active = e["active"]
    return fails[:2]


def gen_ind(rng):
    if rng.random() < 0.2:
        return gen_conc(rng)
    kind = rng.choice(["pooled", "pooled", "gate", "conveyor", "batch"])
    times = rng.choice([[0], [0, 0, 5], [0, 5, 10, 10], [0, 1, 2, 3, 10], [0, 10, 20]])
    n = rng.randint(1, 9)
    arrivals = [dict(t=rng.choice(times), hops=rng.randint(0, 3), id=i) for i in range(n)]
    c = dict(kind=kind, arrivals=arrivals, mode=rng.choice(["pre", "in"]))
    if kind == "pooled":
        c.update(size=rng.randint(1, 3), cap=rng.choice([0, 0, 1, 2]), cycle=rng.choice([0, 5, 10]))
    elif kind == "gate":
        bs = sorted(rng.sample([1, 2, 5, 10, 11, 20], rng.choice([2, 4])))
        c.update(cap=rng.choice([0, 0, 1, 2, 3]), initially_open=rng.random() < 0.5,
                 schedule=[[bs[i], bs[i + 1]] for i in range(0, len(bs), 2)])
    elif kind == "conveyor":
        c.update(cap=rng.choice([0, 1, 2, 3]), transit=rng.choice([0, 5, 10]))
    else:
        c.update(size=rng.randint(1, 4), process=rng.choice([0, 5]), timeout=rng.choice([0, 0, 3, 10]))
    return c


def impl_ind(c):
    if c["kind"] == "conc":
        return impl_conc(c)
    from collections.abc import Generator

    from happysimulator.components.industrial.batch_processor import BatchProcessor
    from happysimulator.components.industrial.conveyor import ConveyorBelt
    from happysimulator.components.industrial.gate_controller import GateController
    from happysimulator.components.industrial.pooled_cycle import PooledCycleResource
    from happysimulator.core.entity import Entity
    from happysimulator.core.event import Event
    from happysimulator.core.simulation import Simulation
    from happysimulator.core.temporal import Instant
    from hsverif.util import run_bounded

    S = 10 ** 9   # times of the case are whole seconds (float-exact)

    class Relay(Entity):
        def __init__(self, name, nxt):
            super().__init__(name)
            self.nxt = nxt

        def handle_event(self, e):
            return [Event(time=self.now, event_type=e.event_type, target=self.nxt, context=e.context)]

    class Sink(Entity):
        def __init__(self):
            super().__init__("sink")
            self.got = []

        def handle_event(self, e):
            self.got.append([self.now.nanoseconds // S, e.context["metadata"]["id"]])

    def mk_event(a, heads):
        return Event(time=Instant(a["t"] * S), event_type="req", target=heads[a["hops"]], context={"metadata": {"id": a["id"]}})

    class Injector(Entity):
        def __init__(self, arrivals, heads):
            super().__init__("inj")
            self.arr, self.heads = arrivals, heads

        def handle_event(self, e):
            return [mk_event(a, self.heads) for a in self.arr]

    sink = Sink()
    k = c["kind"]
    if k == "pooled":
        res = PooledCycleResource("res", pool_size=c["size"], cycle_time=float(c["cycle"]), downstream=sink, queue_capacity=c["cap"])
    elif k == "gate":
        res = GateController("res", downstream=sink, schedule=[(float(a), float(b)) for a, b in c["schedule"]],
                             initially_open=c["initially_open"], queue_capacity=c["cap"])
    elif k == "conveyor":
        res = ConveyorBelt("res", downstream=sink, transit_time=float(c["transit"]), capacity=c["cap"])
    else:
        res = BatchProcessor("res", downstream=sink, batch_size=c["size"], process_time=float(c["process"]), timeout_s=float(c["timeout"]))

    def xid(ev):
        return ev.context["metadata"]["id"]

    def snap():
        if k == "pooled":
            return [[res._available, res._active, res._completed, res._rejected], [xid(e) for e in res._queue]]
        if k == "gate":
            st = res.stats
            return [[1 if st.is_open else 0, st.passed_through, st.queued_while_closed, st.rejected, st.open_cycles],
                    [xid(e) for e in res._queue]]
        if k == "conveyor":
            return [res._items_in_transit, res._items_transported, res._items_rejected]
        return [[0 if res._timeout_event is None else 1, res._batches_processed, res._items_processed, res._timeouts],
                [xid(e) for e in res._buffer]]

    log = []
    own = {}      # id(event) -> event, for events the component sent to itself
    orig = res.handle_event

    def now():
        return res.now.nanoseconds // S

    def outs_of(evs, batch=None):
        out = []
        for e in evs or []:
            if e.target is res:
                own[id(e)] = e
                out.append(["timeout"] if e.event_type == "_BatchTimeout" else ["retry", xid(e)])
            elif e.target is sink:
                out.append(["fwd", xid(e)])
            else:
                out.append(["other", e.event_type])
        return out

    def logged(ev):
        et = ev.event_type
        if et in ("_GateOpen", "_GateClose"):
            kind_in = ["open"] if et == "_GateOpen" else ["close"]
        elif et == "_BatchTimeout":
            kind_in = ["timeout"]
        elif id(ev) in own:
            kind_in = ["retry", xid(ev)]
        else:
            kind_in = ["arrive", xid(ev)]
        had_timeout = getattr(res, "_timeout_event", None)
        buf_before = [xid(e) for e in getattr(res, "_buffer", [])]
        g = orig(ev)
        if not isinstance(g, Generator):
            log.append(dict(t=now(), i=kind_in, out=outs_of(g), snap=snap()))
            return g

        def wrap():
            sent, seg = None, 0
            tag = None
            while True:
                try:
                    y = g.send(sent)
                except StopIteration as s:
                    if seg == 0:
                        log.append(dict(t=now(), i=kind_in, out=outs_of(s.value), snap=snap()))
                    else:
                        log.append(dict(t=now(), i=["resume", tag], out=outs_of(s.value), snap=snap()))
                    return s.value
                if k == "batch":
                    batch = buf_before + ([xid(ev)] if kind_in[0] == "arrive" else [])
                    tag = batch
                    o = ([["cancel"]] if had_timeout is not None and had_timeout.cancelled and kind_in[0] == "arrive" else []) + [["cont", batch]]
                else:
                    tag = xid(ev)
                    o = [["cont", tag]]
                log.append(dict(t=now(), i=kind_in, out=o, snap=snap(), delay=y))
                sent = yield y
                seg += 1
        return wrap()

    res.handle_event = logged
    heads = {0: res}
    ents = [res, sink]
    prev = res
    for h in range(1, 4):
        r = Relay(f"r{h}", prev)
        heads[h] = r
        ents.append(r)
        prev = r
    inj = Injector(c["arrivals"], heads)
    ents.append(inj)
    sim = Simulation(entities=ents, end_time=Instant(END_NS))
    if k == "gate":
        sim.schedule(res.start_events())
    if c["mode"] == "pre":
        for a in c["arrivals"]:
            sim.schedule(mk_event(a, heads))
    else:
        sim.schedule(Event(time=Instant(0), event_type="kick", target=inj))
    _, verdict = run_bounded(sim, wall_s=20.0)
    return dict(log=log, sink=sink.got, verdict=verdict, final=snap())


def encode_ind(c, obs):
    k = c["kind"]
    if k == "conc":
        return encode_conc(c, obs)
    tr = []
    for e in obs["log"]:
        i, out = e["i"], e["out"]
        if k == "pooled":
            lab = {"arrive": lambda: Ctor("CArrive", i[1]), "retry": lambda: Ctor("CFire", Ctor("CRetry", i[1])),
                   "resume": lambda: Ctor("CFire", Ctor("CCont", i[1]))}[i[0]]()
            o = []
            for x in out:
                if x[0] == "cont":
                    o.append(Ctor("CCont", x[1]))
                elif x[0] == "retry":
                    o.append(Ctor("CRetry", x[1]))
                elif x[0] != "fwd":
                    raise ValueError(f"unexpected output {x}")
            tr.append((lab, o, (e["snap"][0], e["snap"][1])))
        elif k == "gate":
            lab = {"arrive": lambda: Ctor("GArr", i[1]), "open": lambda: Raw("GOpen"), "close": lambda: Raw("GClose")}[i[0]]()
            o = []
            for x in out:
                if x[0] != "fwd":
                    raise ValueError(f"unexpected output {x}")
                o.append(x[1])
            tr.append((lab, o, (e["snap"][0], e["snap"][1])))
        elif k == "conveyor":
            lab = {"arrive": lambda: Ctor("VArr", i[1]), "resume": lambda: Ctor("VRes", i[1])}[i[0]]()
            o = []
            for x in out:
                if x[0] == "cont":
                    o.append(Ctor("inl", x[1]))
                elif x[0] == "fwd":
                    o.append(Ctor("inr", x[1]))
                else:
                    raise ValueError(f"unexpected output {x}")
            tr.append((lab, o, e["snap"]))
        else:
            lab = {"arrive": lambda: Ctor("BArr", i[1]), "timeout": lambda: Raw("BFireTimeout"),
                   "resume": lambda: Ctor("BRes", i[1])}[i[0]]()
            o = []
            for x in out:
                if x[0] == "timeout":
                    o.append(Ctor("BSched", Raw("BTimeout")))
                elif x[0] == "cancel":
                    o.append(Raw("BCancel"))
                elif x[0] == "cont":
                    o.append(Ctor("BSched", Ctor("BCont", x[1])))
                elif x[0] == "fwd":
                    o.append(Ctor("BFwd", x[1]))
                else:
                    raise ValueError(f"unexpected output {x}")
            tr.append((lab, o, (e["snap"][0], e["snap"][1])))
    if k == "pooled":
        return term(Ctor("IPooled", c["size"], c["cap"], tr))
    if k == "gate":
        return term(Ctor("IGate", c["cap"], c["initially_open"], tr))
    if k == "conveyor":
        return term(Ctor("IConv", c["cap"], tr))
    return term(Ctor("IBatch", c["size"], c["timeout"] > 0, tr))


def oracle_ind(c, obs):
    """C08 for the self-contained industrial components, on the implementation's run."""
    if obs["verdict"] != "ok":
        return [dict(clause="the run terminates", verdict=obs["verdict"])]
    k = c["kind"]
    if k == "conc":
        return oracle_conc(c, obs)
    log = obs["log"]
    fails = []
    offered = sorted(a["id"] for a in c["arrivals"])
    seen = sorted(e["i"][1] for e in log if e["i"][0] == "arrive")
    if seen != offered:
        fails.append(dict(clause="every arrival reaches the component exactly once", offered=offered, seen=seen))
    sink_ids = [g[1] for g in obs["sink"]]
    if len(sink_ids) != len(set(sink_ids)):
        fails.append(dict(clause="an item completes at most once", sink=sink_ids))
    first_seen = {}
    if k == "pooled":
        waiting, service, done, rejected = [], set(), [], []
        for idx, e in enumerate(log):
            i = e["i"]
            (avail, act, comp, rej), q = e["snap"]
            if i[0] in ("arrive", "retry"):
                x = i[1]
                first_seen.setdefault(x, idx)
                was_waiting = x in waiting
                if was_waiting:
                    waiting.remove(x)
                if any(o[0] == "cont" for o in e["out"]):
                    service.add(x)
                    older = [y for y in waiting if first_seen[y] < first_seen[x]]
                    if older:
                        fails.append(dict(clause="items leave a queue in the order its policy defines (FIFO waiting line of the pool)",
                                          mechanism="retry-loses-slot", item=x, overtaken=older, step=idx,
                                          what="a dequeued item is re-emitted as a new event; a same-instant arrival processed before "
                                               "that event takes the freed unit and is served before items that waited longer"))
                elif x in q:
                    waiting.append(x)
                    if was_waiting and q[-1] == x and len(q) > 1:
                        fails.append(dict(clause="items leave a queue in the order its policy defines (FIFO waiting line of the pool)",
                                          mechanism="retry-loses-slot", item=x, step=idx,
                                          what="a dequeued item whose re-emitted event found no unit is re-queued behind later arrivals"))
                else:
                    rejected.append(x)
                    if was_waiting:
                        fails.append(dict(clause="accepted work is never discarded (a queued item is rejected after it was dequeued)",
                                          mechanism="retry-rejected", item=x, step=idx,
                                          what="a dequeued item whose re-emitted event found no unit and a full queue is rejected"))
            else:
                service.discard(i[1])
                done.append(i[1])
                for o in e["out"]:
                    if o[0] == "retry" and o[1] not in waiting:
                        fails.append(dict(clause="pool re-emits an item that is not waiting", step=idx))
            if c["cap"] > 0 and len(q) > c["cap"]:
                fails.append(dict(clause="a queue never holds more than its capacity (pool waiting line)", step=idx, q=q))
            if act > c["size"] or avail + act != c["size"] or avail < 0:
                fails.append(dict(clause="work in service never exceeds the concurrency limit (pool units)", step=idx, snap=e["snap"]))
            if act != len(service) or comp != len(done) or rej != len(rejected):
                fails.append(dict(clause="counters agree with the ledger (pool)", step=idx, snap=e["snap"]))
            inflight = [y for y in waiting if y not in q]
            last = idx + 1 == len(log) or log[idx + 1]["t"] > e["t"]
            if last and (q or inflight) and avail > 0:
                fails.append(dict(clause="no simulated time passes while an item waits and the worker has free capacity (pool)",
                                  step=idx, snap=e["snap"]))
        if sorted(done) != sorted(sink_ids):
            fails.append(dict(clause="each completed item reaches the downstream exactly once", done=done, sink=sink_ids))
        if sorted(done + rejected + list(service) + waiting) != offered and seen == offered:
            fails.append(dict(clause="each offered item is exactly one of rejected-and-counted, waiting, in service, completed (pool)"))
    elif k == "gate":
        q, passed, rejected = [], [], []
        for idx, e in enumerate(log):
            i = e["i"]
            cs, qs = e["snap"]
            fwd = [o[1] for o in e["out"] if o[0] == "fwd"]
            if i[0] == "arrive":
                x = i[1]
                if fwd == [x]:
                    passed.append(x)
                    if q:
                        fails.append(dict(clause="items leave the gate queue in FIFO order (arrival passes while others are queued)", step=idx))
                elif x in qs:
                    q.append(x)
                else:
                    rejected.append(x)
            elif i[0] == "open":
                if fwd != (q if fwd else fwd):
                    fails.append(dict(clause="items leave the gate queue in FIFO order", step=idx, flushed=fwd, queued=q))
                if fwd:
                    passed += fwd
                    q = []
            if qs != q:
                fails.append(dict(clause="gate queue holds exactly the items that are waiting", step=idx, q=qs, expected=q))
            if c["cap"] > 0 and len(qs) > c["cap"]:
                fails.append(dict(clause="a queue never holds more than its capacity (gate)", step=idx))
            if cs[1] != len(passed) or cs[3] != len(rejected):
                fails.append(dict(clause="counters agree with the ledger (gate)", step=idx))
            if cs[0] == 1 and qs:
                fails.append(dict(clause="no simulated time passes while an item waits and the gate is open", step=idx))
        if passed != sink_ids:
            fails.append(dict(clause="each passed item reaches the downstream exactly once, in order", passed=passed, sink=sink_ids))
        if sorted(passed + q + rejected) != offered and seen == offered:
            fails.append(dict(clause="each offered item is exactly one of rejected-and-counted, waiting, passed (gate)"))
    elif k == "conveyor":
        transit, done, rejected = set(), [], []
        for idx, e in enumerate(log):
            i = e["i"]
            tr_n, dn, rj = e["snap"]
            if i[0] == "arrive":
                if any(o[0] == "cont" for o in e["out"]):
                    transit.add(i[1])
                else:
                    rejected.append(i[1])
            else:
                transit.discard(i[1])
                done.append(i[1])
            if c["cap"] > 0 and tr_n > c["cap"]:
                fails.append(dict(clause="work in service never exceeds the concurrency limit (conveyor capacity)", step=idx))
            if tr_n != len(transit) or dn != len(done) or rj != len(rejected):
                fails.append(dict(clause="counters agree with the ledger (conveyor)", step=idx))
        if sorted(done) != sorted(sink_ids):
            fails.append(dict(clause="each transported item reaches the downstream exactly once", done=done, sink=sink_ids))
        if sorted(done + rejected + list(transit)) != offered and seen == offered:
            fails.append(dict(clause="each offered item is exactly one of rejected-and-counted, in transit, transported (conveyor)"))
    else:
        buf, inb, done = [], [], []
        for idx, e in enumerate(log):
            i = e["i"]
            cs, bs = e["snap"]
            if i[0] == "arrive":
                buf.append(i[1])
            for o in e["out"]:
                if o[0] == "cont":
                    inb += o[1]
                    buf = [x for x in buf if x not in o[1]]
                elif o[0] == "fwd":
                    done.append(o[1])
                    if o[1] in inb:
                        inb.remove(o[1])
            if bs != buf:
                fails.append(dict(clause="batch buffer holds exactly the items that are waiting", step=idx, buf=bs, expected=buf))
            last = idx + 1 == len(log) or log[idx + 1]["t"] > e["t"]
            if last and len(bs) >= c["size"]:
                fails.append(dict(clause="no simulated time passes while a full batch waits", step=idx, mechanism="full-batch-waits-for-timeout",
                                  what="BatchProcessor.handle_event schedules the timeout and returns before checking whether the batch is full",
                                  buffered=len(bs), size=c["size"]))
        if sorted(done) != sorted(sink_ids):
            fails.append(dict(clause="each processed item reaches the downstream exactly once", done=done, sink=sink_ids))
        if sorted(done + buf + inb) != offered and seen == offered:
            fails.append(dict(clause="each offered item is exactly one of buffered, in a batch being processed, forwarded (batch)"))
    uniq, seen_k = [], set()
    for f in fails:
        kk = (f["clause"], f.get("mechanism"))
        if kk not in seen_k:
            seen_k.add(kk)
            uniq.append(f)
    return uniq[:4]


def attribute_ind(c, obs, f):
    m = f.get("mechanism")
    if m in ("retry-loses-slot", "retry-rejected") and c["kind"] == "pooled":
        return "C08-pooled-retry-loses-slot"
    if m == "full-batch-waits-for-timeout" and c["kind"] == "batch":
        return "C08-batch-full-waits"
    return None


# --------------------------------------------------------------------------- families
POLICY_T = "pol * list pop_op * list (pobs * psnap)"
PIPE_T = "list (wkind * pol * Z * list (wlabel * list pev * wsnap * psnap))"

FAMILIES = [
    Family("policy", IMPORTS, "ok_policy", POLICY_T, gen_policy, impl_policy, encode_policy, oracle_policy,
           nontrivial=lambda c, o: any(x[0] == "pop" for x in c["ops"]),
           describe=lambda c: c["policy"]["kind"]),
    Family("pipeline", IMPORTS, "ok_pipelines", PIPE_T, gen_pipe, impl_pipe, encode_pipe, oracle_pipe,
           nontrivial=nontrivial_pipe, attribute=attribute_pipe, parallel=True,
           describe=describe_pipe),
    Family("industrial", "From HS Require Import Base.Prelude C08.Model C08.IndModel.", "ok_ind", "icase", gen_ind, impl_ind,
           encode_ind, oracle_ind, nontrivial=lambda c, o: c["kind"] == "conc" or len({a["t"] for a in c["arrivals"]}) < len(c["arrivals"]),
           attribute=attribute_ind, parallel=True, describe=lambda c: c["kind"] + ("/" + c["model"] if c["kind"] == "conc" else "")),
]

TRUSTED = [
    "Coq 8.16.1 kernel (coqc, vm_compute for refutation witnesses and case evaluation); no native_compute",
    "axioms: none (every theorem of C08/Props.v is 'Closed under the global context')",
    "correspondence harness harness/props/c08.py (generators, handler recorders, in-Coq comparison ok_* of C08/Model.v)",
    "CPython heapq/deque/OrderedDict (outside /repo): heap with unique (key, insert_order) entries pops like a sorted list",
    "translator harness/translate/py2coq.py + declared types (py2coq_targets.py QueuePolicyGen): FIFOQueue, LIFOQueue, PriorityQueue and the "
    "dataclass order of _PriorityEntry are regenerated from components/queue_policy.py on every run and proved to refine the policy model "
    "(C08/GenTie.v); idioms trusted: a capacity is float('inf') or an integer, items are their ids, deque.popleft()/pop() on an empty deque "
    "raise, heapq on a list touched only through heappush/heappop/[0]/len is a list sorted by the element order, _get_priority(item) is an "
    "arbitrary integer per call",
    "the same translator regenerates FixedConcurrency / DynamicConcurrency / WeightedConcurrency from components/server/concurrency.py "
    "(ConcurrencyGen; C08/ConcTie.v proves every operation equal to the model's cm_step); logging calls are no-ops",
    "... and DeadlineQueue.push/pop/is_empty/__len__ from components/queue_policies/deadline_queue.py (DeadlineGen; C08/DeadlineTie.v): "
    "`while heap: x = heappop(heap)` is a fold over the current heap, _get_deadline(item) an arbitrary instant per call, _now() the clock reading",
    "the world model lets ANY pending pipeline event fire next; the real engine's choice (heap order) is not modelled here, the "
    "correspondence check verifies that every recorded run is one of the world's schedules",
]


class _Sharded:
    """Same Ctx, but the in-Coq evaluation of a family is split into small shards that coqc
    evaluates in parallel (one big cases.v is dominated by parsing time)."""

    def __init__(self, ctx, shard):
        self._ctx, self._shard = ctx, shard

    def __getattr__(self, name):
        return getattr(self._ctx, name)

    def coq_cases(self, tag, imports, ok_fn, case_type, cases):
        from hsverif import coq
        return coq.eval_cases(f"{self._ctx.pid}_{tag}", imports, ok_fn, case_type, cases, shard=self._shard, workers=12)


def run(ctx):
    from props import pygen
    ok, info = pygen.regenerate("QueuePolicyGen")     # components/queue_policy.py translated from $HS_REPO by py2coq
    ok2, info2 = pygen.regenerate("ConcurrencyGen")   # components/server/concurrency.py
    ok3, info3 = pygen.regenerate("DeadlineGen")      # components/queue_policies/deadline_queue.py
    ctx.coverage["regenerated"] = [info, info2, info3]
    ctx.prove(COQ_FILES, allowed_axioms=(), trusted_base=TRUSTED)
    if not (ok and ok2 and ok3) and ctx.pending_obligation_violation:
        ctx.pending_obligation_violation["translator"] = info.get("error") or info2.get("error") or info3.get("error")
    stats = []
    for fam, n in ((FAMILIES[0], ctx.n(250, 2000)), (FAMILIES[1], ctx.n(250, 1500)), (FAMILIES[2], ctx.n(200, 1500))):
        stats.append(run_family(_Sharded(ctx, 400), fam, n))
        ctx.log(f"family {fam.name}: {stats[-1]['cases']} cases, mismatches={stats[-1]['mismatches']}, "
                f"oracle failures={stats[-1]['oracle_failures']} (known {stats[-1]['known']})")
    if not ctx.quick:
        todo = enum_bursts()
        it = iter(todo)
        fam = Family("pipeline", IMPORTS, "ok_pipelines", PIPE_T, lambda rng: next(it), impl_pipe, encode_pipe, oracle_pipe,
                     nontrivial=nontrivial_pipe, attribute=attribute_pipe, parallel=True, describe=lambda c: "enumerated-burst")
        fam.name = "pipeline_enum"
        stats.append(run_family(_Sharded(ctx, 400), fam, len(todo)))
        ctx.log(f"family pipeline_enum (exhaustive bursts): {stats[-1]['cases']} cases, mismatches={stats[-1]['mismatches']}, "
                f"oracle failures={stats[-1]['oracle_failures']} (known {stats[-1]['known']})")
    ctx.assumptions += [
        "the engine's choice of the next event is NOT modelled: the world models let any pending event of the component fire next "
        "(a superset of the engine's schedules); every recorded real run is checked to be a schedule of the world model",
        "clauses refuted on the faithful model (known findings): accepted work never discarded (Server over-poll), no stranding with "
        ">= 2 slots, in-service bound for unguarded workers (ShiftedServer), no stranding after a capacity increase, FIFO waiting "
        "line of PooledCycleResource; partial theorems: c08_no_stranding_partial / _single_slot, c08_concurrency_bound (Server)",
        "RED early-drop decisions, CoDel drop counts, balking draws and RED/CoDel float arithmetic are inputs of the model (oracle "
        "streams); theorems hold for every stream; ShiftSchedule.capacity_at is checked by the oracle only",
        "WeightedFairQueue has capacity/conservation theorems and per-flow FIFO in the oracle, no credit-discipline theorem; "
        "AdaptiveLIFO/RED/CoDel have capacity/conservation theorems, their order is checked by the oracle only",
    ]
    merge_stats(ctx, stats, "policy: random push/pop sequences over 7 policy kinds with small capacities, deadlines around the clock, "
                            "4 flows; pipeline: bursts at equal nanoseconds through relay chains of 0-4 hops into a Server with "
                            "concurrency 1-3, service times from {0,1,5,10} ns, arrivals scheduled before run() or created inside it; "
                            "non-trivial = contains a pop / a same-instant burst over different hop counts; distinct by JSON of the input")
    ctx.finish_obligations()


def replay(data):
    fam = {f.name: f for f in FAMILIES}[data["detail"]["family"].replace("pipeline_enum", "pipeline")]
    c = data["detail"]["case"]
    obs = fam.impl(c)
    fails = fam.oracle(c, obs)
    print("observations:", obs)
    print("oracle failures:", fails)
    return 1 if fails else 0
