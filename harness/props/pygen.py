"""Regenerate coq/Gen/<Target>.v from $HS_REPO with py2coq on every run (rewritten only when the
content changes).  Returns (ok, info): on an untranslatable source the file is replaced by a stub that
does not define the methods, so every tie lemma breaks (fail closed) and `info` names the construct."""
from __future__ import annotations

import os
import sys

sys.path.insert(0, os.path.join(os.path.dirname(__file__), "..", "translate"))
import py2coq  # noqa: E402
from py2coq_targets import TARGETS  # noqa: E402


def regenerate(name: str):
    repo = os.environ.get("HS_REPO", "/repo")
    tgt = TARGETS[name]
    p = os.path.join("/verif/coq", tgt["out"])
    info = dict(target=name, out=tgt["out"], sources=sorted({c["file"] for c in tgt["classes"]}),
                methods=sum(len(c["methods"]) for c in tgt["classes"]))
    try:
        txt = py2coq.translate_target(repo, tgt)
        ok = True
    except (py2coq.Unsupported, SyntaxError, OSError) as e:
        txt = f"(* GENERATION FAILED (fail closed): {str(e).replace('*)', '* )')} *)\n"
        info["error"] = str(e)
        ok = False
    os.makedirs(os.path.dirname(p), exist_ok=True)
    if not os.path.exists(p) or open(p).read() != txt:
        tmp = p + f".{os.getpid()}.tmp"
        open(tmp, "w").write(txt)
        os.replace(tmp, p)
    info["lines"] = txt.count("\n")
    return ok, info


if __name__ == "__main__":
    for n in (sys.argv[1:] or TARGETS):
        print(regenerate(n))
