"""C09 — capacity primitives never over-admit or leak, wake in order, let time pass.

Tie to /repo: every generated operation schedule is executed on the real
objects (Resource, ...), directly and inside real Simulations with worker
processes; after every operation the public counters (and the private wait
queues, see below) are compared inside Coq with the model C09/Model.v (ok_*
functions).  The property oracle evaluates the C09 statement on the
implementation's observations alone.

Private attributes read: Resource._waiters (amounts of queued acquires),
SimFuture._add_settle_callback (order in which futures resolve).
"""
from __future__ import annotations

from hsverif.coq import Ctor, Nat, SomeV, term
from hsverif.family import Family, merge_stats, run_family

IMPORTS = "From HS Require Import Base.Prelude C09.Model."
LEVEL = "proof"


# --------------------------------------------------------------------------- Resource, direct drive
def gen_resource(rng):
    cap = rng.choice([1, 1, 2, 2, 3, 4, 6])
    unit = rng.random() < 0.25
    forced = rng.random() < 0.12
    malformed = rng.random() < 0.2
    ops, n_ids, now = [], 0, 0
    for _ in range(rng.randint(1, 32)):
        now += rng.choice([0, 0, 1, 5, 1000])
        k = rng.random()
        if k < 0.42:
            a = 1 if unit else rng.randint(1, cap)
            if malformed and rng.random() < 0.15:
                a = rng.choice([0, -1, cap + 1])
            ops.append(["acq", now, a])
            n_ids += 1
        elif k < 0.5:
            a = 1 if unit else rng.randint(1, cap)
            if malformed and rng.random() < 0.15:
                a = rng.choice([0, -2, cap + 2])
            ops.append(["try", now, a])
            n_ids += 1
        elif forced and k < 0.56:
            ops.append(["force", now, rng.randint(1, cap)])
        elif n_ids:
            ops.append(["rel", now, rng.randrange(n_ids)])
    return dict(cap=cap, clock=rng.random() < 0.8, ops=ops)


def impl_resource(c):
    from happysimulator.components.resource import Resource
    from happysimulator.core.clock import Clock
    from happysimulator.core.temporal import Instant
    res = Resource("r", c["cap"])
    clock = Clock(Instant(0))
    if c["clock"]:
        res.set_clock(clock)
    grants, futures, resolved_log = {}, {}, []
    nid = 0
    steps = []
    for o in c["ops"]:
        clock.update(Instant(o[1]))
        resolved_log.clear()
        code = None
        try:
            if o[0] == "acq":
                fut = res.acquire(o[2])
                i = nid
                nid += 1
                futures[i] = fut
                if fut.is_resolved:
                    resolved_log.append(i)
                    code = 1
                else:
                    fut._add_settle_callback(lambda f, i=i: resolved_log.append(i))
                    code = 2
            elif o[0] == "try":
                g = res.try_acquire(o[2])
                if g is None:
                    code = 3
                else:
                    i = nid
                    nid += 1
                    grants[i] = g
                    resolved_log.append(i)
                    code = 1
            elif o[0] == "rel":
                i = o[2]
                g = grants.get(i)
                if g is None and i in futures and futures[i].is_resolved:
                    g = grants[i] = futures[i].value
                if g is None or g.released:
                    if g is not None:
                        g.release()          # second release on the real object
                    code = 5
                else:
                    g.release()
                    code = 4
            elif o[0] == "force":
                res._do_release(o[2])
                code = 4
        except ValueError:
            code = 0
            # ids are consumed only by successful calls (the future is created after validation)
        for i, f in futures.items():
            if i not in grants and f.is_resolved:
                grants[i] = f.value
        live = sum(g.amount for g in grants.values() if not g.released)
        st = res.stats
        steps.append(dict(code=code, resolved=list(resolved_log), avail=res.available,
                          waiters=[w.amount for w in res._waiters], live=live, nwaiters=res.waiters,
                          stats=[st.acquisitions, st.releases, st.contentions, st.total_wait_time_ns, st.peak_waiters]))
    return steps


def rop_term(c, o):
    now = o[1] if c["clock"] else -1
    return Ctor({"acq": "RAcquire", "try": "RTry", "rel": "RRelease", "force": "RForce"}[o[0]], now, o[2])


def encode_resource(c, obs):
    steps = []
    for o, s in zip(c["ops"], obs):
        steps.append((rop_term(c, o), (s["code"], s["resolved"], s["avail"], s["waiters"], s["live"], s["stats"])))
    return term((c["cap"], steps))


def oracle_capacity_steps(c, obs, cap, legit):
    """The C09 statement on a sequence of (op, observation) of an amount-based primitive."""
    out = []
    queue = []          # arrival-ordered ids currently blocked
    nid = 0
    granted = set()
    for k, (o, s) in enumerate(zip(c["ops"], obs)):
        if not (0 <= s["avail"] <= cap):
            out.append(dict(clause="available stays within [0, capacity]", step=k, avail=s["avail"]))
            break
        if legit and s["avail"] + s["live"] != cap:
            out.append(dict(clause="held plus available equals capacity", step=k, avail=s["avail"], held=s["live"]))
            break
        if legit and s["live"] > cap:
            out.append(dict(clause="never more outstanding amount than the limit", step=k, held=s["live"]))
            break
        for i in s["resolved"]:
            if i in granted:
                out.append(dict(clause="each acquire is granted at most once", step=k, id=i))
            granted.add(i)
        if o[0] in ("acq", "try") and s["code"] in (1, 2):
            i = nid
            nid += 1
            if s["code"] == 2:
                queue.append(i)
            elif queue:
                out.append(dict(clause="granted in arrival order", mechanism="immediate-grant-overtakes-queue", step=k,
                                what="Resource.acquire grants a later, smaller request immediately while an earlier request is still queued (no check of the wait queue on the immediate path)"))
        if s["code"] == 4:
            woken = s["resolved"]
            if woken != queue[:len(woken)]:
                out.append(dict(clause="blocked acquirers are granted in arrival order", step=k, woken=woken, queue=queue))
                break
            queue = queue[len(woken):]
        if s["code"] == 5 and k > 0 and (s["avail"], s["waiters"], s["live"]) != (obs[k - 1]["avail"], obs[k - 1]["waiters"], obs[k - 1]["live"]):
            out.append(dict(clause="release of a released grant is a no-op", step=k))
        if s["waiters"] and s["avail"] >= s["waiters"][0]:
            out.append(dict(clause="granted as soon as capacity allows", step=k, avail=s["avail"], head=s["waiters"][0]))
            break
        if len(s["waiters"]) != len(queue):
            out.append(dict(clause="wait queue accounting", step=k, waiters=s["waiters"], expected=queue))
            break
    return out


def oracle_resource(c, obs):
    legit = not any(o[0] == "force" for o in c["ops"])
    fs = oracle_capacity_steps(c, obs, c["cap"], legit)
    # report the overtaking finding once per case
    seen, out = False, []
    for f in fs:
        if f.get("mechanism") == "immediate-grant-overtakes-queue":
            if seen:
                continue
            seen = True
        out.append(f)
    return out


def attribute_resource(c, obs, f):
    if f.get("mechanism") == "immediate-grant-overtakes-queue":
        return "C09-resource-overtake"
    return None


ROBS = "Z * list (rop * robs)"

FAMILIES = [
    Family("resource", IMPORTS, "ok_resource", ROBS, gen_resource, impl_resource, encode_resource,
           oracle_resource, lambda c, o: any(s["code"] == 4 and s["resolved"] for s in o), attribute_resource,
           describe=lambda c: f"cap={c['cap']},ops={len(c['ops']) // 10 * 10}+"),
]

TRUSTED = [
    "Coq 8.16.1 kernel (coqc, vm_compute for refutation witnesses and case evaluation); no native_compute",
    "axioms: none (every theorem of C09/Props.v is 'Closed under the global context')",
    "correspondence harness harness/props/c09.py (generators, observers, in-Coq comparison ok_* of C09/Model.v)",
    "model choices: amounts and capacities are integers (Z); client/grant identities are creation indices; time is an explicit input of each operation",
]

COQ_FILES = ["C09/Model.v", "C09/Resource.v", "C09/Props.v"]


def run(ctx):
    ctx.prove(COQ_FILES, allowed_axioms=(), trusted_base=TRUSTED)
    n = ctx.n(300, 6000)
    stats = [run_family(ctx, fam, n) for fam in FAMILIES]
    merge_stats(ctx, stats, "random operation schedules over small capacities/amounts; non-trivial = a release wakes at least one queued acquirer; distinct by JSON of the input")
    ctx.finish_obligations()
    ctx.assumptions += [
        "arrival order across all acquirers is refuted on the faithful Resource model (c09_resource_arrival_order_refuted), recorded as known finding C09-resource-overtake; FIFO among blocked acquirers is proved",
    ]


def replay(data):
    fam = {f.name: f for f in FAMILIES}[data["detail"]["family"]]
    c = data["detail"]["case"]
    obs = fam.impl(c)
    fails = fam.oracle(c, obs)
    print("observations:", obs)
    print("oracle failures:", fails)
    return 1 if fails else 0
