"""C09 — capacity primitives never over-admit or leak, wake in order, let time pass.

Tie to /repo: every generated operation schedule is executed on the real
objects (Resource, ...), directly and inside real Simulations with worker
processes; after every operation the public counters (and the private wait
queues, see below) are compared inside Coq with the model C09/Model.v (ok_*
functions).  The property oracle evaluates the C09 statement on the
implementation's observations alone.

Private attributes read: Resource._waiters (amounts of queued acquires),
SimFuture._add_settle_callback (order in which futures resolve).
"""
from __future__ import annotations

from hsverif.coq import Ctor, Nat, SomeV, term
from hsverif.family import Family, merge_stats, run_family

IMPORTS = "From HS Require Import Base.Prelude C09.Model."
LEVEL = "proof"


# --------------------------------------------------------------------------- Resource, direct drive
def gen_resource(rng):
    cap = rng.choice([1, 1, 2, 2, 3, 4, 6])
    unit = rng.random() < 0.25
    forced = rng.random() < 0.12
    malformed = rng.random() < 0.2
    ops, n_ids, now = [], 0, 0
    for _ in range(rng.randint(1, 32)):
        now += rng.choice([0, 0, 1, 5, 1000])
        k = rng.random()
        if k < 0.42:
            a = 1 if unit else rng.randint(1, cap)
            if malformed and rng.random() < 0.15:
                a = rng.choice([0, -1, cap + 1])
            ops.append(["acq", now, a])
            n_ids += 1
        elif k < 0.5:
            a = 1 if unit else rng.randint(1, cap)
            if malformed and rng.random() < 0.15:
                a = rng.choice([0, -2, cap + 2])
            ops.append(["try", now, a])
            n_ids += 1
        elif forced and k < 0.56:
            ops.append(["force", now, rng.randint(1, cap)])
        elif n_ids:
            ops.append(["rel", now, rng.randrange(n_ids)])
    return dict(cap=cap, clock=rng.random() < 0.8, ops=ops)


def impl_resource(c):
    from happysimulator.components.resource import Resource
    from happysimulator.core.clock import Clock
    from happysimulator.core.temporal import Instant
    res = Resource("r", c["cap"])
    clock = Clock(Instant(0))
    if c["clock"]:
        res.set_clock(clock)
    grants, futures, resolved_log = {}, {}, []
    nid = 0
    steps = []
    for o in c["ops"]:
        clock.update(Instant(o[1]))
        resolved_log.clear()
        code = None
        try:
            if o[0] == "acq":
                fut = res.acquire(o[2])
                i = nid
                nid += 1
                futures[i] = fut
                if fut.is_resolved:
                    resolved_log.append(i)
                    code = 1
                else:
                    fut._add_settle_callback(lambda f, i=i: resolved_log.append(i))
                    code = 2
            elif o[0] == "try":
                g = res.try_acquire(o[2])
                if g is None:
                    code = 3
                else:
                    i = nid
                    nid += 1
                    grants[i] = g
                    resolved_log.append(i)
                    code = 1
            elif o[0] == "rel":
                i = o[2]
                g = grants.get(i)
                if g is None and i in futures and futures[i].is_resolved:
                    g = grants[i] = futures[i].value
                if g is None or g.released:
                    if g is not None:
                        g.release()          # second release on the real object
                    code = 5
                else:
                    g.release()
                    code = 4
            elif o[0] == "force":
                res._do_release(o[2])
                code = 4
        except ValueError:
            code = 0
            # ids are consumed only by successful calls (the future is created after validation)
        for i, f in futures.items():
            if i not in grants and f.is_resolved:
                grants[i] = f.value
        live = sum(g.amount for g in grants.values() if not g.released)
        st = res.stats
        steps.append(dict(code=code, resolved=list(resolved_log), avail=res.available,
                          waiters=[w.amount for w in res._waiters], live=live, nwaiters=res.waiters,
                          stats=[st.acquisitions, st.releases, st.contentions, st.total_wait_time_ns, st.peak_waiters]))
    return steps


def rop_term(c, o):
    now = o[1] if c["clock"] else -1
    return Ctor({"acq": "RAcquire", "try": "RTry", "rel": "RRelease", "force": "RForce"}[o[0]], now, o[2])


def encode_resource(c, obs):
    steps = []
    for o, s in zip(c["ops"], obs):
        steps.append((rop_term(c, o), (s["code"], s["resolved"], s["avail"], s["waiters"], s["live"], s["stats"])))
    return term((c["cap"], steps))


def oracle_capacity_steps(c, obs, cap, legit):
    """The C09 statement on a sequence of (op, observation) of an amount-based primitive."""
    out = []
    queue = []          # arrival-ordered ids currently blocked
    nid = 0
    granted = set()
    for k, (o, s) in enumerate(zip(c["ops"], obs)):
        if not (0 <= s["avail"] <= cap):
            out.append(dict(clause="available stays within [0, capacity]", step=k, avail=s["avail"]))
            break
        if legit and s["avail"] + s["live"] != cap:
            out.append(dict(clause="held plus available equals capacity", step=k, avail=s["avail"], held=s["live"]))
            break
        if legit and s["live"] > cap:
            out.append(dict(clause="never more outstanding amount than the limit", step=k, held=s["live"]))
            break
        for i in s["resolved"]:
            if i in granted:
                out.append(dict(clause="each acquire is granted at most once", step=k, id=i))
            granted.add(i)
        if o[0] in ("acq", "try") and s["code"] in (1, 2):
            i = nid
            nid += 1
            if s["code"] == 2:
                queue.append(i)
            elif queue:
                out.append(dict(clause="granted in arrival order", mechanism="immediate-grant-overtakes-queue", step=k,
                                what="Resource.acquire grants a later, smaller request immediately while an earlier request is still queued (no check of the wait queue on the immediate path)"))
        if s["code"] == 4:
            woken = s["resolved"]
            if woken != queue[:len(woken)]:
                out.append(dict(clause="blocked acquirers are granted in arrival order", step=k, woken=woken, queue=queue))
                break
            queue = queue[len(woken):]
        if s["code"] == 5 and k > 0 and (s["avail"], s["waiters"], s["live"]) != (obs[k - 1]["avail"], obs[k - 1]["waiters"], obs[k - 1]["live"]):
            out.append(dict(clause="release of a released grant is a no-op", step=k))
        if s["waiters"] and s["avail"] >= s["waiters"][0]:
            out.append(dict(clause="granted as soon as capacity allows", step=k, avail=s["avail"], head=s["waiters"][0]))
            break
        if len(s["waiters"]) != len(queue):
            out.append(dict(clause="wait queue accounting", step=k, waiters=s["waiters"], expected=queue))
            break
    return out


def oracle_resource(c, obs):
    legit = not any(o[0] == "force" for o in c["ops"])
    fs = oracle_capacity_steps(c, obs, c["cap"], legit)
    # report the overtaking finding once per case
    seen, out = False, []
    for f in fs:
        if f.get("mechanism") == "immediate-grant-overtakes-queue":
            if seen:
                continue
            seen = True
        out.append(f)
    return out


def attribute_resource(c, obs, f):
    if f.get("mechanism") == "immediate-grant-overtakes-queue":
        return "C09-resource-overtake"
    return None



# --------------------------------------------------------------------------- worker processes inside a real Simulation
# A scenario: one primitive, W worker entities.  Worker i starts at `at` ns and runs its script:
#   ["acq", a] blocking acquire   ["try", a] non-blocking (on failure the worker skips to after its matching "rel")
#   ["hold", ns] yield a delay    ["rel", a] release
# `a`: Resource amount / Semaphore permits / RWLock 0=read 1=write / unused for Mutex.
# Every call on the primitive is recorded (operation, `now`, result kind, ids woken, counters) in global order:
# that trace is replayed through the model inside Coq (per-handler trace replay).

HOLDS = [0, 0, 1, 1000, 1000, 2000, 5000]


def gen_script(rng, kind, cap):
    script = []
    for _ in range(rng.choice([1, 1, 2])):
        if kind in ("resource", "semaphore"):
            a = rng.randint(1, cap) if rng.random() < 0.7 else 1
        elif kind == "rwlock":
            a = 1 if rng.random() < 0.35 else 0
        else:
            a = 0
        script.append(["try" if rng.random() < 0.15 else "acq", a])
        script.append(["hold", rng.choice(HOLDS)])
        script.append(["rel", a])
        if rng.random() < 0.5:
            script.append(["hold", rng.choice(HOLDS)])
    return script


def gen_sync(kind):
    def gen(rng):
        cap = 1 if kind == "mutex" else rng.choice([1, 2, 2, 3, 4])
        if kind == "rwlock":
            cap = rng.choice([0, 0, 1, 2, 3])          # 0 = unlimited readers
        nw = rng.randint(2, 6)
        simultaneous = rng.random() < 0.4
        workers = []
        for _ in range(nw):
            at = 0 if simultaneous else rng.choice([0, 0, 500, 1000, 1000, 1500, 3000])
            workers.append(dict(at=at, script=gen_script(rng, kind, max(cap, 1))))
        return dict(kind=kind, cap=cap, workers=workers)
    return gen


def _make_primitive(kind, cap):
    if kind == "resource":
        from happysimulator.components.resource import Resource
        return Resource("p", cap)
    if kind == "mutex":
        from happysimulator.components.sync import Mutex
        return Mutex("p")
    if kind == "semaphore":
        from happysimulator.components.sync import Semaphore
        return Semaphore("p", cap)
    if kind == "rwlock":
        from happysimulator.components.sync import RWLock
        return RWLock("p", max_readers=cap or None)
    raise ValueError(kind)


def _snapshot(kind, p, reg):
    if kind == "resource":
        st = p.stats
        return [p.available, st.acquisitions, st.releases, st.contentions, st.total_wait_time_ns, st.peak_waiters] + [w.amount for w in p._waiters]
    if kind == "mutex":
        st = p.stats
        owner = -1 if p.owner is None else int(p.owner)
        return [int(p.is_locked), owner, p.waiters, st.acquisitions, st.contentions, st.releases, st.total_wait_time_ns]
    if kind == "semaphore":
        st = p.stats
        return [p.available, st.acquisitions, st.releases, st.contentions, st.total_wait_time_ns, st.peak_waiters] + [w.count for w in p._waiters]
    if kind == "rwlock":
        st = p.stats
        return [p.active_readers, int(p.is_write_locked), st.read_acquisitions, st.write_acquisitions, st.read_releases,
                st.write_releases, st.read_contentions, st.write_contentions, st.total_read_wait_ns, st.total_write_wait_ns,
                st.peak_readers] + [int(w.waiter_type.value == "writer") if isinstance(w.waiter_type.value, str) else int(w.waiter_type.name == "WRITER") for w in p._waiters]
    raise ValueError(kind)


def impl_sync(c):
    from happysimulator import Entity, Event, Instant, Simulation
    from happysimulator.core.sim_future import SimFuture
    from hsverif.util import run_bounded
    kind = c["kind"]
    prim = _make_primitive(kind, c["cap"])
    trace, wlog = [], []
    reg = {}                                  # id(waiter object) -> worker index (Resource: future id)
    counters = dict(resumes=0, intended=0, nid=0)
    futures, try_grants = [], []              # Resource only

    def queue_ids():
        return [reg.get(id(w), -1) for w in prim._waiters]

    def rec(op, code, woken=()):
        if len(trace) >= 100:                 # a livelocked run: keep the prefix only
            return
        e = dict(op=op, code=code, woken=list(woken), k=_snapshot(kind, prim, reg))
        if kind == "resource":
            gs = [f.value for f in futures if f.is_resolved] + try_grants
            e["live"] = sum(g.amount for g in gs if not g.released)
        trace.append(e)

    class Worker(Entity):
        def __init__(self, idx, script):
            super().__init__(f"w{idx}")
            self.idx, self.script = idx, script
            self.done = False
            self.blocked = False

        def _ns(self):
            return self.now.nanoseconds

        def _release(self, a, held):
            before = queue_ids()
            arg = a
            try:
                if kind == "resource":
                    arg, g = held.pop()
                    g.release()
                elif kind == "mutex":
                    prim.release()
                elif kind == "semaphore":
                    prim.release(a)
                elif kind == "rwlock":
                    (prim.release_write if a else prim.release_read)()
                after = queue_ids()
                woken = [x for x in before if x not in after]
                rec(["rel", self.idx, arg, self._ns(), a], 6, woken)
                wlog.append(["rel", self.idx, self._ns(), a, woken])
            except (RuntimeError, ValueError):
                rec(["rel", self.idx, arg, self._ns()], 3)

        def handle_event(self, event):
            i = self.idx
            held = []
            skip = False
            wlog.append(["arrive", i, self._ns()])
            for st in self.script:
                if skip:
                    if st[0] == "rel":
                        skip = False
                    continue
                if st[0] == "hold":
                    counters["intended"] += 1
                    yield st[1] / 1e9
                    counters["resumes"] += 1
                elif st[0] == "try":
                    a = st[1]
                    if kind == "resource":
                        g = prim.try_acquire(a)
                        ok = g is not None
                        if ok:
                            held.append((counters["nid"], g))
                            counters["nid"] += 1
                            try_grants.append(g)
                    elif kind == "mutex":
                        ok = prim.try_acquire(owner=str(i))
                    elif kind == "semaphore":
                        ok = prim.try_acquire(a)
                    else:
                        ok = prim.try_acquire_write() if a else prim.try_acquire_read()
                    rec(["try", i, a, self._ns()], 4 if ok else 5, [held[-1][0]] if ok and kind == "resource" else ())
                    if ok:
                        wlog.append(["acquired", i, self._ns(), a, "try"])
                    else:
                        skip = True
                elif st[0] == "acq":
                    a = st[1]
                    wlog.append(["request", i, self._ns(), a])
                    counters["intended"] += 1
                    if kind == "resource":
                        fut = prim.acquire(a)
                        fid = counters["nid"]
                        counters["nid"] += 1
                        futures.append(fut)
                        if fut.is_resolved:
                            rec(["acq", i, a, self._ns()], 0, [fid])
                        else:
                            reg[id(prim._waiters[-1])] = fid
                            self.blocked = True
                            rec(["acq", i, a, self._ns(), fid], 1)
                            wlog.append(["blocked", i, self._ns(), a, fid])
                        g = yield fut
                        counters["resumes"] += 1
                        self.blocked = False
                        held.append((fid, g))
                        wlog.append(["acquired", i, self._ns(), a, "acq", fid])
                        continue
                    if kind == "mutex":
                        gen = prim.acquire(owner=str(i))
                    elif kind == "semaphore":
                        gen = prim.acquire(a)
                    else:
                        gen = prim.acquire_write() if a else prim.acquire_read()
                    nq = len(prim._waiters)
                    v = next(gen)
                    parked = isinstance(v, SimFuture)
                    if len(prim._waiters) > nq:
                        reg[id(prim._waiters[-1])] = i
                        self.blocked = True
                        wlog.append(["blocked", i, self._ns(), a, i])
                    rec(["acq", i, a, self._ns(), i], 1 if parked else 0)
                    queued = self.blocked
                    while True:
                        x = yield v
                        counters["resumes"] += 1
                        try:
                            v = gen.send(x)
                        except StopIteration:
                            if queued:
                                rec(["resume", i, a, self._ns()], 2)
                            break
                        rec(["resume", i, a, self._ns()], 1 if isinstance(v, SimFuture) else 0)
                    self.blocked = False
                    wlog.append(["acquired", i, self._ns(), a, "acq", i])
                elif st[0] == "rel":
                    self._release(st[1], held)
            self.done = True

    workers = [Worker(i, w["script"]) for i, w in enumerate(c["workers"])]
    sim = Simulation(entities=[prim] + workers)
    for w, spec in zip(workers, c["workers"]):
        sim.schedule(Event(time=Instant(spec["at"]), event_type="go", target=w))
    summary, verdict = run_bounded(sim, max_events_per_instant=600, max_events=20000, wall_s=20.0)
    return dict(trace=trace, wlog=wlog, verdict=verdict,
                events=None if summary is None else summary.total_events_processed,
                resumes=counters["resumes"], intended=counters["intended"],
                done=[w.done for w in workers], blocked=[w.blocked for w in workers],
                final=_snapshot(kind, prim, reg))


def encode_sync(c, obs):
    kind = c["kind"]
    steps = []
    for e in obs["trace"]:
        name, i, a, now = e["op"][:4]
        if kind == "resource":
            # robs format of ok_resource: (code, resolved, avail, waiter amounts, live, stats)
            k = e["k"]
            code = {0: 1, 1: 2, 4: 1, 5: 3, 6: 4, 3: 0}[e["code"]]
            op = Ctor({"acq": "RAcquire", "try": "RTry", "rel": "RRelease"}[name], now, a)
            steps.append((op, (code, e["woken"], k[0], k[6:], e["live"], k[1:6])))
            continue
        if kind == "mutex":
            op = {"try": lambda: Ctor("MTry", i), "acq": lambda: Ctor("MAcqStart", i, now),
                  "resume": lambda: Ctor("MAcqResume", i, now), "rel": lambda: Ctor("MRelease", i, now)}[name]()
        elif kind == "semaphore":
            op = {"try": lambda: Ctor("STry", i, a), "acq": lambda: Ctor("SAcqStart", i, a, now),
                  "resume": lambda: Ctor("SAcqResume", i, now), "rel": lambda: Ctor("SRelease", a, now)}[name]()
        else:
            op = {"try": lambda: Ctor("RWTryW" if a else "RWTryR", i),
                  "acq": lambda: Ctor("RWAcqWStart" if a else "RWAcqRStart", i, now),
                  "resume": lambda: Ctor("RWResume", i, now),
                  "rel": lambda: Ctor("RWRelW" if a else "RWRelR", i, now)}[name]()
        steps.append((op, (e["code"], e["woken"], e["k"])))
    if kind == "mutex":
        return term(steps)
    if kind == "rwlock":
        return term((SomeV(c["cap"]) if c["cap"] else None, steps))
    return term((c["cap"], steps))


def _fits(kind, cap, k, head):
    """Would the head waiter be admitted in the state of snapshot k?"""
    if kind in ("resource", "semaphore"):
        return k[0] >= head
    if kind == "mutex":
        return not k[0]
    readers, wl = k[0], k[1]
    if head:                       # writer
        return not wl and readers == 0
    return not wl and not (cap and readers >= cap)


def oracle_sync(c, obs):
    kind, cap = c["kind"], c["cap"]
    out = []
    if obs["verdict"] != "ok":
        out.append(dict(clause="waiting consumes no simulated activity, so the clock advances to the release",
                        mechanism="spin-wait", verdict=obs["verdict"]))
        return out
    nstarted = sum(1 for e in obs["wlog"] if e[0] == "arrive")
    if obs["resumes"] != obs["intended"] or obs["events"] != nstarted + obs["resumes"]:
        out.append(dict(clause="waiting consumes no simulated activity", mechanism="extra-events",
                        events=obs["events"], expected=nstarted + obs["intended"], resumes=obs["resumes"]))
    # ---- accounting on the trace of calls
    queue = []                    # (id, amount/kind) of blocked acquirers, arrival order
    amount_of = {}
    held = 0                      # amount handed out (immediate, try, woken) and not released
    readers = writers = 0
    woken_at = {}
    for n, e in enumerate(obs["trace"]):
        name, i, a, now = e["op"][:4]
        k = e["k"]
        code = e["code"]
        unit = a if kind in ("resource", "semaphore") else 1
        if name == "acq" and code == 1:
            wid = e["op"][4]
            queue.append(wid)
            amount_of[wid] = a
        if (name == "acq" and code == 0) or (name == "try" and code == 4):
            if name == "acq" and queue:
                out.append(dict(clause="granted in arrival order", mechanism="immediate-grant-overtakes-queue", step=n, kind=kind,
                                what=f"{kind}: acquire grants a later request immediately while an earlier request is still queued"))
            if kind == "rwlock":
                if a:
                    writers += 1
                else:
                    readers += 1
            else:
                held += unit
        if name == "rel" and code == 6:
            if kind == "resource":
                held -= e["op"][4]
            elif kind == "rwlock":
                if a:
                    writers -= 1
                else:
                    readers -= 1
            else:
                held -= unit
            w = e["woken"]
            if w != queue[:len(w)]:
                out.append(dict(clause="blocked acquirers are granted in arrival order", step=n, woken=w, queue=list(queue)))
                return out
            for x in w:
                if x in woken_at:
                    pass
                woken_at[(x, n)] = now
                if kind == "rwlock":
                    if amount_of[x]:
                        writers += 1
                    else:
                        readers += 1
                else:
                    held += amount_of[x] if kind != "mutex" else 1
            queue = queue[len(w):]
        # bounds
        if kind in ("resource", "semaphore"):
            if not 0 <= k[0] <= cap:
                out.append(dict(clause="available stays within [0, capacity]", step=n, avail=k[0]))
                return out
            if k[0] + held != cap:
                out.append(dict(clause="held plus available equals capacity", step=n, avail=k[0], held=held))
                return out
        elif kind == "mutex":
            if held > 1 or (held == 1) != bool(k[0]):
                out.append(dict(clause="a mutex has at most one holder", step=n, holders=held, locked=k[0]))
                return out
        else:
            if writers > 1 or (writers and readers) or (cap and readers > cap):
                out.append(dict(clause="a writer excludes everyone, readers exclude writers, readers <= max_readers", step=n,
                                readers=readers, writers=writers))
                return out
            if readers != k[0] or bool(writers) != bool(k[1]):
                out.append(dict(clause="lock state equals the set of holders", step=n, readers=readers, writers=writers, k=k[:2]))
                return out
        if queue and _fits(kind, cap, k, amount_of[queue[0]]):
            out.append(dict(clause="granted as soon as capacity allows", step=n, head=queue[0], k=k[:3]))
            return out
    # ---- timing on the worker log: a woken waiter resumes at the instant of the release
    rel_time = {}
    for e in obs["wlog"]:
        if e[0] == "rel":
            for x in e[4]:
                rel_time.setdefault(x, []).append(e[2])
    acq_times = {}
    for e in obs["wlog"]:
        if e[0] == "acquired" and e[4] == "acq" and e[5] in rel_time:
            acq_times.setdefault(e[5], []).append(e[2])
    blocked_times = {}
    for e in obs["wlog"]:
        if e[0] == "blocked":
            blocked_times.setdefault(e[4], []).append(e[2])
    for x, rts in rel_time.items():
        # the j-th blocking of x is ended by the j-th release that woke x
        ats = [t for t, b in zip(_blocked_acq_times(obs["wlog"], x), range(len(rts)))]
        if ats != rts[:len(ats)] or len(ats) != len(rts):
            out.append(dict(clause="the clock advances to the release: a woken waiter resumes at the instant of the release",
                            waiter=x, released_at=rts, resumed_at=ats))
            break
    if not all(obs["done"]):
        out.append(dict(clause="every waiter whose predecessor releases is eventually served", done=obs["done"], blocked=obs["blocked"]))
    return out


def _blocked_acq_times(wlog, x):
    """Times at which the acquires of waiter id x that had been blocked completed."""
    out, pending = [], False
    for e in wlog:
        if e[0] == "blocked" and e[4] == x:
            pending = True
        elif e[0] == "acquired" and e[4] == "acq" and e[5] == x and pending:
            out.append(e[2])
            pending = False
    return out


def attribute_sync(c, obs, f):
    if f.get("mechanism") == "immediate-grant-overtakes-queue":
        return {"resource": "C09-resource-overtake", "semaphore": "C09-semaphore-overtake"}.get(c["kind"])
    return None


def nontrivial_sync(c, obs):
    return any(e["woken"] for e in obs["trace"] if e["op"][0] == "rel")


# --------------------------------------------------------------------------- ConnectionPool inside a real Simulation
def _poll_count(timeout):
    poll = min(0.1, timeout / 10)
    n, elapsed = 0, 0.0
    while elapsed < timeout:
        elapsed += poll
        n += 1
    return n


def gen_pool(rng):
    mx = rng.choice([1, 1, 2, 2, 3])
    mn = rng.choice([0, 0, 0, 1]) if mx > 1 else 0
    nw = rng.randint(2, 6)
    burst = rng.random() < 0.5
    lat = rng.choice([1_000_000, 5_000_000, 10_000_000])            # set-up latency (ns)
    timeout = rng.choice([0.02, 0.05, 0.25, 1.0])
    idle_timeout = rng.choice([0.03, 0.05, 60.0])
    workers = []
    for _ in range(nw):
        at = rng.choice([0, 0, 1000]) if burst else rng.choice([0, 500_000, 2_000_000, 6_000_000, 20_000_000])
        script = []
        for _ in range(rng.choice([1, 1, 2])):
            script += [["acq", 0], ["hold", rng.choice([0, 1_000_000, 4_000_000, 30_000_000, 80_000_000])], ["rel", 0]]
            if rng.random() < 0.4:
                script.append(["hold", rng.choice([1_000_000, 20_000_000, 50_000_000])])
        workers.append(dict(at=at, script=script))
    return dict(kind="pool", max=mx, min=mn, lat=lat, timeout=timeout, idle_timeout=idle_timeout, workers=workers)


def impl_pool(c):
    from happysimulator import Entity, Event, Instant, Simulation
    from happysimulator.components.client.connection_pool import ConnectionPool
    from happysimulator.distributions.constant import ConstantLatency
    from hsverif.util import run_bounded

    class Target(Entity):
        def handle_event(self, event):
            return None

    tgt = Target("t")
    pool = ConnectionPool("p", tgt, min_connections=c["min"], max_connections=c["max"],
                          connection_timeout=c["timeout"], idle_timeout=c["idle_timeout"],
                          connection_latency=ConstantLatency(c["lat"] / 1e9))
    trace, wlog = [], []

    def snap():
        st = pool.stats
        return dict(k=[pool.total_connections, pool.pending_requests, st.connections_created, st.connections_closed,
                       st.acquisitions, st.releases, st.timeouts],
                    idle=[x.id for x in pool._idle_connections], active=list(pool._active_connections.keys()))

    def rec(op, code, arg=0):
        if len(trace) < 400:
            trace.append(dict(op=op, code=code, arg=arg, **snap()))

    orig_idle = pool._handle_idle_timeout

    def traced_idle(event):
        md = event.context.get("metadata", {})
        cid, exp = md.get("connection_id"), md.get("expected_last_used")
        before = (pool.total_connections, [x.id for x in pool._idle_connections])
        r = orig_idle(event)
        if pool.total_connections < before[0]:
            code = 6
        elif r:
            code = 7
        else:
            code = 8
        rec(["idle", cid, exp.nanoseconds, pool.now.nanoseconds], code)
        return r

    pool._handle_idle_timeout = traced_idle

    class Worker(Entity):
        def __init__(self, idx, script):
            super().__init__(f"w{idx}")
            self.idx, self.script, self.done, self.timeouts = idx, script, False, 0

        def handle_event(self, event):
            i = self.idx
            conn = None
            skip = False
            for st in self.script:
                ns = lambda: self.now.nanoseconds  # noqa: E731
                if skip:
                    if st[0] == "rel":
                        skip = False
                    continue
                if st[0] == "hold":
                    yield st[1] / 1e9
                elif st[0] == "acq":
                    wlog.append(["request", i, ns()])
                    gen = pool.acquire()
                    nq = pool.pending_requests
                    try:
                        v = next(gen)
                    except StopIteration as e:
                        conn = e.value
                        rec(["start", i, 0, ns()], 0, conn.id)
                        wlog.append(["acquired", i, ns(), conn.id])
                        continue
                    waiting = pool.pending_requests > nq
                    rec(["start", i, 0, ns()], 2 if waiting else 1)
                    while True:
                        x = yield v
                        try:
                            v = gen.send(x)
                        except StopIteration as e:
                            conn = e.value
                            rec(["poll" if waiting else "created", i, 0, ns()], 0, conn.id)
                            wlog.append(["acquired", i, ns(), conn.id])
                            break
                        except TimeoutError:
                            rec(["poll", i, 0, ns()], 3)
                            wlog.append(["timeout", i, ns()])
                            conn = None
                            skip = True
                            self.timeouts += 1
                            break
                        rec(["poll" if waiting else "created", i, 0, ns()], 2 if waiting else 1)
                elif st[0] == "rel":
                    nq = [w[0] for w in pool._waiters]
                    evs = pool.release(conn)
                    after = [w[0] for w in pool._waiters]
                    if len(after) < len(nq):
                        code, arg = 4, waiter_client.get(nq[0], -1)
                    elif conn.id in [x.id for x in pool._idle_connections]:
                        code, arg = 5, 0
                    else:
                        code, arg = 9, 0
                    rec(["rel", i, conn.id, ns()], code, arg)
                    wlog.append(["rel", i, ns(), conn.id])
                    conn = None
                    if evs:
                        yield 0.0, evs
            self.done = True

    waiter_client = {}
    orig_append = None
    workers = [Worker(i, w["script"]) for i, w in enumerate(c["workers"])]

    # map waiter ids to clients: the pool numbers waiters 1, 2, ... in the order of the "start" steps that queued
    class _Reg(dict):
        pass

    sim = Simulation(entities=[tgt, pool] + workers, end_time=Instant.from_seconds(4.0))   # min_connections > 0 re-arms the idle timer forever
    for w, spec in zip(workers, c["workers"]):
        sim.schedule(Event(time=Instant(spec["at"]), event_type="go", target=w))
    if c.get("warm"):
        sim.schedule(pool.warmup())
    # waiter id -> client is reconstructed from the trace afterwards (ids are consecutive)
    def fill_waiters():
        n = 0
        for e in trace:
            if e["op"][0] == "start" and e["code"] == 2:
                n += 1
                waiter_client[n] = e["op"][1]
    # release needs the mapping while running: keep it current through a cheap hook
    orig_rec = rec
    def rec2(op, code, arg=0):                # noqa: E306
        orig_rec(op, code, arg)
        if op[0] == "start" and code == 2:
            waiter_client[pool._next_waiter_id] = op[1]
    rec = rec2                                # noqa: F841  (closures above look `rec` up at call time)
    summary, verdict = run_bounded(sim, max_events_per_instant=600, max_events=20000, wall_s=20.0)
    return dict(trace=trace, wlog=wlog, verdict=verdict, done=[w.done for w in workers],
                timeouts=[w.timeouts for w in workers], final=snap(), polls=_poll_count(c["timeout"]))


def encode_pool(c, obs):
    steps = []
    for e in obs["trace"]:
        name, i, a, now = e["op"]
        if name == "start":
            op = Ctor("PAcqStart", i)
        elif name == "created":
            op = Ctor("PCreateDone", i)
        elif name == "poll":
            op = Ctor("PPoll", i)
        elif name == "rel":
            op = Ctor("PRelease", i, a, now)
        else:
            op = Ctor("PIdleTimeout", i, a)
        steps.append((op, (e["code"], e["arg"], e["k"], e["idle"], e["active"])))
    return term((c["max"], c["min"], obs["polls"], steps))


def oracle_pool(c, obs):
    out = []
    mx = c["max"]
    if obs["verdict"] != "ok":
        return [dict(clause="waiting consumes no simulated activity", verdict=obs["verdict"])]
    queue = []
    for n, e in enumerate(obs["trace"]):
        k = e["k"]
        if len(e["active"]) > mx or k[0] > mx:
            out.append(dict(clause="a connection pool never has more connections than max_connections", mechanism="slot-counted-after-setup",
                            step=n, active=len(e["active"]), total=k[0], max=mx))
            return out
        if len(set(e["active"])) != len(e["active"]) or set(e["active"]) & set(e["idle"]):
            out.append(dict(clause="a connection is held by at most one client", step=n, active=e["active"], idle=e["idle"]))
            return out
        if e["op"][0] == "start" and e["code"] == 2:
            queue.append(e["op"][1])
        if e["op"][0] == "rel" and e["code"] == 4:
            if not queue or e["arg"] != queue[0]:
                out.append(dict(clause="blocked acquirers are served in arrival order", step=n, got=e["arg"], queue=list(queue)))
                return out
            queue.pop(0)
        if e["op"][0] == "poll" and e["code"] == 3 and e["op"][1] in queue:
            queue.remove(e["op"][1])
        if k[1] and (e["idle"] or k[0] < mx):
            out.append(dict(clause="granted as soon as capacity allows", step=n, pending=k[1], idle=e["idle"], total=k[0]))
            return out
    # every connection handed out is eventually given back; nobody is left blocked
    if not all(obs["done"]):
        out.append(dict(clause="every waiter whose predecessor releases is eventually served", done=obs["done"]))
    if obs["final"]["active"]:
        out.append(dict(clause="held plus available equals capacity (no leaked connection)", final=obs["final"]))
    return out


def gen_poolwarm(rng):
    """Pool warm-up (min_connections close to max_connections, slow set-up) racing with acquirers."""
    mx = rng.choice([2, 3, 4])
    c = gen_pool(rng)
    c.update(max=mx, min=rng.choice([mx - 1, mx, mx]), lat=rng.choice([5_000_000, 10_000_000]), warm=True, idle_timeout=60.0)
    for w in c["workers"]:
        w["at"] = rng.choice([0, 1000, 2_000_000, 6_000_000, 12_000_000, 30_000_000])
    return c


def oracle_poolwarm(c, obs):
    """Warm-up is not in the Coq pool model: the bound, exclusivity and no-leak clauses only."""
    if obs["verdict"] != "ok":
        return [dict(clause="waiting consumes no simulated activity", verdict=obs["verdict"])]
    mx = c["max"]
    for n, e in enumerate(obs["trace"] + [dict(obs["final"], op=["final"])]):
        k = e["k"]
        if len(e["active"]) > mx or k[0] > mx or len(e["active"]) + len(e["idle"]) > mx:
            return [dict(clause="a connection pool never has more connections than max_connections", mechanism="warmup-overshoots-max",
                         step=n, active=len(e["active"]), idle=len(e["idle"]), total=k[0], max=mx)]
        if len(set(e["active"])) != len(e["active"]) or set(e["active"]) & set(e["idle"]):
            return [dict(clause="a connection is held by at most one client", step=n, active=e["active"], idle=e["idle"])]
    if obs["final"]["active"]:
        return [dict(clause="held plus available equals capacity (no leaked connection)", final=obs["final"])]
    return []


# --------------------------------------------------------------------------- concurrency limiters, direct drive
def gen_limiter(rng):
    kind = rng.choice(["fixed", "dynamic", "weighted"])
    limit = rng.randint(1, 5)
    mn = rng.randint(1, limit) if kind == "dynamic" else 1
    mx = rng.choice([None, limit, limit + 2]) if kind == "dynamic" else None
    ops = []
    for _ in range(rng.randint(1, 30)):
        k = rng.random()
        # (round-8 seed C09-15: the fixed / dynamic limiters take one slot per call whatever weight they are handed)
        w = rng.choice([1, 1, 2, 3, limit, 0, -1]) if kind == "weighted" else rng.choice([1, 1, 1, 2, 3])
        if k < 0.45:
            ops.append(["acq", w])
        elif k < 0.75:
            ops.append(["rel", w])
        elif k < 0.85:
            ops.append(["has", max(w, 1)])
        elif kind == "dynamic":
            ops.append([rng.choice(["set", "up", "down"]), rng.randint(0, 7) if k < 0.95 else rng.randint(0, 3)])
        else:
            ops.append(["has", 1])
    return dict(kind=kind, limit=limit, min=mn, max=mx, ops=ops)


def impl_limiter(c):
    from happysimulator.components.server.concurrency import DynamicConcurrency, FixedConcurrency, WeightedConcurrency
    if c["kind"] == "fixed":
        m = FixedConcurrency(c["limit"])
    elif c["kind"] == "dynamic":
        m = DynamicConcurrency(c["limit"], min_limit=c["min"], max_limit=c["max"])
    else:
        m = WeightedConcurrency(c["limit"])
    out = []
    for o in c["ops"]:
        try:
            if o[0] == "acq":
                r = 1 if m.acquire(o[1]) else 0
            elif o[0] == "rel":
                m.release(o[1])
                r = 3
            elif o[0] == "has":
                r = 1 if m.has_capacity(o[1]) else 0
            elif o[0] == "set":
                m.set_limit(o[1])
                r = 3
            elif o[0] == "up":
                m.scale_up(o[1])
                r = 3
            else:
                m.scale_down(o[1])
                r = 3
        except ValueError:
            r = 2
        out.append([r, m.active, m.available, m.limit])
    return out


def encode_limiter(c, obs):
    from hsverif.coq import Raw
    kind = Raw({"fixed": "KFixed", "dynamic": "KDynamic", "weighted": "KWeighted"}[c["kind"]])
    names = {"acq": "CAcquire", "rel": "CRelease", "has": "CHas", "set": "CSetLimit", "up": "CScaleUp", "down": "CScaleDown"}
    steps = [(Ctor(names[o[0]], o[1]), tuple(ob)) for o, ob in zip(c["ops"], obs)]
    mx = None if c["max"] is None else SomeV(c["max"])
    return term((kind, c["limit"], c["min"], mx, steps))


def oracle_limiter(c, obs):
    """never more outstanding holders/amount than the limit; never negative; available = limit - active."""
    held = 0
    changed = False
    for k, (o, (r, active, avail, limit)) in enumerate(zip(c["ops"], obs)):
        w = o[1] if c["kind"] == "weighted" else 1
        if o[0] == "acq" and r == 1:
            held += w
            if active > limit:
                return [dict(clause="a concurrency limiter never admits beyond its limit", step=k, active=active, limit=limit)]
        if o[0] == "rel" and r == 3:
            held = max(0, held - w)
        if o[0] in ("set", "up", "down"):
            changed = True
        if active != held:
            return [dict(clause="active equals what was acquired and not released", step=k, active=active, held=held)]
        if active < 0 or (not changed and active > limit):
            return [dict(clause="0 <= active <= limit", step=k, active=active, limit=limit)]
        if avail != (max(0, limit - active) if c["kind"] == "dynamic" else limit - active):
            return [dict(clause="held plus available equals capacity", step=k, active=active, avail=avail, limit=limit)]
    return []


# --------------------------------------------------------------------------- Bulkhead inside a real Simulation
def gen_bulkhead(rng):
    mx = rng.choice([1, 1, 2, 3])
    mq = rng.choice([0, 1, 2, 3])
    mw = rng.choice([None, None, 2_000_000, 5_000_000])
    n = rng.randint(2, 9)
    burst = rng.random() < 0.4
    reqs = []
    t = 0
    for i in range(n):
        t = t if burst and rng.random() < 0.7 else t + rng.choice([0, 500_000, 1_000_000, 3_000_000])
        reqs.append(dict(at=t, service=rng.choice([0, 1_000_000, 2_000_000, 5_000_000, 8_000_000])))
    return dict(kind="bulkhead", max=mx, maxq=mq, maxwait=mw, reqs=reqs)


def impl_bulkhead(c):
    from happysimulator import Entity, Event, Instant, Simulation
    from happysimulator.components.resilience.bulkhead import Bulkhead
    from hsverif.util import run_bounded
    served = []

    class Slow(Entity):
        def __init__(self):
            super().__init__("slow")
            self.in_service = 0
            self.peak = 0

        def handle_event(self, event):
            self.in_service += 1
            self.peak = max(self.peak, self.in_service)
            item = event.context["metadata"]["item"]
            served.append(["start", item, self.now.nanoseconds])
            yield event.context["metadata"]["service"] / 1e9
            self.in_service -= 1
            served.append(["end", item, self.now.nanoseconds])

    tgt = Slow()
    bh = Bulkhead("bh", tgt, max_concurrent=c["max"], max_wait_queue=c["maxq"],
                  max_wait_time=None if c["maxwait"] is None else c["maxwait"] / 1e9)
    trace = []
    orig = bh.handle_event

    def traced(event):
        md = event.context.get("metadata", {})
        now = bh.now.nanoseconds
        r = orig(event)
        if event.event_type == "_bh_response":
            op = ["resp", md.get("request_id"), now]
        elif event.event_type == "_bh_timeout":
            op = ["tmo", md.get("request_id"), now]
        else:
            op = ["req", md.get("item"), now]
        code, req, item = 0, 0, 0
        evs = r if isinstance(r, list) else ([] if r is None else [r])
        fw = [e for e in evs if e.target is tgt]
        if fw:
            m = fw[0].context["metadata"]
            code, req, item = 1, m["_bh_request_id"], m["item"]
        elif op[0] == "req":
            st = bh.stats
            if bh._wait_queue and bh._wait_queue[-1].event is event:
                code, req = 2, bh._wait_queue[-1].request_id
            else:
                code = 3
        st = bh.stats
        trace.append(dict(op=op, code=code, req=req, item=item,
                          k=[bh.active_count, st.total_requests, st.accepted_requests, st.rejected_requests,
                             st.timed_out_requests, st.queued_requests, st.peak_concurrent, st.peak_queue_depth],
                          queue=[w.request_id for w in bh._wait_queue], inflight=list(bh._in_flight.keys())))
        return r

    bh.handle_event = traced
    sim = Simulation(entities=[tgt, bh])
    for i, r in enumerate(c["reqs"]):
        sim.schedule(Event(time=Instant(r["at"]), event_type="work", target=bh,
                           context={"metadata": {"item": i, "service": r["service"]}}))
    summary, verdict = run_bounded(sim, max_events_per_instant=600, max_events=20000, wall_s=20.0)
    return dict(trace=trace, served=served, verdict=verdict, peak=tgt.peak, final_in_service=tgt.in_service)


def encode_bulkhead(c, obs):
    steps = []
    for e in obs["trace"]:
        name, a, now = e["op"]
        op = Ctor({"req": "BRequest", "resp": "BResponse", "tmo": "BTimeout"}[name], a, now)
        steps.append((op, (e["code"], e["req"], e["item"], e["k"], e["queue"], e["inflight"])))
    return term((c["max"], c["maxq"], None if c["maxwait"] is None else SomeV(c["maxwait"]), steps))


def oracle_bulkhead(c, obs):
    out = []
    if obs["verdict"] != "ok":
        return [dict(clause="waiting consumes no simulated activity", verdict=obs["verdict"])]
    if obs["peak"] > c["max"]:
        out.append(dict(clause="a bulkhead never has more outstanding requests than max_concurrent", peak=obs["peak"], max=c["max"]))
    fate = {}
    queue = []
    for n, e in enumerate(obs["trace"]):
        k = e["k"]
        if k[0] > c["max"] or len(e["queue"]) > c["maxq"]:
            out.append(dict(clause="active <= max_concurrent and queue <= max_wait_queue", step=n, k=k, queue=e["queue"]))
            return out
        if k[1] != k[2] + k[3] + k[4] + len(e["queue"]):
            out.append(dict(clause="every request is forwarded, queued, timed out or rejected exactly once", step=n, k=k, queue=len(e["queue"])))
            return out
        if e["queue"] and k[0] < c["max"]:
            out.append(dict(clause="granted as soon as capacity allows", step=n, k=k, queue=e["queue"]))
            return out
        if e["op"][0] == "req" and e["code"] == 2:
            queue.append(e["op"][1])
        if e["op"][0] == "resp" and e["code"] == 1:
            # forwarded from the queue: must be the oldest queued item that is still queued and not expired
            while queue and queue[0] != e["item"]:
                queue.pop(0)          # expired heads are skipped (counted as timed out)
            if not queue:
                out.append(dict(clause="queued requests are forwarded in arrival order", step=n, item=e["item"]))
                return out
            queue.pop(0)
        if e["code"] == 1:
            if e["item"] in fate:
                out.append(dict(clause="each request is forwarded at most once", step=n, item=e["item"]))
                return out
            fate[e["item"]] = "forwarded"
    starts = [s[1] for s in obs["served"] if s[0] == "start"]
    if sorted(starts) != sorted(fate):
        out.append(dict(clause="every forwarded request reaches the target exactly once", starts=starts, forwarded=sorted(fate)))
    if obs["final_in_service"] != 0:
        out.append(dict(clause="every admitted request completes", in_service=obs["final_in_service"]))
    return out


# --------------------------------------------------------------------------- Barrier inside a real Simulation
def gen_barrier(rng):
    parties = rng.choice([1, 2, 2, 3, 4])
    nw = rng.randint(1, 6)
    workers = []
    for _ in range(nw):
        script = []
        for _ in range(rng.choice([1, 1, 2, 3])):
            script += [["wait", 0], ["hold", rng.choice([0, 1000, 2000, 5000])]]
        workers.append(dict(at=rng.choice([0, 0, 500, 1000, 3000]), script=script))
    ctl = rng.choice([None, None, None, ["reset", rng.choice([700, 2500, 6000])], ["abort", rng.choice([700, 2500, 6000])]])
    return dict(kind="barrier", parties=parties, workers=workers, ctl=ctl)


def impl_barrier(c):
    from happysimulator import Entity, Event, Instant, Simulation
    from happysimulator.components.sync import Barrier
    from happysimulator.core.sim_future import SimFuture
    from hsverif.util import run_bounded
    bar = Barrier("b", c["parties"])
    trace, wlog = [], []
    reg = {}
    counters = dict(resumes=0, intended=0)

    def snap():
        st = bar.stats
        return [bar.waiting, bar.generation, int(bar.broken), st.wait_calls, st.barrier_breaks, st.resets, st.total_wait_time_ns]

    def rec(op, code, ids=()):
        if len(trace) < 100:
            trace.append(dict(op=op, code=code, woken=list(ids), k=snap()))

    class Worker(Entity):
        def __init__(self, idx, script):
            super().__init__(f"w{idx}")
            self.idx, self.script, self.done, self.blocked = idx, script, False, False

        def handle_event(self, event):
            i = self.idx
            for st in self.script:
                ns = lambda: self.now.nanoseconds  # noqa: E731
                if st[0] == "hold":
                    counters["intended"] += 1
                    yield st[1] / 1e9
                    counters["resumes"] += 1
                    continue
                before = [reg.get(id(w), -1) for w in bar._waiters]
                gen = bar.wait()
                try:
                    v = next(gen)
                except StopIteration as e:
                    rec(["start", i, ns()], 0, before)
                    wlog.append(["tripped", i, ns(), e.value, before])
                    continue
                except RuntimeError:
                    rec(["start", i, ns()], 3)
                    wlog.append(["refused", i, ns()])
                    continue
                reg[id(bar._waiters[-1])] = i
                self.blocked = True
                counters["intended"] += 1
                rec(["start", i, ns()], 1, [c["parties"] - bar.waiting])
                wlog.append(["parked", i, ns(), isinstance(v, SimFuture)])
                while True:
                    x = yield v
                    counters["resumes"] += 1
                    try:
                        v = gen.send(x)
                    except StopIteration as e:
                        rec(["resume", i, ns()], 2)
                        wlog.append(["passed", i, ns(), e.value])
                        break
                    except RuntimeError:
                        rec(["resume", i, ns()], 3)
                        wlog.append(["error", i, ns()])
                        break
                    rec(["resume", i, ns()], 5)
                self.blocked = False
            self.done = True

    class Ctl(Entity):
        def handle_event(self, event):
            before = [reg.get(id(w), -1) for w in bar._waiters]
            if c["ctl"][0] == "reset":
                bar.reset()
                rec(["reset", 0, self.now.nanoseconds], 4, before)
            else:
                bar.abort()
                rec(["abort", 0, self.now.nanoseconds], 4, before)
            wlog.append([c["ctl"][0], -1, self.now.nanoseconds, before])

    workers = [Worker(i, w["script"]) for i, w in enumerate(c["workers"])]
    ctl = Ctl("ctl")
    sim = Simulation(entities=[bar, ctl] + workers)
    for w, spec in zip(workers, c["workers"]):
        sim.schedule(Event(time=Instant(spec["at"]), event_type="go", target=w))
    if c["ctl"]:
        sim.schedule(Event(time=Instant(c["ctl"][1]), event_type="ctl", target=ctl))
    summary, verdict = run_bounded(sim, max_events_per_instant=600, max_events=20000, wall_s=20.0)
    return dict(trace=trace, wlog=wlog, verdict=verdict, done=[w.done for w in workers], blocked=[w.blocked for w in workers],
                events=None if summary is None else summary.total_events_processed,
                resumes=counters["resumes"], intended=counters["intended"], final=snap())


def encode_barrier(c, obs):
    steps = []
    for e in obs["trace"]:
        name, i, now = e["op"]
        op = {"start": lambda: Ctor("BrWaitStart", i, now), "resume": lambda: Ctor("BrWaitResume", i, now),
              "reset": lambda: Ctor("BrReset"), "abort": lambda: Ctor("BrAbort")}[name]()
        steps.append((op, (e["code"], e["woken"], e["k"])))
    return term((c["parties"], steps))


def oracle_barrier(c, obs):
    out = []
    p = c["parties"]
    if obs["verdict"] != "ok":
        return [dict(clause="waiting consumes no simulated activity, so the clock advances to the release", mechanism="spin-wait", verdict=obs["verdict"])]
    nstart = len(c["workers"]) + (1 if c["ctl"] else 0)
    still = sum(1 for b in obs["blocked"] if b)          # parties short of a full group stay parked, legitimately
    if obs["resumes"] != obs["intended"] - still or obs["events"] != nstart + obs["resumes"]:
        out.append(dict(clause="waiting consumes no simulated activity", mechanism="extra-events", events=obs["events"], expected=nstart + obs["intended"] - still))
    waiting = []
    for n, e in enumerate(obs["trace"]):
        if e["k"][0] >= p:
            out.append(dict(clause="fewer than `parties` processes are blocked at a barrier", step=n, waiting=e["k"][0]))
            return out
        if e["op"][0] == "start" and e["code"] == 1:
            waiting.append(e["op"][1])
        if e["code"] in (0, 4):
            if e["woken"] != waiting:
                out.append(dict(clause="a trip releases every waiter, in arrival order, each once", step=n, woken=e["woken"], waiting=list(waiting)))
                return out
            if e["code"] == 0 and len(waiting) != p - 1:
                out.append(dict(clause="the barrier trips exactly when `parties` have arrived", step=n, waiting=list(waiting)))
                return out
            waiting = []
    # released waiters pass at the instant of the trip
    rel = {}
    for e in obs["wlog"]:
        if e[0] in ("tripped", "reset", "abort"):
            for x in e[-1]:
                rel.setdefault(x, []).append(e[2])
    passed = {}
    for e in obs["wlog"]:
        if e[0] in ("passed", "error") and e[1] in rel:
            passed.setdefault(e[1], []).append(e[2])
    for x, ts in rel.items():
        if passed.get(x, []) != ts:
            out.append(dict(clause="the clock advances to the release: released waiters pass at the instant of the trip", waiter=x, released=ts, passed=passed.get(x)))
            break
    return out


# --------------------------------------------------------------------------- components without a Coq model: oracle only
def gen_preempt(rng):
    cap = rng.randint(1, 4)
    ops, nid = [], 0
    few = rng.random() < 0.5            # few distinct (amount, priority) classes: queues of equals build up and drain partly
    if rng.random() < 0.35:
        # churn: a queue of equal requests builds up behind a holder, is drained partly in order, and new equal
        # requests keep arriving while older ones are still queued
        cap = rng.choice([1, 1, 2])
        nxt = 0
        for _ in range(rng.randint(3, 5)):
            ops.append(["acq", 1, rng.choice([1, 1, 1, 2]), False])
            nid += 1
        for _ in range(rng.randint(3, 12)):
            if rng.random() < 0.55 and nxt < nid:
                ops.append(["rel", nxt])
                nxt += 1
            else:
                ops.append(["acq", 1, rng.choice([1, 1, 1, 2]), False])
                nid += 1
        return dict(kind="preemptible", cap=cap, ops=ops)
    for _ in range(rng.randint(1, 24)):
        if rng.random() < 0.6 or nid == 0:
            if few:
                ops.append(["acq", rng.choice([1, cap]), rng.choice([1, 1, 2]), rng.random() < 0.2])
            else:
                ops.append(["acq", rng.randint(1, cap), rng.randint(0, 4), rng.random() < 0.6])
            nid += 1
        else:
            ops.append(["rel", rng.randrange(nid)])
    return dict(kind="preemptible", cap=cap, ops=ops)


def impl_preempt(c):
    from happysimulator.components.industrial.preemptible_resource import PreemptibleResource
    r = PreemptibleResource("r", c["cap"])
    futs, steps = [], []
    for o in c["ops"]:
        if o[0] == "acq":
            futs.append((r.acquire(o[1], priority=float(o[2]), preempt=o[3]), o[1], o[2]))
        else:
            f = futs[o[1]][0]
            if f.is_resolved:
                f.value.release()
        held = sum(f.value.amount for f, _, _ in futs if f.is_resolved and not f.value.released)
        waiting = sorted((w.priority, w.insert_order, w.amount) for w in r._waiters)
        granted = [i for i, (f, _, _) in enumerate(futs) if f.is_resolved]
        steps.append(dict(avail=r.available, held=held, waiting=waiting, granted=granted,
                          preempted=[i for i, (f, _, _) in enumerate(futs) if f.is_resolved and f.value.preempted]))
    return steps


def oracle_preempt(c, obs):
    cap = c["cap"]
    prev = set()
    # arrival order among equals: acquires of the same priority and the same amount are granted in the order made
    acqs = [(o[1], o[2]) for o in c["ops"] if o[0] == "acq"]        # (amount, priority) by acquire index
    nopre = [not o[3] for o in c["ops"] if o[0] == "acq"]           # (a preempting request may get in by evicting holders)
    seen_acq, granted_before = 0, set()
    for k, (o, s) in enumerate(zip(c["ops"], obs)):
        if o[0] == "acq":
            seen_acq += 1
        new = set(s["granted"]) - granted_before
        for i in new:
            for j in range(i):
                if nopre[i] and j < seen_acq and j not in s["granted"] and acqs[j] == acqs[i]:
                    # granted by its own acquire() call (immediate path) or later, out of the wait queue?
                    immediate = o[0] == "acq" and i == seen_acq - 1
                    return [dict(clause="waiters of equal priority and amount are granted in arrival order", step=k, granted=i, still_waiting=j,
                                 request=acqs[i], mechanism="immediate-grant-overtakes-queue" if immediate else "queue-served-out-of-order",
                                 what=("PreemptibleResource.acquire grants a request immediately while an equal, earlier request is still queued "
                                       "(the queue is blocked behind a head waiter that does not fit; the immediate path does not look at the queue)")
                                 if immediate else "the wait queue served a later request before an equal earlier one")]
        granted_before = set(s["granted"])
    for k, s in enumerate(obs):
        if not 0 <= s["avail"] <= cap or s["avail"] + s["held"] != cap:
            return [dict(clause="held plus available equals capacity", step=k, avail=s["avail"], held=s["held"])]
        if s["waiting"] and s["avail"] >= s["waiting"][0][2]:
            return [dict(clause="granted as soon as capacity allows", mechanism="partial-preemption-leaves-capacity-idle", step=k,
                         avail=s["avail"], head=s["waiting"][0])]
        if not prev <= set(s["granted"]):
            return [dict(clause="each acquire is granted at most once", step=k)]
        prev = set(s["granted"])
    return []


def gen_threadpool(rng):
    c = dict(kind="threadpool", workers=rng.randint(1, 3),
             tasks=[dict(at=rng.choice([0, 0, 1000, 2000, 5000]), time=rng.choice([0, 1000, 3000, 5000])) for _ in range(rng.randint(1, 8))])
    if rng.random() < 0.5:
        # a burst arriving at the very instant at which running tasks complete (all workers busy, queue empty)
        t = rng.choice([1000, 3000])
        c["tasks"] = [dict(at=0, time=t) for _ in range(c["workers"])] + \
                     [dict(at=t, time=rng.choice([1000, 3000])) for _ in range(rng.randint(3, 5))] + c["tasks"][:2]
    return c


def impl_threadpool(c):
    from happysimulator import Event, Instant, Simulation
    from happysimulator.components.server.thread_pool import ThreadPool
    from hsverif.util import run_bounded
    tp = ThreadPool("tp", num_workers=c["workers"])
    samples = []
    orig = tp.handle_queued_event

    running = [0, 0]          # tasks whose body is executing right now (the harness' own count), and its maximum

    def traced(event):
        gen = orig(event)
        started = False
        try:
            v = next(gen)
            started = True
            running[0] += 1
            running[1] = max(running)
            while True:
                samples.append(tp.active_workers)
                x = yield v
                v = gen.send(x)
        except StopIteration as e:
            if started:
                running[0] -= 1
            samples.append(tp.active_workers)
            return e.value

    tp.handle_queued_event = traced
    sim = Simulation(entities=[tp])
    for i, t in enumerate(c["tasks"]):
        sim.schedule(Event(time=Instant(t["at"]), event_type="task", target=tp,
                           context={"metadata": {"processing_time": t["time"] / 1e9, "i": i}}))
    summary, verdict = run_bounded(sim, max_events_per_instant=600, max_events=20000, wall_s=20.0)
    st = tp.stats
    return dict(verdict=verdict, samples=samples, completed=st.tasks_completed, rejected=st.tasks_rejected,
                active=tp.active_workers, queued=tp.queued_tasks, max_running=running[1], still_running=running[0])


def oracle_threadpool(c, obs):
    if obs["verdict"] != "ok":
        return [dict(clause="waiting consumes no simulated activity", verdict=obs["verdict"])]
    if any(x > c["workers"] or x < 0 for x in obs["samples"]) or obs["active"] != 0:
        return [dict(clause="a thread pool never runs more tasks than it has workers and returns every worker", samples=obs["samples"], active=obs["active"])]
    if obs["max_running"] > c["workers"]:
        return [dict(clause="a thread pool never runs more tasks than it has workers (task bodies executing at once, counted by the harness)",
                     max_running=obs["max_running"], workers=c["workers"])]
    return []


def gen_condition(rng):
    nwait = rng.randint(1, 4)
    return dict(kind="condition", waiters=[rng.choice([0, 0, 500, 1000]) for _ in range(nwait)],
                notifies=[dict(at=rng.choice([2000, 3000, 5000, 8000]), n=rng.choice([1, 1, 2, 0])) for _ in range(rng.randint(1, 4))]
                + [dict(at=20000, n=0)],           # n = 0: notify_all (a final one releases everybody)
                hold=rng.choice([0, 1000, 3000]))


def impl_condition(c):
    from happysimulator import Entity, Event, Instant, Simulation
    from happysimulator.components.sync import Condition, Mutex
    from hsverif.util import run_bounded
    m = Mutex("m")
    cv = Condition("cv", m)
    log = []
    inside = [0]

    class Waiter(Entity):
        def __init__(self, i):
            super().__init__(f"w{i}")
            self.i, self.done = i, False

        def handle_event(self, event):
            yield from m.acquire(owner=str(self.i))
            inside[0] += 1
            log.append(["in", self.i, self.now.nanoseconds, inside[0]])
            inside[0] -= 1                       # wait() releases the mutex
            yield from cv.wait()
            inside[0] += 1
            log.append(["woke", self.i, self.now.nanoseconds, inside[0]])
            yield c["hold"] / 1e9
            inside[0] -= 1
            m.release()
            self.done = True

    class Notifier(Entity):
        def handle_event(self, event):
            n = event.context["metadata"]["n"]
            yield from m.acquire(owner="n")
            inside[0] += 1
            before = cv.waiters
            if n:
                cv.notify(n)
            else:
                cv.notify_all()
            log.append(["notify", n, self.now.nanoseconds, before, cv.waiters, inside[0]])
            inside[0] -= 1
            m.release()

    ws = [Waiter(i) for i in range(len(c["waiters"]))]
    nt = Notifier("n")
    sim = Simulation(entities=[m, cv, nt] + ws)
    for w, at in zip(ws, c["waiters"]):
        sim.schedule(Event(time=Instant(at), event_type="go", target=w))
    for x in c["notifies"]:
        sim.schedule(Event(time=Instant(x["at"]), event_type="n", target=nt, context={"metadata": {"n": x["n"]}}))
    summary, verdict = run_bounded(sim, max_events_per_instant=600, max_events=20000, wall_s=20.0)
    return dict(verdict=verdict, log=log, done=[w.done for w in ws], locked=m.is_locked, waiting=cv.waiters,
                stats=[cv.stats.waits, cv.stats.wakeups])


def oracle_condition(c, obs):
    if obs["verdict"] != "ok":
        return [dict(clause="waiting consumes no simulated activity, so the clock advances to the release", mechanism="spin-wait", verdict=obs["verdict"])]
    out = []
    if any(e[-1] > 1 for e in obs["log"]):
        out.append(dict(clause="the mutex of a condition has at most one holder", log=obs["log"]))
    for e in obs["log"]:
        if e[0] == "notify":
            expect = 0 if e[1] == 0 else max(0, e[3] - e[1])
            if e[4] != expect:
                out.append(dict(clause="notify(n) wakes min(n, waiting) waiters, notify_all wakes all", entry=e))
    if not all(obs["done"]) or obs["locked"] or obs["waiting"]:
        out.append(dict(clause="every waiter whose predecessor releases is eventually served", done=obs["done"], locked=obs["locked"], waiting=obs["waiting"]))
    return out


# --------------------------------------------------------------------------- two combined families
def _with_kind(kind, gen):
    def g(rng):
        c = gen(rng)
        c["kind"] = kind
        return c
    return g


SIM_KINDS = {
    # kind: (generator, impl, encode -> (constructor, term), oracle, attribute, nontrivial)
    "resource": (gen_sync("resource"), impl_sync, lambda c, o: "CaseResource " + encode_sync(c, o), oracle_sync, attribute_sync, nontrivial_sync),
    "mutex": (gen_sync("mutex"), impl_sync, lambda c, o: "CaseMutex " + encode_sync(c, o), oracle_sync, attribute_sync, nontrivial_sync),
    "semaphore": (gen_sync("semaphore"), impl_sync, lambda c, o: "CaseSemaphore " + encode_sync(c, o), oracle_sync, attribute_sync, nontrivial_sync),
    "rwlock": (gen_sync("rwlock"), impl_sync, lambda c, o: "CaseRWLock " + encode_sync(c, o), oracle_sync, attribute_sync, nontrivial_sync),
    "barrier": (gen_barrier, impl_barrier, lambda c, o: "CaseBarrier " + encode_barrier(c, o), oracle_barrier, None,
                lambda c, o: any(e["code"] == 0 and e["woken"] for e in o["trace"])),
    "pool": (gen_pool, impl_pool, lambda c, o: "CasePool " + encode_pool(c, o), oracle_pool, None,
             lambda c, o: any(e["code"] == 4 for e in o["trace"])),
    "poolwarm": (gen_poolwarm, impl_pool, lambda c, o: "CaseOracleOnly", oracle_poolwarm, None,
                 lambda c, o: o["final"]["k"][2] >= c["min"] and any(e["op"][0] == "start" for e in o["trace"])),
    "bulkhead": (gen_bulkhead, impl_bulkhead, lambda c, o: "CaseBulkhead " + encode_bulkhead(c, o), oracle_bulkhead, None,
                 lambda c, o: any(e["op"][0] == "resp" and e["code"] == 1 for e in o["trace"])),
    "condition": (gen_condition, impl_condition, lambda c, o: "CaseOracleOnly", oracle_condition, None,
                  lambda c, o: any(e[0] == "woke" for e in o["log"])),
    "threadpool": (gen_threadpool, impl_threadpool, lambda c, o: "CaseOracleOnly", oracle_threadpool, None,
                   lambda c, o: len(o["samples"]) > 2),
}
DIRECT_KINDS = {
    "resource_direct": (_with_kind("resource_direct", gen_resource), impl_resource, lambda c, o: "CaseResource " + encode_resource(c, o),
                        oracle_resource, attribute_resource, lambda c, o: any(s["code"] == 4 and s["resolved"] for s in o)),
    "limiter": (gen_limiter, impl_limiter, lambda c, o: "CaseLimiter " + encode_limiter(c, o), oracle_limiter, None,
                lambda c, o: any(x[0] == 0 for x in o)),
    "preemptible": (gen_preempt, impl_preempt, lambda c, o: "CaseOracleOnly", oracle_preempt,
                    lambda c, o, f: "C09-preemptible-overtake" if f.get("mechanism") == "immediate-grant-overtakes-queue" else None,
                    lambda c, o: any(s["preempted"] for s in o)),
}
# "limiter" cases carry their own 'kind' (fixed/dynamic/weighted) in 'lkind'


def _combined(name, kinds, weights, parallel):
    names = list(kinds)

    def gen(rng):
        k = rng.choices(names, weights=[weights.get(n, 1) for n in names])[0]
        c = kinds[k][0](rng)
        c["kind"] = k if k != "limiter" else c["kind"]
        c["family_kind"] = k
        return c

    def kind_of(c):
        return c.get("family_kind") or c["kind"]

    def enc(c, o):
        return "(" + kinds[kind_of(c)][2](c, o) + ")"

    def attr(c, o, f):
        a = kinds[kind_of(c)][4]
        return a(c, o, f) if a else None

    fam = Family(name, IMPORTS, "ok_case", "c09case", gen, None, enc,
                 lambda c, o: kinds[kind_of(c)][3](c, o), lambda c, o: kinds[kind_of(c)][5](c, o), attr,
                 parallel=parallel, describe=lambda c: kind_of(c))
    return fam, kind_of


def impl_sim(c):
    return SIM_KINDS[c.get("family_kind") or c["kind"]][1](c)


def impl_direct(c):
    return DIRECT_KINDS[c.get("family_kind") or c["kind"]][1](c)


_sim_family, _ = _combined("sim", SIM_KINDS, dict(threadpool=1.0, barrier=0.8, condition=0.5, poolwarm=0.5), True)
_sim_family.impl = impl_sim
_direct_family, _ = _combined("direct", DIRECT_KINDS, dict(resource_direct=2, limiter=1.5, preemptible=1), False)
_direct_family.impl = impl_direct
FAMILIES = [_direct_family, _sim_family]

TRUSTED = [
    "translator harness/translate/py2coq.py + declared types (py2coq_targets.py ConcurrencyGen): FixedConcurrency / DynamicConcurrency / "
    "WeightedConcurrency are regenerated from components/server/concurrency.py on every run and every operation is proved equal to the limiter "
    "model's c_step (C09/ConcTie.v); logging calls are no-ops, a call of a method the class does not have is CErr",
    "Coq 8.16.1 kernel (coqc, vm_compute for refutation witnesses and case evaluation); no native_compute",
    "axioms: none (every theorem of C09/Props.v is 'Closed under the global context')",
    "correspondence harness harness/props/c09.py (generators, observers, in-Coq comparison ok_* of C09/Model.v)",
    "model choices: amounts and capacities are integers (Z); client/grant identities are creation indices; time is an explicit input of each operation (integer ns)",
    "private attributes read by the observers: Resource/Semaphore/Mutex/RWLock/Barrier._waiters, ConnectionPool._idle_connections/_active_connections/_waiters/_next_waiter_id/_handle_idle_timeout, Bulkhead._wait_queue/_in_flight, PreemptibleResource._waiters, SimFuture._add_settle_callback",
]

COQ_FILES = ["C09/Model.v", "C09/Resource.v", "C09/Sync.v", "C09/Limits.v", "C09/Pool.v", "C09/Bulk.v", "C09/Barrier.v", "C09/Examples.v",
             "Base/PyLib.v", "Gen/ConcurrencyGen.v", "C09/ConcTie.v", "C09/Props.v"]


class _Sharded:
    """ctx proxy: evaluate the cases in small shards (traces are long terms; Coq's
    elaboration of one big list literal is super-linear) on 8 coqc processes."""

    def __init__(self, ctx):
        self._ctx = ctx

    def __getattr__(self, name):
        return getattr(self._ctx, name)

    def coq_cases(self, tag, imports, ok_fn, case_type, cases):
        from hsverif import coq
        avg = max(1, sum(map(len, cases)) // max(1, len(cases)))
        shard = max(10, min(400, 120_000 // avg))
        return coq.eval_cases(f"{self._ctx.pid}_{tag}", imports, ok_fn, case_type, cases, shard=shard, workers=8)


def run(ctx):
    sctx = _Sharded(ctx)
    from props import pygen
    ok, info = pygen.regenerate("ConcurrencyGen")    # components/server/concurrency.py translated from $HS_REPO by py2coq
    ctx.coverage["regenerated"] = info
    ctx.prove(COQ_FILES, allowed_axioms=(), trusted_base=TRUSTED)
    if not ok and ctx.pending_obligation_violation:
        ctx.pending_obligation_violation["translator"] = info.get("error")
    stats = []
    import os
    only = os.environ.get("C09_FAMILIES")
    for fam in FAMILIES:
        if only and fam.name not in only.split(","):
            continue
        n = ctx.n(260, 1500) if fam.parallel else ctx.n(300, 2500)
        stats.append(run_family(sctx, fam, n))
        ctx.log(f"family {fam.name}: {stats[-1]['cases']} cases, {stats[-1]['mismatches']} mismatches, {stats[-1]['oracle_failures']} oracle failures ({stats[-1]['known']} known)")
    merge_stats(ctx, stats, "direct: random operation schedules on the real objects; sim: worker processes / request streams inside real Simulations (1-6 workers, simultaneous arrivals, arrivals during a slow set-up, timeouts); non-trivial = a release/trip/response hands capacity to a blocked waiter (limiter: an acquire is refused; preemptible: a preemption happens); distinct by JSON of the input")
    ctx.finish_obligations()
    ctx.assumptions += [
        "one operation = one public method call (or one generator step / one handled event) by some client; 'every interleaving' = 'every operation list'; the engine (heap, process scheduling) is not modelled here - its effect is the order of the recorded operations, replayed from real Simulation runs",
        "legitimate-use hypotheses of the exclusion/conservation theorems: a Mutex/RWLock/Semaphore client releases only what it holds (m_legit_run, rw_legit_run, s_legit_run); Resource conservation excludes raw _do_release calls (bounds still hold with them)",
        "arrival order across ALL acquirers is refuted for Resource and Semaphore (c09_resource_arrival_order_refuted, c09_semaphore_arrival_order_refuted; known findings C09-resource-overtake, C09-semaphore-overtake); FIFO among blocked acquirers, no-overtaking for unit/larger amounts, and full no-overtaking for Mutex/RWLock are proved",
        "PARTIAL: a queued ConnectionPool client notices the connection handed to it only at its next poll tick (c09_pool_grant_seen_at_next_poll_partial); DynamicConcurrency bound is relative to the limit in force (c09_limiter_dynamic_partial)",
        "waiting-is-free is proved at the generator level (blocked acquire yields a future, the resume after the wake finishes: *_wait_is_parked) and checked on real runs (events processed == workers + one resume per yield; woken waiter resumes at the instant of the release; frozen-clock watchdog)",
        "oracle only (exploration, no Coq model): PreemptibleResource (conservation, head waiter never fits, at-most-once), ThreadPool (active workers <= num_workers), Condition (no frozen clock, mutex exclusion, notify counts, every waiter served); ConnectionPool.warmup racing with acquirers (bound, exclusivity, no leak); not covered: Grant.__del__ warnings, float amounts, ConnectionPool.close_all",
        "ConnectionPool poll count before timeout is computed by the harness with the same float loop as the code and passed to the model as a parameter",
    ]


def replay(data):
    fam = {f.name: f for f in FAMILIES}[data["detail"]["family"]]
    c = data["detail"]["case"]
    obs = fam.impl(c)
    fails = fam.oracle(c, obs)
    print("observations:", obs)
    print("oracle failures:", fails)
    return 1 if fails else 0
