"""C20 — sketches: one-sided guarantees and merge homomorphisms.

Tie to /repo: every generated stream / schedule is executed on the real
BloomFilter, CountMinSketch, HyperLogLog, TopK, ReservoirSampler, MerkleTree and
TDigest objects (and on the collector entities inside a real Simulation); the
observations after EVERY operation are compared inside Coq with the model
C20/Model.v (ok_* functions).  Hash digests and RNG draws are recorded from the
implementation (a recording proxy replaces the `hashlib` / `random` names of the
sketch module while the case runs) and handed to the model, which does the index
arithmetic itself.  The property oracle (independent of the model) evaluates the
C20 statement on the implementation's observations with exact Counter / set /
sorted-list references.

Private attributes read: BloomFilter._bits/_bits_set/_total_count/_hash,
CountMinSketch._counters/_total_count/_hash, HyperLogLog._registers/_total_count/_hash,
TopK._counters/_total_count, ReservoirSampler._reservoir/_total_count/_rng,
TDigest._centroids/_buffer/_total_count/_min_value/_max_value, MerkleTree._root.
"""
from __future__ import annotations

import struct

from hsverif.coq import Ctor, Nat, Raw, SomeV, term
from hsverif.family import Family, merge_stats, run_family

from hsverif import coq as _coq

IMPORTS = "From Coq Require Import Uint63.\nFrom HS Require Import Base.Prelude C20.Model."


def tm(v) -> str:
    """Like hsverif.coq.term, but fast to parse: big integers as primitive-int limbs
    (Zl of C20/Model.v), lists as explicit cons chains."""
    if isinstance(v, Raw):
        return str(v)
    if isinstance(v, bool):
        return "true" if v else "false"
    if isinstance(v, Nat):
        return f"{int(v)}%nat"
    if isinstance(v, int):
        if -100000 < v < 100000:
            return f"({v})" if v < 0 else str(v)
        a, limbs = abs(v), []
        while a:
            limbs.append(a & ((1 << 62) - 1))
            a >>= 62
        t = "(Zl (" + " :: ".join(f"{d}%uint63" for d in limbs) + " :: nil))"
        return f"(- {t})" if v < 0 else t
    if v is None:
        return "None"
    if isinstance(v, SomeV):
        return f"(Some {tm(v.v)})"
    if isinstance(v, Ctor):
        return "(" + " ".join([v.name] + [tm(a) for a in v.args]) + ")" if v.args else v.name
    if isinstance(v, tuple):
        return "(" + ", ".join(tm(a) for a in v) + ")"
    if isinstance(v, list):
        return "(" + " :: ".join([tm(a) for a in v] + ["nil"]) + ")"
    raise TypeError(f"cannot encode {type(v)}: {v!r}")


class FastCtx:
    """Proxy of the check context whose in-Coq case evaluation uses small shards in
    parallel (parsing dominates; one 400-case shard would run on one core)."""

    def __init__(self, ctx):
        self.__dict__["_c"] = ctx

    def __getattr__(self, k):
        return getattr(self._c, k)

    def coq_cases(self, tag, imports, ok_fn, case_type, cases):
        shard = max(25, min(150, -(-len(cases) // 14)))
        return _coq.eval_cases(f"{self.pid}_{tag}", imports, ok_fn, case_type, cases, shard=shard, workers=14)
LEVEL = "proof"

# Item universe: ids -> hashable Python objects with pairwise different repr and ==.
ITEMS = ["a", "b", "key-3", 7, (1, 2), "k10", -1, "", "a ", 3.5, "user:42", 1000003]


def obj(i):
    return ITEMS[i]


class _Rec:
    """Recording stand-in for the `hashlib` name of a sketch module."""

    def __init__(self):
        import hashlib
        self._h = hashlib
        self.digests = []

    def sha256(self, *a):
        rec = self

        class H:
            def __init__(self):
                self.h = rec._h.sha256(*a)

            def update(self, b):
                self.h.update(b)

            def digest(self):
                d = self.h.digest()
                rec.digests.append(d)
                return d

            def hexdigest(self):
                return self.h.hexdigest()
        return H()

    def __getattr__(self, k):
        return getattr(self._h, k)


class patched:
    """with patched(module) as rec: the module's `hashlib` records digests."""

    def __init__(self, mod):
        self.mod = mod

    def __enter__(self):
        self.old = self.mod.hashlib
        self.rec = _Rec()
        self.mod.hashlib = self.rec
        return self.rec

    def __exit__(self, *a):
        self.mod.hashlib = self.old


def gen_stream(rng, n_items, length, weighted=True):
    mode = rng.choice(["skew", "unif", "single", "two"])
    out = []
    for _ in range(length):
        if mode == "skew":
            x = min(int(rng.expovariate(0.7)), n_items - 1)
        elif mode == "unif":
            x = rng.randrange(n_items)
        elif mode == "single":
            x = 0
        else:
            x = rng.randrange(2)
        c = 1
        if weighted and rng.random() < 0.3:
            c = rng.choice([0, 2, 3, 5, -1, 1, 4])
        out.append([x, c])
    return out


# --------------------------------------------------------------------------- Bloom
def gen_bloom(rng):
    m = rng.choice([1, 2, 3, 5, 8, 13, 31, 64, 65, 100, 128, 130])
    k = rng.choice([1, 2, 3, 5, 7, None])
    seed = rng.choice([None, 0, 1, 42])
    n_items = rng.randint(1, len(ITEMS))
    length = rng.choice([0, 1, 2, rng.randint(3, 20)])
    s = gen_stream(rng, n_items, length)
    cut = rng.randint(0, len(s))
    queues = [[["add", 0, x, c] for x, c in s[:cut]], [["add", 1, x, c] for x, c in s[cut:]],
              [["add", 2, x, c] for x, c in s]]
    ops = []
    while any(queues):          # random interleaving that keeps each slot's stream order
        q = rng.choice([q for q in queues if q])
        ops.append(q.pop(0))
    ops.append(["merge", 0, 1])
    for _ in range(rng.randint(0, 3)):
        k2 = rng.random()
        if k2 < 0.4:
            ops.append(["add", rng.randrange(3), rng.randrange(n_items), rng.choice([1, 1, 2, 0, -2])])
        else:
            ops.append(["merge", rng.randrange(3), rng.randrange(3)])
    for sl in range(3):
        for x in range(len(ITEMS)):
            if rng.random() < 0.5 or x < n_items:
                ops.append(["query", sl, x])
    return dict(m=m, k=k, seed=seed, ops=ops)


def _bloom_state(bf):
    bits = 0
    for w, word in enumerate(bf._bits):
        bits |= word << (64 * w)
    return [bits, bf._bits_set, bf._total_count]


def impl_bloom(c):
    import happysimulator.sketching.bloom_filter as mod
    mk = lambda: mod.BloomFilter(size_bits=c["m"], num_hashes=c["k"], seed=c["seed"])  # noqa: E731
    slots = [mk() for _ in range(3)]
    streams = [[] for _ in range(3)]
    obs, homo = [], []
    for o in c["ops"]:
        raised, ans = False, False
        if o[0] == "add":
            try:
                slots[o[1]].add(obj(o[2]), o[3])
                streams[o[1]].append((o[2], o[3]))
            except ValueError:
                raised = True
            st = _bloom_state(slots[o[1]])
        elif o[0] == "merge":
            other = slots[o[2]]
            before = _bloom_state(other)
            slots[o[1]].merge(other)
            if o[1] != o[2] and _bloom_state(other) != before:
                raise AssertionError("merge changed its argument")
            streams[o[1]] = streams[o[1]] + streams[o[2]]
            st = _bloom_state(slots[o[1]])
            ref = mk()
            for x, cnt in streams[o[1]]:
                ref.add(obj(x), cnt)
            homo.append([st, _bloom_state(ref)])
        else:
            ans = bool(slots[o[1]].contains(obj(o[2])))
            if ans != (obj(o[2]) in slots[o[1]]):
                raise AssertionError("__contains__ disagrees with contains")
            st = _bloom_state(slots[o[1]])
        obs.append(st + [raised, ans])
    # digest table, recorded from the implementation's own _hash
    kk = slots[0].num_hashes
    table = []
    with patched(mod) as rec:
        for x in range(len(ITEMS)):
            for i in range(kk):
                rec.digests.clear()
                idx = slots[0]._hash(obj(x), i)
                if rec.digests:
                    d = rec.digests[-1]
                    h1, h2 = struct.unpack(">Q", d[:8])[0], struct.unpack(">Q", d[8:16])[0]
                else:           # hash not built on hashlib.sha256 any more: take the index itself
                    h1, h2 = idx, 0
                table.append([x, i, h1, h2])
    return dict(obs=obs, table=table, k=kk, homo=homo)


def oracle_bloom(c, o):
    added = [set() for _ in range(3)]
    out = []
    hi = 0
    for op, ob in zip(c["ops"], o["obs"]):
        if op[0] == "add" and op[3] > 0:
            added[op[1]].add(op[2])
        elif op[0] == "merge":
            added[op[1]] |= added[op[2]]
            got, ref = o["homo"][hi]
            hi += 1
            if got != ref:
                out.append(dict(clause="bloom: merge gives exactly the filter of the concatenated streams",
                                op=op, merged=got, single=ref))
        elif op[0] == "query":
            if op[2] in added[op[1]] and not ob[4]:
                out.append(dict(clause="bloom: every inserted item is reported present", op=op, item=repr(obj(op[2]))))
    return out[:3]


def encode_bloom(c, o):
    ops = []
    for op in c["ops"]:
        if op[0] == "add":
            ops.append(Ctor("BAdd", op[1], op[2], op[3]))
        elif op[0] == "merge":
            ops.append(Ctor("BMerge", op[1], op[2]))
        else:
            ops.append(Ctor("BQuery", op[1], op[2]))
    table = [((x, i), (h1, h2)) for x, i, h1, h2 in o["table"]]
    obs = [tuple(ob) for ob in o["obs"]]
    return tm((c["m"], o["k"], table, ops, obs))


# --------------------------------------------------------------------------- families
FAMILIES = [
    Family("bloom", IMPORTS, "ok_bloom", "Z * Z * list (Z * Z * (Z * Z)) * list b_op * list b_obs",
           gen_bloom, impl_bloom, encode_bloom, oracle_bloom,
           lambda c, o: any(op[0] == "add" and op[3] > 0 for op in c["ops"]),
           describe=lambda c: f"m={c['m']}"),
]

TRUSTED = [
    "Coq 8.16.1 kernel (coqc, vm_compute for refutation witnesses and case evaluation); no native_compute",
    "correspondence harness harness/props/c20.py (generators, observers, digest/RNG recording proxies, in-Coq comparison ok_* of C20/Model.v)",
    "hash functions (sha256, builtin hash) and random.Random draws are explicit inputs of the model; theorems hold for every hash function / draw stream",
]


def run(ctx):
    ctx.prove(["C20/Model.v", "C20/Bloom.v", "C20/Props.v"], allowed_axioms=(), trusted_base=TRUSTED)
    n = ctx.n(200, 4000)
    fctx = FastCtx(ctx)
    stats = [run_family(fctx, fam, n) for fam in FAMILIES]
    merge_stats(ctx, stats, "random structured streams/schedules over a 12-item universe and tiny dimensions (forced collisions); non-trivial = at least one effective add; distinct by JSON of the input")
    ctx.finish_obligations()


def replay(data):
    fam = {f.name: f for f in FAMILIES}[data["detail"]["family"]]
    c = data["detail"].get("case") or data["detail"].get("first_mismatching_case")
    obs = fam.impl(c)
    fails = fam.oracle(c, obs)
    print("observations:", obs)
    print("oracle failures:", fails)
    return 1 if fails else 0
