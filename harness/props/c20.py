"""C20 — sketches: one-sided guarantees and merge homomorphisms.

Tie to /repo: every generated stream / schedule is executed on the real
BloomFilter, CountMinSketch, HyperLogLog, TopK, ReservoirSampler, MerkleTree and
TDigest objects (and on the collector entities inside a real Simulation); the
observations after EVERY operation are compared inside Coq with the model
C20/Model.v (ok_* functions).  Hash digests and RNG draws are recorded from the
implementation (a recording proxy replaces the `hashlib` / `random` names of the
sketch module while the case runs) and handed to the model, which does the index
arithmetic itself.  The property oracle (independent of the model) evaluates the
C20 statement on the implementation's observations with exact Counter / set /
sorted-list references.

Private attributes read: BloomFilter._bits/_bits_set/_total_count/_hash,
CountMinSketch._counters/_total_count/_hash, HyperLogLog._registers/_total_count/_hash,
TopK._counters/_total_count, ReservoirSampler._reservoir/_total_count/_rng,
TDigest._centroids/_buffer/_total_count/_min_value/_max_value, MerkleTree._root.
"""
from __future__ import annotations

import struct

from hsverif.coq import Ctor, Nat, Raw, SomeV, term
from hsverif.family import Family, merge_stats, run_family

from hsverif import coq as _coq

IMPORTS = "From Coq Require Import Uint63.\nFrom HS Require Import Base.Prelude C20.Model."


def tm(v) -> str:
    """Like hsverif.coq.term, but fast to parse: big integers as primitive-int limbs
    (Zl of C20/Model.v), lists as explicit cons chains."""
    if isinstance(v, Raw):
        return str(v)
    if isinstance(v, bool):
        return "true" if v else "false"
    if isinstance(v, Nat):
        return f"{int(v)}%nat"
    if isinstance(v, int):
        if -100000 < v < 100000:
            return f"({v})" if v < 0 else str(v)
        a, limbs = abs(v), []
        while a:
            limbs.append(a & ((1 << 62) - 1))
            a >>= 62
        t = "(Zl (" + " :: ".join(f"{d}%uint63" for d in limbs) + " :: nil))"
        return f"(- {t})" if v < 0 else t
    if v is None:
        return "None"
    if isinstance(v, SomeV):
        return f"(Some {tm(v.v)})"
    if isinstance(v, Ctor):
        return "(" + " ".join([v.name] + [tm(a) for a in v.args]) + ")" if v.args else v.name
    if isinstance(v, tuple):
        return "(" + ", ".join(tm(a) for a in v) + ")"
    if isinstance(v, list):
        return "(" + " :: ".join([tm(a) for a in v] + ["nil"]) + ")"
    raise TypeError(f"cannot encode {type(v)}: {v!r}")


class FastCtx:
    """Proxy of the check context whose in-Coq case evaluation uses small shards in
    parallel (parsing dominates; one 400-case shard would run on one core)."""

    def __init__(self, ctx):
        self.__dict__["_c"] = ctx

    def __getattr__(self, k):
        return getattr(self._c, k)

    def coq_cases(self, tag, imports, ok_fn, case_type, cases):
        shard = max(25, min(150, -(-len(cases) // 14)))
        return _coq.eval_cases(f"{self.pid}_{tag}", imports, ok_fn, case_type, cases, shard=shard, workers=14)
LEVEL = "proof"

# Item universe: ids -> hashable Python objects with pairwise different repr and ==.
ITEMS = ["a", "b", "key-3", 7, (1, 2), "k10", -1, "", "a ", 3.5, "user:42", 1000003]


def obj(i):
    return ITEMS[i]


class _Rec:
    """Recording stand-in for the `hashlib` name of a sketch module."""

    def __init__(self):
        import hashlib
        self._h = hashlib
        self.digests = []

    def sha256(self, *a):
        rec = self

        class H:
            def __init__(self):
                self.h = rec._h.sha256(*a)

            def update(self, b):
                self.h.update(b)

            def digest(self):
                d = self.h.digest()
                rec.digests.append(d)
                return d

            def hexdigest(self):
                return self.h.hexdigest()
        return H()

    def __getattr__(self, k):
        return getattr(self._h, k)


class patched:
    """with patched(module) as rec: the module's `hashlib` records digests."""

    def __init__(self, mod):
        self.mod = mod

    def __enter__(self):
        self.old = self.mod.hashlib
        self.rec = _Rec()
        self.mod.hashlib = self.rec
        return self.rec

    def __exit__(self, *a):
        self.mod.hashlib = self.old


def gen_stream(rng, n_items, length, weighted=True):
    mode = rng.choice(["skew", "unif", "single", "two"])
    out = []
    for _ in range(length):
        if mode == "skew":
            x = min(int(rng.expovariate(0.7)), n_items - 1)
        elif mode == "unif":
            x = rng.randrange(n_items)
        elif mode == "single":
            x = 0
        else:
            x = rng.randrange(2)
        c = 1
        if weighted and rng.random() < 0.3:
            c = rng.choice([0, 2, 3, 5, -1, 1, 4])
        out.append([x, c])
    return out


# --------------------------------------------------------------------------- Bloom
def gen_pre(rng, n_slots, n_items):
    """A recycled sketch: with probability 0.35 every slot is first fed a few items and then clear()ed, so
    that the recorded operations run on sketches that have been used before (clear() must give back the
    empty sketch: the model starts from the empty one)."""
    if rng.random() >= 0.35:
        return []
    return [[rng.randrange(n_slots), rng.randrange(max(1, n_items)), rng.choice([1, 1, 2, 3])] for _ in range(rng.randint(1, 6))]


def apply_pre(c, slots, item):
    pre = c.get("pre") or []
    if not pre:
        return
    for sl, x, cnt in pre:
        slots[sl].add(item(x), cnt)
    for s_ in slots:
        s_.clear()


def gen_bloom(rng):
    m = rng.choice([1, 2, 3, 5, 8, 13, 31, 64, 65, 100, 128, 130])
    k = rng.choice([1, 2, 3, 5, 7, None])
    seed = rng.choice([None, 0, 1, 42])
    n_items = rng.randint(1, len(ITEMS))
    length = rng.choice([0, 1, 2, rng.randint(3, 20)])
    s = gen_stream(rng, n_items, length)
    cut = rng.randint(0, len(s))
    queues = [[["add", 0, x, c] for x, c in s[:cut]], [["add", 1, x, c] for x, c in s[cut:]],
              [["add", 2, x, c] for x, c in s]]
    ops = []
    while any(queues):          # random interleaving that keeps each slot's stream order
        q = rng.choice([q for q in queues if q])
        ops.append(q.pop(0))
    ops.append(["merge", 0, 1])
    for _ in range(rng.randint(0, 3)):
        k2 = rng.random()
        if k2 < 0.4:
            ops.append(["add", rng.randrange(3), rng.randrange(n_items), rng.choice([1, 1, 2, 0, -2])])
        else:
            ops.append(["merge", rng.randrange(3), rng.randrange(3)])
    for sl in range(3):
        for x in range(len(ITEMS)):
            if rng.random() < 0.5 or x < n_items:
                ops.append(["query", sl, x])
    return dict(m=m, k=k, seed=seed, ops=ops, pre=gen_pre(rng, 3, n_items))


def _bloom_state(bf):
    bits = 0
    for w, word in enumerate(bf._bits):
        bits |= word << (64 * w)
    return [bits, bf._bits_set, bf._total_count]


def impl_bloom(c):
    import happysimulator.sketching.bloom_filter as mod
    mk = lambda: mod.BloomFilter(size_bits=c["m"], num_hashes=c["k"], seed=c["seed"])  # noqa: E731
    slots = [mk() for _ in range(3)]
    apply_pre(c, slots, obj)
    streams = [[] for _ in range(3)]
    obs, homo = [], []
    for o in c["ops"]:
        raised, ans = False, False
        if o[0] == "add":
            try:
                slots[o[1]].add(obj(o[2]), o[3])
                streams[o[1]].append((o[2], o[3]))
            except ValueError:
                raised = True
            st = _bloom_state(slots[o[1]])
        elif o[0] == "merge":
            other = slots[o[2]]
            before = _bloom_state(other)
            slots[o[1]].merge(other)
            if o[1] != o[2] and _bloom_state(other) != before:
                raise AssertionError("merge changed its argument")
            streams[o[1]] = streams[o[1]] + streams[o[2]]
            st = _bloom_state(slots[o[1]])
            ref = mk()
            for x, cnt in streams[o[1]]:
                ref.add(obj(x), cnt)
            homo.append([st, _bloom_state(ref)])
        else:
            ans = bool(slots[o[1]].contains(obj(o[2])))
            if ans != (obj(o[2]) in slots[o[1]]):
                raise AssertionError("__contains__ disagrees with contains")
            st = _bloom_state(slots[o[1]])
        obs.append(st + [raised, ans])
    # digest table, recorded from the implementation's own _hash
    kk = slots[0].num_hashes
    table = []
    with patched(mod) as rec:
        for x in range(len(ITEMS)):
            for i in range(kk):
                rec.digests.clear()
                idx = slots[0]._hash(obj(x), i)
                if rec.digests:
                    d = rec.digests[-1]
                    h1, h2 = struct.unpack(">Q", d[:8])[0], struct.unpack(">Q", d[8:16])[0]
                else:           # hash not built on hashlib.sha256 any more: take the index itself
                    h1, h2 = idx, 0
                table.append([x, i, h1, h2])
    return dict(obs=obs, table=table, k=kk, homo=homo)


def oracle_bloom(c, o):
    added = [set() for _ in range(3)]
    out = []
    hi = 0
    for op, ob in zip(c["ops"], o["obs"]):
        if op[0] == "add" and op[3] > 0:
            added[op[1]].add(op[2])
        elif op[0] == "merge":
            added[op[1]] |= added[op[2]]
            got, ref = o["homo"][hi]
            hi += 1
            if got != ref:
                out.append(dict(clause="bloom: merge gives exactly the filter of the concatenated streams",
                                op=op, merged=got, single=ref))
        elif op[0] == "query":
            if op[2] in added[op[1]] and not ob[4]:
                out.append(dict(clause="bloom: every inserted item is reported present", op=op, item=repr(obj(op[2]))))
    return out[:3]


def encode_bloom(c, o):
    ops = []
    for op in c["ops"]:
        if op[0] == "add":
            ops.append(Ctor("BAdd", op[1], op[2], op[3]))
        elif op[0] == "merge":
            ops.append(Ctor("BMerge", op[1], op[2]))
        else:
            ops.append(Ctor("BQuery", op[1], op[2]))
    table = [((x, i), (h1, h2)) for x, i, h1, h2 in o["table"]]
    obs = [tuple(ob) for ob in o["obs"]]
    return tm((c["m"], o["k"], table, ops, obs))


def slot_schedule(rng, n_items, weighted=True, max_len=20, extra=3, n_slots=3, query=None):
    """Stream split at a random point into slots 0/1, the whole stream into slot 2,
    randomly interleaved; then merge(0,1), a few more adds/merges, then queries."""
    length = rng.choice([0, 1, 2, rng.randint(3, max_len)])
    s = gen_stream(rng, n_items, length, weighted)
    cut = rng.randint(0, len(s))
    queues = [[["add", 0, x, c] for x, c in s[:cut]], [["add", 1, x, c] for x, c in s[cut:]],
              [["add", 2, x, c] for x, c in s]]
    ops = []
    while any(queues):
        q = rng.choice([q for q in queues if q])
        ops.append(q.pop(0))
        if query and rng.random() < 0.15:
            ops.append([query, ops[-1][1], rng.randrange(len(ITEMS))])
    ops.append(["merge", 0, 1])
    for _ in range(rng.randint(0, extra)):
        if rng.random() < 0.5:
            ops.append(["add", rng.randrange(n_slots), rng.randrange(n_items), rng.choice([1, 1, 2, 0, -2])])
        else:
            ops.append(["merge", rng.randrange(n_slots), rng.randrange(n_slots)])
    if query:
        for sl in range(3):
            for x in range(len(ITEMS)):
                if x < n_items or rng.random() < 0.3:
                    ops.append([query, sl, x])
    return ops


# --------------------------------------------------------------------------- Count-Min
def gen_cms(rng):
    n_items = rng.randint(1, len(ITEMS))
    return dict(w=rng.choice([1, 2, 3, 5, 8]), d=rng.choice([1, 2, 3, 4]), seed=rng.choice([None, 0, 7]),
                ops=slot_schedule(rng, n_items, query="est"), pre=gen_pre(rng, 3, n_items))


def _cms_state(s):
    return [[list(row) for row in s._counters], s._total_count]


def impl_cms(c):
    import happysimulator.sketching.count_min_sketch as mod
    mk = lambda: mod.CountMinSketch(width=c["w"], depth=c["d"], seed=c["seed"])  # noqa: E731
    slots = [mk() for _ in range(3)]
    apply_pre(c, slots, obj)
    streams = [[] for _ in range(3)]
    obs, homo = [], []
    for o in c["ops"]:
        raised, est = False, 0
        if o[0] == "add":
            try:
                slots[o[1]].add(obj(o[2]), o[3])
                streams[o[1]].append((o[2], o[3]))
            except ValueError:
                raised = True
        elif o[0] == "merge":
            other = slots[o[2]]
            before = _cms_state(other)
            slots[o[1]].merge(other)
            if o[1] != o[2] and _cms_state(other) != before:
                raise AssertionError("merge changed its argument")
            streams[o[1]] = streams[o[1]] + streams[o[2]]
            ref = mk()
            for x, cnt in streams[o[1]]:
                ref.add(obj(x), cnt)
            homo.append([_cms_state(slots[o[1]]), _cms_state(ref)])
        else:
            est = slots[o[1]].estimate(obj(o[2]))
            if slots[o[1]].estimate_with_error(obj(o[2])).count != est:
                raise AssertionError("estimate_with_error.count != estimate")
        obs.append(_cms_state(slots[o[1]]) + [raised, est])
    table = []
    with patched(mod) as rec:
        for x in range(len(ITEMS)):
            for r in range(c["d"]):
                rec.digests.clear()
                col = slots[0]._hash(obj(x), r)
                h = struct.unpack(">Q", rec.digests[-1][:8])[0] if rec.digests else col
                table.append([x, r, h])
    return dict(obs=obs, table=table, homo=homo)


def oracle_cms(c, o):
    from collections import Counter
    true = [Counter() for _ in range(3)]
    out, hi = [], 0
    for op, ob in zip(c["ops"], o["obs"]):
        if op[0] == "add" and op[3] > 0:
            true[op[1]][op[2]] += op[3]
        elif op[0] == "merge":
            true[op[1]] = true[op[1]] + true[op[2]]
            got, ref = o["homo"][hi]
            hi += 1
            if got != ref:
                out.append(dict(clause="count-min: merge gives exactly the sketch of the concatenated streams",
                                op=op, merged=got, single=ref))
        elif op[0] == "est":
            if ob[3] < true[op[1]][op[2]]:
                out.append(dict(clause="count-min: never underestimates a count", op=op, estimate=ob[3],
                                true=true[op[1]][op[2]]))
    return out[:3]


def encode_cms(c, o):
    m = {"add": "CAdd", "merge": "CMerge", "est": "CEst"}
    ops = [Ctor(m[op[0]], *op[1:]) for op in c["ops"]]
    table = [((x, r), h) for x, r, h in o["table"]]
    obs = [(ob[0], ob[1], ob[2], ob[3]) for ob in o["obs"]]
    return tm((c["w"], c["d"], table, ops, obs))


# --------------------------------------------------------------------------- HyperLogLog
HLL_UNIVERSE = 96            # enough distinct items to touch every register of a precision-4..6 sketch


def hobj(i):
    return ITEMS[i] if i < len(ITEMS) else f"item-{i}"


SEEDS = [None, 0, 5]          # seed ids 0,1 are the same configuration (None -> 0); id 2 differs


def gen_hll(rng):
    p = rng.choice([4, 4, 4, 5, 6])
    n_items = rng.choice([2, 12, HLL_UNIVERSE, HLL_UNIVERSE])
    length = rng.choice([0, 1, rng.randint(2, 40 if p == 4 else 14)])
    s = [[rng.randrange(n_items), 1 if rng.random() < 0.8 else rng.choice([0, 2, -1, 3])] for _ in range(length)]
    cut = rng.randint(0, len(s))
    queues = [[["add", 0, x, c] for x, c in s[:cut]], [["add", 1, x, c] for x, c in s[cut:]],
              [["add", 2, x, c] for x, c in s]]
    ops = []
    while any(queues):          # random interleaving that keeps each slot's stream order
        q = rng.choice([q for q in queues if q])
        ops.append(q.pop(0))
    ops.append(["merge", 0, 1])
    for _ in range(rng.randint(0, 4)):
        if rng.random() < 0.5:
            ops.append(["add", rng.randrange(4), rng.randrange(n_items), rng.choice([1, 1, 2, 0, -2])])
        else:
            ops.append(["merge", rng.randrange(4), rng.randrange(4)])
    slot_seed = [0, rng.choice([0, 1]), 0, 2]      # slot 3 is built with a different seed
    return dict(p=p, slot_seed=slot_seed, ops=ops, pre=gen_pre(rng, 4, n_items))


def _hll_state(s):
    return [list(s._registers), s._total_count]


def impl_hll(c):
    from happysimulator.sketching.hyperloglog import HyperLogLog
    mk = lambda sl: HyperLogLog(precision=c["p"], seed=SEEDS[c["slot_seed"][sl]])  # noqa: E731
    slots = [mk(i) for i in range(4)]
    apply_pre(c, slots, hobj)
    streams = [[] for _ in range(4)]
    obs, homo = [], []
    for o in c["ops"]:
        raised = False
        if o[0] == "add":
            try:
                slots[o[1]].add(hobj(o[2]), o[3])
                streams[o[1]].append((o[2], o[3]))
            except ValueError:
                raised = True
        else:
            other = slots[o[2]]
            before = _hll_state(other)
            try:
                slots[o[1]].merge(other)
                if o[1] != o[2] and _hll_state(other) != before:
                    raise AssertionError("merge changed its argument")
                streams[o[1]] = streams[o[1]] + streams[o[2]]
                ref = mk(o[1])
                for x, cnt in streams[o[1]]:
                    ref.add(hobj(x), cnt)
                homo.append([o, _hll_state(slots[o[1]]), _hll_state(ref)])
            except ValueError:
                raised = True
        obs.append(_hll_state(slots[o[1]]) + [raised])
    eff = lambda sid: 0 if SEEDS[sid] is None else SEEDS[sid]  # noqa: E731
    table = []
    for sid in sorted(set(c["slot_seed"])):
        probe = HyperLogLog(precision=c["p"], seed=SEEDS[sid])
        for x in sorted({o[2] for o in c["ops"] if o[0] == "add"}):
            table.append([eff(sid), x, probe._hash(hobj(x))])
    return dict(obs=obs, table=table, homo=homo, seeds=[eff(sid) for sid in c["slot_seed"]])


def oracle_hll(c, o):
    out = []
    for op, got, ref in o["homo"]:
        if got != ref:
            out.append(dict(clause="hyperloglog: merge gives exactly the sketch of the concatenated streams",
                            mechanism="seed-mismatch-merged" if o["seeds"][op[1]] != o["seeds"][op[2]] else "merge",
                            op=op, merged=got, single=ref))
    return out[:3]


def encode_hll(c, o):
    ops = [Ctor("HAdd" if op[0] == "add" else "HMerge", *op[1:]) for op in c["ops"]]
    table = [((sd, x), h) for sd, x, h in o["table"]]
    seeds = [(i, sd) for i, sd in enumerate(o["seeds"])]
    obs = [(ob[0], ob[1], ob[2]) for ob in o["obs"]]
    return tm((c["p"], seeds, table, ops, obs))


# --------------------------------------------------------------------------- TopK
def gen_topk(rng):
    n_items = rng.randint(1, len(ITEMS))
    return dict(k=rng.choice([1, 2, 3, 4, 6]), ops=slot_schedule(rng, n_items, max_len=30, query="est"),
                pre=gen_pre(rng, 3, n_items))


def _topk_state(s):
    return [[[ITEMS.index(c.item), c.count, c.error] for c in s._counters.values()], s._total_count]


def impl_topk(c):
    from happysimulator.sketching.topk import TopK
    slots = [TopK(k=c["k"]) for _ in range(3)]
    apply_pre(c, slots, obj)
    obs = []
    for o in c["ops"]:
        raised, ee = False, [0, 0]
        s = slots[o[1]]
        if o[0] == "add":
            try:
                s.add(obj(o[2]), o[3])
            except ValueError:
                raised = True
        elif o[0] == "merge":
            s.merge(slots[o[2]])
        else:
            fe = s.estimate_with_error(obj(o[2]))
            if fe.count != s.estimate(obj(o[2])) or (obj(o[2]) in s) != (fe.count > 0 or any(
                    cn.item == obj(o[2]) for cn in s._counters.values())):
                raise AssertionError("estimate / __contains__ / estimate_with_error disagree")
            ee = [fe.count, fe.error]
        top = [[ITEMS.index(e.item), e.count, e.error] for e in s.top()]
        st = _topk_state(s)
        if sorted(top, key=lambda e: -e[1]) != top or sorted(top) != sorted(st[0]) or s.tracked_count != len(top):
            raise AssertionError("top() is not the tracked counters sorted by count")
        obs.append(st + [raised, ee, s.max_error(), s.guaranteed_threshold()])
    return dict(obs=obs)


def oracle_topk(c, o):
    from collections import Counter
    true = [Counter() for _ in range(3)]
    merged = [False] * 3
    out = []
    for op, ob in zip(c["ops"], o["obs"]):
        sl = op[1]
        if op[0] == "add" and op[3] > 0:
            true[sl][op[2]] += op[3]
        elif op[0] == "merge":
            merged[sl] = True
        if merged[sl]:
            continue                      # the property speaks about streams of adds
        cnt, total = ob[0], ob[1]
        n = sum(true[sl].values())
        tracked = {e[0]: e for e in cnt}
        for x, (_, count, err) in tracked.items():
            if not (count - err <= true[sl][x] <= count):
                out.append(dict(clause="topk: estimate exceeds the true count by at most the reported error",
                                op=op, item=x, count=count, error=err, true=true[sl][x]))
        if total != n or sum(e[1] for e in cnt) != n or len(cnt) > c["k"]:
            out.append(dict(clause="topk: counters sum to N and at most k are kept", op=op, total=total, n=n, counters=cnt))
        if ob[5] != n // c["k"]:
            out.append(dict(clause="topk: guaranteed_threshold = N // k", op=op, got=ob[5]))
        for x, t in true[sl].items():
            if t > n // c["k"] and x not in tracked:
                out.append(dict(clause="topk: every item more frequent than N/k is tracked", op=op, item=x, true=t, n=n))
        if op[0] == "est":
            e_cnt, e_err = ob[3]
            t = true[sl][op[2]]
            if e_cnt - e_err > t or (op[2] not in tracked and t > e_err):
                out.append(dict(clause="topk: estimate_with_error bounds the true count", op=op, got=ob[3], true=t))
        if out:
            break
    return out[:3]


def encode_topk(c, o):
    m = {"add": "TAdd", "merge": "TMerge", "est": "TEst"}
    ops = [Ctor(m[op[0]], *op[1:]) for op in c["ops"]]
    obs = [([(e[0], (e[1], e[2])) for e in ob[0]], ob[1], ob[2], tuple(ob[3]), ob[4], ob[5]) for ob in o["obs"]]
    return tm((c["k"], ops, obs))


# --------------------------------------------------------------------------- Reservoir
class RecRng:
    """Recording wrapper around the sampler's random.Random."""

    def __init__(self, rng):
        self.rng, self.log = rng, []

    def randint(self, a, b):
        v = self.rng.randint(a, b)
        self.log.append(v)
        return v

    def random(self):
        v = self.rng.random()
        self.log.append(int(v * (1 << 53)))      # exact: random() is a multiple of 2**-53
        return v

    def __getattr__(self, k):
        return getattr(self.rng, k)


def gen_reservoir(rng):
    k = rng.choice([1, 2, 3, 5])
    ops = []
    nxt = [100]
    for _ in range(rng.choice([0, 1, 2, rng.randint(3, 25)])):
        r = rng.random()
        if r < 0.8:
            if rng.random() < 0.5:
                x = nxt[0]
                nxt[0] += 1
            else:
                x = rng.randrange(4)
            ops.append(["add", rng.randrange(3), x, 1 if rng.random() < 0.7 else rng.choice([0, 2, 3, -1, 7])])
        else:
            ops.append(["merge", rng.randrange(3), rng.randrange(3)])
    return dict(k=k, seed=rng.randrange(1000), ops=ops)


def impl_reservoir(c):
    from happysimulator.sketching.reservoir import ReservoirSampler
    slots = [ReservoirSampler(size=c["k"], seed=c["seed"] + i) for i in range(3)]
    for s in slots:
        s._rng = RecRng(s._rng)
    obs = []
    for o in c["ops"]:
        s = slots[o[1]]
        s._rng.log = []
        raised = False
        if o[0] == "add":
            try:
                s.add(o[2], o[3])
            except ValueError:
                raised = True
        else:
            s.merge(slots[o[2]])
        if len(s) != len(s.sample()) or s.sample() != list(s) or s.sample_size != len(s) or s.capacity != c["k"]:
            raise AssertionError("sample()/len()/iter() disagree")
        obs.append([list(s._reservoir), s._total_count, raised, list(s._rng.log)])
    return dict(obs=obs)


def oracle_reservoir(c, o):
    from collections import Counter
    streams = [Counter() for _ in range(3)]
    merged = [False] * 3
    out = []
    for op, ob in zip(c["ops"], o["obs"]):
        sl = op[1]
        if op[0] == "add" and op[3] > 0:
            streams[sl][op[2]] += op[3]
        elif op[0] == "merge":
            streams[sl] = streams[sl] + streams[op[2]]
            merged[sl] = True
        n = sum(streams[sl].values())
        held = Counter(ob[0])
        if len(ob[0]) != min(c["k"], n) or ob[1] != n:
            out.append(dict(clause="reservoir: holds min(k, n) items", op=op, held=ob[0], n=n, total=ob[1]))
        extra = held - streams[sl]
        if extra:
            foreign = [x for x in extra if x not in streams[sl]]
            out.append(dict(clause="reservoir: the items held are items of the stream (each occurrence at most once)",
                            mechanism="merge-with-replacement" if merged[sl] and not foreign else "not-a-stream-item",
                            op=op, held=ob[0], stream=dict(streams[sl]),
                            what="ReservoirSampler.merge samples WITH replacement: the merged reservoir holds one stream occurrence more than once"))
        if out:
            break
    return out[:2]


def attribute_reservoir(c, o, f):
    return "C20-reservoir-merge-with-replacement" if f.get("mechanism") == "merge-with-replacement" else None


def encode_reservoir(c, o):
    ops = []
    for op, ob in zip(c["ops"], o["obs"]):
        ops.append(Ctor("RAdd", op[1], op[2], op[3], ob[3]) if op[0] == "add" else Ctor("RMerge", op[1], op[2], ob[3]))
    obs = [(ob[0], ob[1], ob[2]) for ob in o["obs"]]
    return tm((c["k"], ops, obs))


# --------------------------------------------------------------------------- Merkle
def mkey(i):
    return f"k{i:02d}"


def mval(v):
    """value code of the cases -> Python value stored in the tree: -1 is None (a tombstone value)."""
    return None if v == -1 else v


def mcode(v):
    return -1 if v is None else v


def gen_merkle(rng):
    nkeys = rng.choice([1, 2, 3, 5, 8, 10])
    rv = lambda: rng.choice([-1, 0, 0, 1, 1, 2])  # noqa: E731

    def rand_map():
        return {k: rv() for k in rng.sample(range(nkeys), rng.randint(0, nkeys))}
    a = rand_map()
    mode = rng.random()
    if mode < 0.25:
        b = dict(a)
    elif mode < 0.7:
        b = dict(a)
        for _ in range(rng.randint(1, 3)):
            k = rng.randrange(nkeys)
            r = rng.random()
            if r < 0.4:
                b[k] = rv()
            elif r < 0.7:
                b.pop(k, None)
            else:
                b[k] = max(b.get(k, 0), 0) + 1
    else:
        b = rand_map()
    ops = [["build", 0, sorted(a.items(), key=lambda kv: rng.random())],
           ["build", 1, sorted(b.items(), key=lambda kv: rng.random())], ["diff", 0, 1], ["diff", 1, 0]]
    for _ in range(rng.randint(0, 6)):
        r = rng.random()
        t = rng.randrange(2)
        if r < 0.4:
            ops.append(["update", t, rng.randrange(nkeys), rv()])
        elif r < 0.65:
            ops.append(["remove", t, rng.randrange(nkeys)])
        else:
            ops.append(["diff", t, 1 - t] if rng.random() < 0.9 else ["diff", t, t])
    ops.append(["diff", 0, 1])
    # boxed: every value is stored as a one-element list (a mutable record); an update of an existing key
    # then mutates the stored record in place and writes the same object back
    return dict(ops=ops, boxed=rng.random() < 0.4)


def impl_merkle(c):
    from happysimulator.sketching.merkle_tree import MerkleTree
    trees = {0: MerkleTree(), 1: MerkleTree()}
    ref = {0: {}, 1: {}}
    obs = []
    ki = lambda s: int(s[1:])  # noqa: E731
    boxed = bool(c.get("boxed"))
    box = (lambda v: [mval(v)]) if boxed else mval
    unbox = (lambda v: v[0] if isinstance(v, list) else v) if boxed else (lambda v: v)
    for o in c["ops"]:
        ranges, same = [], False
        if o[0] == "build":
            trees[o[1]] = MerkleTree.build({mkey(k): box(v) for k, v in o[2]})
            ref[o[1]] = {k: v for k, v in o[2]}
        elif o[0] == "update":
            cur = trees[o[1]].get(mkey(o[2])) if boxed and o[2] in ref[o[1]] else None
            if isinstance(cur, list):
                cur[0] = mval(o[3])                  # the stored record, changed in place and written back
                trees[o[1]].update(mkey(o[2]), cur)
            else:
                trees[o[1]].update(mkey(o[2]), box(o[3]))
            ref[o[1]][o[2]] = o[3]
        elif o[0] == "remove":
            existed = trees[o[1]].remove(mkey(o[2]))
            if existed != (o[2] in ref[o[1]]):
                raise AssertionError("remove() return value")
            ref[o[1]].pop(o[2], None)
        else:
            d = trees[o[1]].diff(trees[o[2]])
            ranges = [[ki(r.start), ki(r.end)] for r in d]
            same = trees[o[1]].root_hash == trees[o[2]].root_hash
            for r in d:
                for k in range(12):
                    if r.contains(mkey(k)) != (ki(r.start) <= k <= ki(r.end)):
                        raise AssertionError("KeyRange.contains")
        t = trees[o[1]]
        if t.size != len(ref[o[1]]) or t.keys() != [mkey(k) for k in sorted(ref[o[1]])] or any(
                (unbox(t.get(mkey(k))) if k in ref[o[1]] else t.get(mkey(k))) != (mval(ref[o[1]][k]) if k in ref[o[1]] else None)
                for k in range(12)):
            raise AssertionError("size/keys/get disagree with the map")
        obs.append([[[ki(k), mcode(unbox(v))] for k, v in t.items()], ranges, same])
    return dict(obs=obs)


def oracle_merkle(c, o):
    maps = {0: {}, 1: {}}
    out = []
    for op, ob in zip(c["ops"], o["obs"]):
        if op[0] == "build":
            maps[op[1]] = {k: v for k, v in op[2]}
        elif op[0] == "update":
            maps[op[1]][op[2]] = op[3]
        elif op[0] == "remove":
            maps[op[1]].pop(op[2], None)
        else:
            a, b = maps[op[1]], maps[op[2]]
            if (ob[1] == []) != (a == b):
                out.append(dict(clause="merkle: diff is empty exactly when the two maps are equal", op=op, a=a, b=b, diff=ob[1]))
            if ob[2] != (a == b):
                out.append(dict(clause="merkle: root hashes are equal exactly when the two maps are equal", op=op, a=a, b=b))
            for k in set(a) | set(b):
                if a.get(k) != b.get(k) and not any(lo <= k <= hi for lo, hi in ob[1]):
                    out.append(dict(clause="merkle: diff ranges cover every key whose value differs", op=op, key=k, a=a, b=b, diff=ob[1]))
        if out:
            break
    return out[:2]


def encode_merkle(c, o):
    ops = []
    for op in c["ops"]:
        if op[0] == "build":
            ops.append(Ctor("MBuild", op[1], [tuple(kv) for kv in op[2]]))
        elif op[0] == "update":
            ops.append(Ctor("MUpdate", op[1], op[2], op[3]))
        elif op[0] == "remove":
            ops.append(Ctor("MRemove", op[1], op[2]))
        else:
            ops.append(Ctor("MDiff", op[1], op[2]))
    obs = [([tuple(kv) for kv in ob[0]], [tuple(r) for r in ob[1]], ob[2]) for ob in o["obs"]]
    return tm((ops, obs))


# --------------------------------------------------------------------------- T-Digest
def fl(x):
    """binary64 literal for the case file (bit-exact)."""
    x = float(x)
    if x != x or x in (float("inf"), float("-inf")):
        raise ValueError("non-finite float in a case")
    return Raw(f"({x.hex()})%float")


def gen_tdigest(rng):
    import math
    comp = rng.choice([0.4, 1, 2, 3, 5, 10, 20, 100.0])
    mode = rng.choice(["const", "few", "unif", "ints", "close", "neg"])
    base = rng.choice([0.1, 0.3, 2.7, 1e-3, 123.456])
    pool = [rng.random() for _ in range(3)]

    def value():
        if mode == "const":
            return base
        if mode == "few":
            return rng.choice(pool)
        if mode == "unif":
            return rng.uniform(0, 10)
        if mode == "ints":
            return rng.randint(0, 5) / 10
        if mode == "close":
            return base + rng.randint(0, 3) * math.ulp(base)
        return rng.uniform(-5, 5)
    ops = []
    n_adds = rng.choice([0, 1, 2, 3, rng.randint(4, 40)])
    for _ in range(n_adds):
        ops.append(["add", rng.randrange(2) if rng.random() < 0.3 else 0, value(),
                    1 if rng.random() < 0.75 else rng.choice([0, 2, 3, -1, 5])])
        r = rng.random()
        if r < 0.06:
            ops.append(["quantile", rng.randrange(2), rng.choice([0.5, 0.0, 1.0, rng.random(), -0.1, 1.5])])
        elif r < 0.10:
            ops.append(["merge", rng.randrange(2), rng.randrange(2)])
    if rng.random() < 0.5:
        ops.append(["merge", 0, 1])
    for sl in range(2):
        qs = sorted(set([0.0, 1.0, 0.5, 0.25, 0.75] + [rng.random() for _ in range(rng.randint(3, 12))]
                        + ([rng.choice([0.001, 0.999, 0.0001])] if rng.random() < 0.3 else [])))
        rng.shuffle(qs) if rng.random() < 0.2 else None
        ops += [["quantile", sl, q] for q in qs]
    return dict(comp=comp, ops=ops)


def _td_state(t):
    return [[[c.mean, c.count] for c in t._centroids], t._total_count, t._min_value, t._max_value, list(t._buffer)]


def impl_tdigest(c):
    from happysimulator.sketching.tdigest import TDigest
    slots = [TDigest(compression=c["comp"]) for _ in range(2)]
    obs = []
    for o in c["ops"]:
        t = slots[o[1]]
        raised, val = False, None
        if o[0] == "add":
            try:
                t.add(o[2], o[3])
            except ValueError:
                raised = True
        elif o[0] == "quantile":
            try:
                val = t.quantile(o[2])
            except ValueError:
                raised = True
        else:
            t.merge(slots[o[2]])
        if t.min != t._min_value or t.max != t._max_value or t.item_count != t._total_count:
            raise AssertionError("min/max/item_count accessors")
        obs.append(_td_state(t) + [raised, val])
    return dict(obs=obs, bufsize=slots[0]._buffer_size)


def oracle_tdigest(c, o):
    """Runs of consecutive quantile queries on one unchanged digest: non-decreasing in q,
    inside [observed min, observed max]."""
    vals = [[], []]                # true values added per slot
    runs = {0: [], 1: []}
    out = []

    def close(sl):
        run = runs[sl]
        runs[sl] = []
        if not run or not vals[sl]:
            return
        lo, hi = min(vals[sl]), max(vals[sl])
        scale = max(abs(lo), abs(hi), 1e-300)
        for q, v, mn, mx in run:
            if mn != lo or mx != hi:
                out.append(dict(clause="tdigest: min/max are the observed minimum and maximum", q=q, min=mn, max=mx, lo=lo, hi=hi))
            if v < lo or v > hi:
                ex = max(lo - v, v - hi)
                out.append(dict(clause="tdigest: quantiles lie within the observed minimum and maximum",
                                mechanism="float-rounding-range" if ex <= 1e-9 * scale else "out-of-range",
                                q=q, value=v, min=lo, max=hi, excess=ex,
                                what="TDigest.quantile leaves [min, max] by a few ulps (binary64 rounding of weighted centroid means / interpolation)"))
        srt = sorted(run)
        for (q1, v1, _, _), (q2, v2, _, _) in zip(srt, srt[1:]):
            if v2 < v1:
                out.append(dict(clause="tdigest: quantiles are non-decreasing in q",
                                mechanism="float-rounding-monotone" if v1 - v2 <= 1e-9 * scale else "non-monotone",
                                q1=q1, v1=v1, q2=q2, v2=v2,
                                what="TDigest.quantile decreases by a few ulps as q grows (binary64 rounding of weighted centroid means / interpolation)"))
    for op, ob in zip(c["ops"], o["obs"]):
        sl = op[1]
        if op[0] == "quantile":
            if ob[6] is not None:
                runs[sl].append((op[2], ob[6], ob[2], ob[3]))
            elif 0 <= op[2] <= 1 and vals[sl]:
                out.append(dict(clause="tdigest: quantile of a non-empty digest is defined", op=op))
        else:
            close(sl)
            if op[0] == "add" and op[3] > 0:
                vals[sl] += [op[2]] * op[3]
            elif op[0] == "merge":
                close(op[2])
                vals[sl] = vals[sl] + vals[op[2]]
    close(0)
    close(1)
    # one failure per mechanism is enough
    seen, res = set(), []
    for f in out:
        key = (f["clause"], f.get("mechanism"))
        if key not in seen:
            seen.add(key)
            res.append(f)
    return res[:4]


def attribute_tdigest(c, o, f):
    return {"float-rounding-range": "C20-tdigest-range-rounding",
            "float-rounding-monotone": "C20-tdigest-monotone-rounding"}.get(f.get("mechanism"))


def encode_tdigest(c, o):
    ops = []
    for op in c["ops"]:
        if op[0] == "add":
            ops.append(Ctor("DAdd FA", op[1], fl(op[2]), op[3]))
        elif op[0] == "quantile":
            ops.append(Ctor("DQuantile FA", op[1], fl(op[2])))
        else:
            ops.append(Ctor("DMerge FA", op[1], op[2]))
    fo = lambda x: None if x is None else SomeV(fl(x))  # noqa: E731
    obs = [([(fl(m), n) for m, n in ob[0]], ob[1], fo(ob[2]), fo(ob[3]), [fl(v) for v in ob[4]], ob[5], fo(ob[6]))
           for ob in o["obs"]]
    return tm((fl(c["comp"]), o["bufsize"], ops, obs))


# --------------------------------------------------------------------------- collector entities
def gen_collectors(rng):
    n_items = rng.randint(1, 8)
    evs = []
    for _ in range(rng.randint(0, 25)):
        t = rng.choice([0.0, 0.5, 1.0, 1.0, 2.5, rng.randint(0, 30) / 10])
        tgt = rng.randrange(3)
        v = None if rng.random() < 0.15 else (rng.randrange(n_items) if tgt < 2 else rng.choice([0.1, 0.3, 2.7, rng.random()]))
        evs.append([t, tgt, v, rng.choice([1, 1, 2, 5, 0])])
    return dict(k=rng.choice([1, 2, 3]), w=rng.choice([2, 3, 5]), d=rng.choice([1, 2]), comp=rng.choice([1, 2, 5]),
                weighted=rng.random() < 0.5, events=evs)


def impl_collectors(c):
    import happysimulator.sketching.count_min_sketch as cmod
    from happysimulator import Event, Instant, Simulation
    from happysimulator.components.sketching import QuantileEstimator, SketchCollector, TopKCollector
    wx = (lambda e: e.context["w"]) if c["weighted"] else None
    vx = lambda e: None if e.context["v"] is None else obj(e.context["v"])  # noqa: E731
    tk = TopKCollector("topk", k=c["k"], value_extractor=vx, count_extractor=wx)
    sk = SketchCollector("cms", cmod.CountMinSketch(width=c["w"], depth=c["d"], seed=3), value_extractor=vx, weight_extractor=wx)
    qe = QuantileEstimator("quant", value_extractor=lambda e: e.context["v"], compression=c["comp"])
    ents = [tk, sk, qe]
    traces = [[], [], []]

    def wrap(i, ent, view):
        orig = ent.handle_event

        def rec(ev):
            out = orig(ev)
            traces[i].append(dict(v=ev.context["v"], w=ev.context["w"] if (c["weighted"] and i < 2) else None,
                                  nout=len(out or []), t=ev.time.to_seconds(), now=ent.now.to_seconds(), view=view()))
            return out
        ent.handle_event = rec
    wrap(0, tk, lambda: [_topk_state(tk._topk), tk.events_processed, tk.total_count, tk.tracked_count])
    wrap(1, sk, lambda: [_cms_state(sk.sketch), sk.events_processed])
    wrap(2, qe, lambda: [_td_state(qe._tdigest), qe.events_processed, qe.sample_count])
    sim = Simulation(entities=ents, duration=100)
    for t, tgt, v, w in c["events"]:
        sim.schedule(Event(time=Instant.from_seconds(t), event_type="Obs", target=ents[tgt], context={"v": v, "w": w}))
    import contextlib
    import io
    with contextlib.redirect_stdout(io.StringIO()):
        sim.run()
    table = []
    with patched(cmod) as rec:
        for x in range(len(ITEMS)):
            for r in range(c["d"]):
                rec.digests.clear()
                col = sk.sketch._hash(obj(x), r)
                table.append([x, r, struct.unpack(">Q", rec.digests[-1][:8])[0] if rec.digests else col])
    # (round-8 seed C20-14) what the sketch behind the collector answers at the end, for every value that was sent to it
    seen = sorted({e[2] for e in c["events"] if e[1] == 1 and e[2] is not None})
    est = [[x, sk.sketch.estimate(obj(x))] for x in seen]
    return dict(traces=traces, table=table, bufsize=qe._tdigest._buffer_size, est=est)


def oracle_collectors(c, o):
    from collections import Counter
    out = []
    for i in range(3):
        sent = [e for e in c["events"] if e[1] == i]
        tr = o["traces"][i]
        if len(tr) != len(sent):
            out.append(dict(clause="collector: every event is handled once", target=i, sent=len(sent), handled=len(tr)))
            continue
        if any(x["nout"] for x in tr) or any(x["t"] != x["now"] for x in tr) or [x["t"] for x in tr] != sorted(x["t"] for x in tr):
            out.append(dict(clause="collector: sink (no output), handled at the event time in time order", target=i))
        if tr and tr[-1]["view"][1] != len(tr):
            out.append(dict(clause="collector: events_processed counts every event", target=i))
    true1 = Counter()
    for t, tgt, v, w in c["events"]:
        if tgt == 1 and v is not None:
            true1[v] += (w if c["weighted"] else 1)
    for x, e in o.get("est", []):
        if e < true1[x]:
            out.append(dict(clause="sketch collector: Count-Min never underestimates what was routed through the collector",
                            item=x, estimate=e, true=true1[x]))
    tr = o["traces"][0]
    if tr:
        true = Counter()
        for x in tr:
            if x["v"] is not None and (x["w"] if x["w"] is not None else 1) > 0:
                true[x["v"]] += x["w"] if x["w"] is not None else 1
        cnt, total = tr[-1]["view"][0]
        n = sum(true.values())
        if total != n or tr[-1]["view"][2] != n:
            out.append(dict(clause="topk collector: total_count = sum of the counts added", total=total, n=n))
        tracked = {e[0]: e for e in cnt}
        for x, t in true.items():
            if x in tracked and not (tracked[x][1] - tracked[x][2] <= t <= tracked[x][1]):
                out.append(dict(clause="topk: estimate exceeds the true count by at most the reported error", item=x))
            if x not in tracked and t > n // c["k"]:
                out.append(dict(clause="topk: every item more frequent than N/k is tracked", item=x))
    return out[:3]


def encode_collectors(c, o):
    t0, t1, t2 = o["traces"]
    ov = lambda x: None if x is None else SomeV(x)  # noqa: E731
    fo = lambda x: None if x is None else SomeV(fl(x))  # noqa: E731
    tk = (c["k"], [(ov(x["v"]), ov(x["w"])) for x in t0],
          [([(e[0], (e[1], e[2])) for e in x["view"][0][0]], x["view"][0][1], x["view"][1]) for x in t0])
    cm = (c["w"], c["d"], [((x, r), h) for x, r, h in o["table"]], [(ov(x["v"]), ov(x["w"])) for x in t1],
          [(x["view"][0][0], x["view"][0][1], x["view"][1]) for x in t1])
    td = (fl(c["comp"]), o["bufsize"], [fo(x["v"]) for x in t2],
          [(([(fl(m), n) for m, n in x["view"][0][0]], x["view"][0][1], fo(x["view"][0][2]), fo(x["view"][0][3]),
             [fl(v) for v in x["view"][0][4]], False, None), x["view"][1]) for x in t2])
    return tm((tk, cm, td))


# --------------------------------------------------------------------------- families
FAMILIES = [
    Family("bloom", IMPORTS, "ok_bloom", "Z * Z * list (Z * Z * (Z * Z)) * list b_op * list b_obs",
           gen_bloom, impl_bloom, encode_bloom, oracle_bloom,
           lambda c, o: any(op[0] == "add" and op[3] > 0 for op in c["ops"]),
           describe=lambda c: f"m={c['m']}"),
    Family("cms", IMPORTS, "ok_cms", "Z * Z * list (Z * Z * Z) * list c_op * list c_obs",
           gen_cms, impl_cms, encode_cms, oracle_cms,
           lambda c, o: any(op[0] == "add" and op[3] > 0 for op in c["ops"]),
           describe=lambda c: f"w={c['w']},d={c['d']}"),
    Family("hll", IMPORTS, "ok_hll", "Z * list (Z * Z) * list (Z * Z * Z) * list h_op * list h_obs",
           gen_hll, impl_hll, encode_hll, oracle_hll,
           lambda c, o: any(op[0] == "add" and op[3] > 0 for op in c["ops"]),
           describe=lambda c: f"p={c['p']}"),
    Family("topk", IMPORTS, "ok_topk", "Z * list t_op * list t_obs",
           gen_topk, impl_topk, encode_topk, oracle_topk,
           lambda c, o: any(len(ob[0]) >= c["k"] for ob in o["obs"]),
           describe=lambda c: f"k={c['k']}"),
    Family("reservoir", IMPORTS, "ok_reservoir", "Z * list r_op * list r_obs",
           gen_reservoir, impl_reservoir, encode_reservoir, oracle_reservoir,
           lambda c, o: any(ob[3] for ob in o["obs"]), attribute_reservoir,
           describe=lambda c: f"k={c['k']}"),
    Family("merkle", IMPORTS, "ok_merkle", "list m_op * list m_obs",
           gen_merkle, impl_merkle, encode_merkle, oracle_merkle,
           lambda c, o: any(ob[1] for ob in o["obs"]),
           describe=lambda c: f"ops={len(c['ops'])}"),
    Family("tdigest", IMPORTS + "\nFrom Coq Require Import Floats.", "ok_tdigest",
           "float * Z * list (td_op FA) * list (td_obs FA)",
           gen_tdigest, impl_tdigest, encode_tdigest, oracle_tdigest,
           lambda c, o: any(len(ob[0]) >= 2 for ob in o["obs"]), attribute_tdigest,
           describe=lambda c: f"comp={c['comp']}"),
    Family("collectors", IMPORTS + "\nFrom Coq Require Import Floats.", "ok_collectors",
           "(Z * list (option Z * option Z) * list (list tk_entry * Z * Z)) * "
           "(Z * Z * list (Z * Z * Z) * list (option Z * option Z) * list (list (list Z) * Z * Z)) * "
           "(float * Z * list (option float) * list (td_obs FA * Z))",
           gen_collectors, impl_collectors, encode_collectors, oracle_collectors,
           lambda c, o: len(c["events"]) >= 3, parallel=True,
           describe=lambda c: f"events={len(c['events']) // 5 * 5}+"),
]

PROOF_FILES = ["C20/Model.v", "C20/Bloom.v", "C20/Counting.v", "C20/TopK.v", "C20/Reservoir.v", "C20/Merkle.v",
               "C20/TDigest.v", "C20/Props.v"]

WEIGHT = {"collectors": 0.5}

# Kernel-native binary64 / int63 operations.  Print Assumptions lists them under "Axioms:" for the two
# t-digest refutation theorems (which compute on PrimFloat); they are primitives, not logical axioms.
FLOAT_PRIMS = ("PrimInt63.sub", "sub", "sqrt", "opp", "of_uint63", "mul", "ltb", "PrimInt63.lsl", "PrimInt63.lor",
               "PrimFloat.leb", "PrimInt63.int", "float", "PrimFloat.eqb", "div", "add", "PrimFloat.ltb",
               "PrimFloat.sub", "PrimFloat.add", "PrimFloat.mul", "PrimFloat.div", "PrimFloat.sqrt",
               "PrimFloat.opp", "PrimFloat.of_uint63", "PrimInt63.add", "PrimInt63.mul", "PrimInt63.land",
               "PrimInt63.lsr", "PrimInt63.eqb", "PrimInt63.ltb", "PrimInt63.leb")

TRUSTED = [
    "Coq 8.16.1 kernel (coqc, vm_compute for refutation witnesses and case evaluation); no native_compute",
    "correspondence harness harness/props/c20.py (generators, observers, digest/RNG recording proxies, in-Coq comparison ok_* of C20/Model.v)",
    "hash functions (sha256, builtin hash) and random.Random draws are explicit inputs of the model; theorems hold for every hash function / draw stream",
    "Merkle theorems assume injective, domain-separated leaf/inner hashes (sha256 collision freedom; leaf preimages contain ':' and inner preimages do not); values are compared by repr",
    "PrimFloat/PrimInt63 kernel primitives = CPython binary64 arithmetic (IEEE 754 round-to-nearest-even, correctly rounded sqrt); listed by Print Assumptions for c20_tdigest_float_*_refuted only; checked bit-exactly on every t-digest case",
    "t-digest range and monotonicity clauses are proved over exact rationals (c20_tdigest_exact_*_partial) for every digest built by adds/flushes/merges; on binary64 both are refuted (known findings) and the oracle checks them with a 1e-9 relative rounding tolerance",
]


def run(ctx):
    ctx.prove(PROOF_FILES, allowed_axioms=FLOAT_PRIMS, trusted_base=TRUSTED)
    n = ctx.n(60, 1000)
    fctx = FastCtx(ctx)
    stats = []
    import os
    only = os.environ.get("C20_FAMILIES")          # development aid: run a subset of the families
    for fam in FAMILIES:
        if only and fam.name not in only.split(","):
            continue
        stats.append(run_family(fctx, fam, max(1, int(n * WEIGHT.get(fam.name, 1.0)))))
        ctx.log(f"family {fam.name}: {stats[-1]['cases']} cases, mismatches={stats[-1]['mismatches']}, oracle_failures={stats[-1]['oracle_failures']}")
    merge_stats(ctx, stats, "random structured streams/schedules over a 12-item universe and tiny dimensions (forced collisions); non-trivial = at least one effective add; distinct by JSON of the input")
    ctx.finish_obligations()
    ctx.assumptions += [
        "t-digest: 'quantiles non-decreasing in q and within [min, max]' is refuted on the binary64 model (c20_tdigest_float_*_refuted, known findings C20-tdigest-*-rounding) and proved over exact rationals (c20_tdigest_exact_*_partial)",
        "reservoir merge: size and membership proved (c20_reservoir_merge_size_partial), distinctness refuted (known finding C20-reservoir-merge-with-replacement)",
        "Merkle theorems: leaf/inner hashes injective and domain separated (sha256 collision freedom); reservoir merge: random() in [0, 1)",
    ]


def replay(data):
    fam = {f.name: f for f in FAMILIES}[data["detail"]["family"]]
    c = data["detail"].get("case") or data["detail"].get("first_mismatching_case")
    obs = fam.impl(c)
    fails = fam.oracle(c, obs)
    print("observations:", obs)
    print("oracle failures:", fails)
    return 1 if fails else 0
