"""C06 — injected faults act exactly during their windows and isolate only their target.

Tie to /repo: every generated fault schedule is executed inside a real
`Simulation` with a real `FaultSchedule` (CrashNode, PauseNode, InjectLatency,
InjectPacketLoss, NetworkPartition, ReduceCapacity, FaultHandle.cancel); probe
events sample the target's setting on a grid that contains every window edge
and edge +-1 ns; workload entities (generator handlers, a queue-fronted
QueuedResource, a Resource client) log what they execute.  The observations are
compared inside Coq with C06/Model.v (ok_* functions).  The property oracle
(independent of the model) evaluates the C06 statement against the harness' own
window list.

Private attributes read: entity._crashed (the flag the fault framework itself
defines), Resource._capacity/_available via the public properties, Network
._partitioned_pairs/_directed_partitions (sizes only).
"""
from __future__ import annotations

from hsverif.coq import Ctor, SomeV, term
from hsverif.family import Family, merge_stats, run_family

IMPORTS = "From HS Require Import Base.Prelude C06.Model."
LEVEL = "proof"
S = 1_000_000_000
Q = S // 4


# --------------------------------------------------------------------------- shared helpers
def opt(v):
    return None if v is None else SomeV(v)


def secs(ns):
    """Value handed to the fault dataclasses (seconds); exact for multiples of S/4."""
    return ns // S if ns % S == 0 else ns / S


def win_term(f):
    if f.get("k") == "part":
        return Ctor("PW", f["ga"], f["gb"], bool(f["asym"]), f["s"], f["e"], opt(f["c"]))
    return Ctor("W", f["tgt"], f["s"], opt(f["e"]), f["p"], opt(f["c"]))


def act_delivered(f):
    return f["c"] is None or f["s"] <= f["c"]


def deact_delivered(f):
    return f["e"] is not None and (f["c"] is None or f["e"] <= f["c"])


def covers(f, t):
    """The harness' own reading of 'the window of fault f is active at t' (fault events of
    instant t have run).  A handle cancelled between activation and deactivation leaves the
    fault in force (its pending deactivation is cancelled, as FaultHandle.cancel documents)."""
    if not act_delivered(f) or f["s"] > t:
        return False
    if f["e"] is None or not deact_delivered(f):
        return True
    return t < f["e"]


def malformed(f):
    return f["e"] is not None and f["e"] < f["s"]


def key_on(i, f):
    return (f["s"], 2 * i)


def key_off(i, f):
    return (f["e"], 2 * i + 1)


def overlap_mechanism(faults, same_target, i, t):
    """True when window i (in force at t) had its effect undone by the deactivation closure of
    ANOTHER window on the same target that ran after i's activation and not after t."""
    fi = faults[i]
    for j, fj in enumerate(faults):
        if j == i or not same_target(fi, fj) or not act_delivered(fj) or not deact_delivered(fj):
            continue
        if key_off(j, fj) > key_on(i, fi) and fj["e"] <= t:
            return True
    return False


def gen_endpoints(rng, n_pool=6):
    pool = sorted(rng.sample(range(1, 13), rng.randint(2, n_pool)))
    return [p * S // 2 * 1 for p in pool]     # multiples of 0.5 s


def gen_window(rng, pool, allow_perm=False, malformed_ok=False):
    a, b = rng.choice(pool), rng.choice(pool)
    if not malformed_ok and a > b:
        a, b = b, a
    e = b
    if allow_perm and rng.random() < 0.12:
        e = None
    c = None
    r = rng.random()
    if r < 0.10:
        c = -1                                    # cancelled before run()
    elif r < 0.22:
        c = rng.choice(pool) + rng.choice([-Q, 0, Q])   # cancelled by an event during the run
    return a, e, c


def probe_times(faults, extra=()):
    ts = set(extra)
    for f in faults:
        for x in (f["s"], f["e"], f["c"]):
            if x is not None and x >= 0:
                ts |= {x - 1, x, x + 1, x + Q}
    ts |= {1, max(ts) + S if ts else S}
    return sorted(t for t in ts if t >= 0)


def build_schedule(faults, make):
    """FaultSchedule with one fault per entry; returns (schedule, handles)."""
    from happysimulator.faults import FaultSchedule
    fs = FaultSchedule()
    handles = [fs.add(make(f)) for f in faults]
    return fs, handles


def arm_cancels(sim, faults, handles):
    from happysimulator.core.event import Event
    from happysimulator.core.temporal import Instant
    for f, h in zip(faults, handles):
        if f["c"] is None:
            continue
        if f["c"] < 0:
            h.cancel()
        else:
            sim.schedule(Event.once(time=Instant(f["c"]), event_type="cancel", fn=lambda e, h=h: h.cancel()))


def add_probes(sim, times, fn):
    from happysimulator.core.event import Event
    from happysimulator.core.temporal import Instant
    for t in times:
        sim.schedule(Event.once(time=Instant(t), event_type="probe", fn=lambda e, t=t: fn(t)))


# --------------------------------------------------------------------------- register faults
KINDS = {"crash": 0, "lat": 1, "loss": 2}


def gen_reg(rng):
    kind = rng.choice(["crash", "crash", "lat", "loss"])
    ntgt = rng.randint(1, 3)
    pool = gen_endpoints(rng)
    mal = rng.random() < 0.08
    if kind == "crash":
        cfg = {str(x): 0 for x in range(ntgt)}
    elif kind == "lat":
        cfg = {str(x): rng.choice([0, Q, 2 * Q]) for x in range(ntgt)}
    else:
        cfg = {str(x): rng.choice([0, 0, 1, 4, 8]) for x in range(ntgt)}
    faults = []
    for _ in range(rng.randint(1, 5)):
        s, e, c = gen_window(rng, pool, allow_perm=(kind == "crash"), malformed_ok=mal)
        if kind == "crash":
            p = 0
        elif kind == "lat":
            p = rng.choice([Q // 4, Q // 2, Q, 2 * Q, 3 * Q // 2])
        else:
            p = rng.choice([0, 1, 2, 4, 8, 12, 16])
        faults.append(dict(k=kind, tgt=rng.randrange(ntgt) if rng.random() < 0.8 else 0, s=s, e=e, p=p, c=c,
                           pause=bool(e is not None and rng.random() < 0.5)))
    return dict(kind=kind, ntgt=ntgt, cfg=cfg, faults=faults)


def impl_reg(c):
    from happysimulator.components.network.link import NetworkLink
    from happysimulator.components.network.network import Network
    from happysimulator.core.entity import Entity
    from happysimulator.core.simulation import Simulation
    from happysimulator.core.temporal import Instant
    from happysimulator.distributions.constant import ConstantLatency
    from happysimulator.faults import CrashNode, InjectLatency, InjectPacketLoss, PauseNode

    class Node(Entity):
        def handle_event(self, event):
            return None

    kind, n = c["kind"], c["ntgt"]
    srcs = [Node(f"s{x}") for x in range(n)]
    dsts = [Node(f"d{x}") for x in range(n)]
    ents = srcs + dsts
    links = []
    if kind != "crash":
        net = Network("net")
        for x in range(n):
            lk = NetworkLink(f"l{x}", latency=ConstantLatency(c["cfg"][str(x)] / S if kind == "lat" else 0.25),
                             packet_loss_rate=(c["cfg"][str(x)] / 16 if kind == "loss" else 0.0))
            net.add_link(srcs[x], dsts[x], lk)
            links.append(lk)
        ents = ents + [net]

    def make(f):
        x = f["tgt"]
        if kind == "crash":
            if f["e"] is None:
                return CrashNode(f"d{x}", at=secs(f["s"]))
            if f["pause"]:
                return PauseNode(f"d{x}", start=secs(f["s"]), end=secs(f["e"]))
            return CrashNode(f"d{x}", at=secs(f["s"]), restart_at=secs(f["e"]))
        if kind == "lat":
            return InjectLatency(f"s{x}", f"d{x}", extra_ms=f["p"] / 1_000_000, start=secs(f["s"]), end=secs(f["e"]))
        return InjectPacketLoss(f"s{x}", f"d{x}", loss_rate=f["p"] / 16, start=secs(f["s"]), end=secs(f["e"]))

    fs, handles = build_schedule(c["faults"], make)
    times = probe_times(c["faults"])
    sim = Simulation(end_time=Instant(max(times) + S), entities=ents, fault_schedule=fs)
    arm_cancels(sim, c["faults"], handles)
    samples = []

    def probe(t):
        for x in range(n):
            if kind == "crash":
                v = 1 if getattr(dsts[x], "_crashed", False) else 0
                b = 1 if getattr(srcs[x], "_crashed", False) else 0
                if b:
                    v = -1000                     # bystander touched
            elif kind == "lat":
                v = links[x].latency.get_latency(Instant(t)).nanoseconds
            else:
                r = links[x].packet_loss_rate * 16
                v = int(r) if float(r).is_integer() else -1
            samples.append([t, x, v])

    add_probes(sim, times, probe)
    sim.run()
    return samples


def reg_write(kind, orig, p):
    return {"crash": 1, "lat": orig + p, "loss": min(16, orig + p)}[kind]


def oracle_reg(c, obs):
    faults, kind = c["faults"], c["kind"]
    bad_targets = {f["tgt"] for f in faults if malformed(f)}
    out = []
    for t, x, v in obs:
        if x in bad_targets:
            continue
        cfg = c["cfg"][str(x)]
        cov = [i for i, f in enumerate(faults) if f["tgt"] == x and covers(f, t)]
        if not cov:
            if v != cfg:
                out.append(dict(clause="once every window has ended the target is back to its configured state",
                                mechanism="effect-outside-window", t=t, target=x, got=v, configured=cfg))
                break
        else:
            allowed = {reg_write(kind, cfg, faults[i]["p"]) for i in cov}
            if v not in allowed:
                undone = v == cfg and any(overlap_mechanism(faults, lambda a, b: a["tgt"] == b["tgt"], i, t) for i in cov)
                out.append(dict(clause="a fault is in effect for its target exactly while at least one window covering it is active, whatever other faults overlap it",
                                mechanism=f"overlap-deactivate-restores-original:{kind}" if undone else "effect-missing-inside-window",
                                t=t, target=x, got=v, allowed=sorted(allowed),
                                what=f"{kind} fault not in effect although a window covering the target is active: the deactivation closure of an overlapping window wrote the configured value back"))
                break
    return out


def attribute_overlap(c, obs, f):
    m = f.get("mechanism", "")
    if m.startswith("overlap-deactivate-restores-original:"):
        return "C06-overlap-" + m.split(":")[1]
    return None


def encode_reg(c, obs):
    cfg = [(int(k), v) for k, v in sorted(c["cfg"].items())]
    return term((KINDS[c["kind"]], cfg, [win_term(f) for f in c["faults"]], [tuple(s) for s in obs]))


def nontrivial_overlap(c, obs):
    fs = c["faults"]
    return any(i != j and a["tgt"] == b["tgt"] and covers(b, a["s"]) for i, a in enumerate(fs) for j, b in enumerate(fs))


# --------------------------------------------------------------------------- families
FAMILIES = [
    Family("reg", IMPORTS, "ok_reg", "Z * list (Z * Z) * list win * list (Z * Z * Z)", gen_reg, impl_reg,
           encode_reg, oracle_reg, nontrivial_overlap, attribute_overlap, parallel=True,
           describe=lambda c: f"{c['kind']},faults={len(c['faults'])}"),
]

TRUSTED = [
    "Coq 8.16.1 kernel (coqc, vm_compute for refutation witnesses and case evaluation); no native_compute",
    "axioms: none (every theorem of C06/Props.v is 'Closed under the global context')",
    "engine delivery order of fault events = (time, creation index), cancelled events skipped (property C01; assumed by C06/Model.v `delivered`, validated by the correspondence on every case)",
    "correspondence harness harness/props/c06.py (generators, probes, in-Coq comparison ok_* of C06/Model.v)",
    "model choices: names are Z; loss rates in 1/16, capacities in 1/4 units, latencies in ns on a dyadic grid so that the float arithmetic of the closures is exact",
]

PROOF_FILES = ["C06/Model.v", "C06/Registers.v", "C06/Props.v"]


def run(ctx):
    ctx.prove(PROOF_FILES, allowed_axioms=(), trusted_base=TRUSTED)
    n = ctx.n(120, 3000)
    stats = [run_family(ctx, fam, n) for fam in FAMILIES]
    merge_stats(ctx, stats, "random fault schedules (1-5 faults, endpoints from a pool of <= 6 instants, cancels, permanent crashes); non-trivial = two windows on one target overlap; distinct by JSON of the input")
    ctx.finish_obligations()


def replay(data):
    fam = {f.name: f for f in FAMILIES}[data["detail"]["family"]]
    c = data["detail"]["case"]
    obs = fam.impl(c)
    fails = fam.oracle(c, obs)
    print("observations:", obs)
    print("oracle failures:", fails)
    return 1 if fails else 0
