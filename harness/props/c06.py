"""C06 — injected faults act exactly during their windows and isolate only their target.

Tie to /repo: every generated fault schedule is executed inside a real
`Simulation` with a real `FaultSchedule` (CrashNode, PauseNode, InjectLatency,
InjectPacketLoss, NetworkPartition, ReduceCapacity, FaultHandle.cancel); probe
events sample the target's setting on a grid that contains every window edge
and edge +-1 ns; workload entities (generator handlers, a queue-fronted
QueuedResource, a Resource client) log what they execute.  The observations are
compared inside Coq with C06/Model.v (ok_* functions).  The property oracle
(independent of the model) evaluates the C06 statement against the harness' own
window list.

Private attributes read: entity._crashed (the flag the fault framework itself
defines), Resource._capacity/_available via the public properties, Network
._partitioned_pairs/_directed_partitions (sizes only).
"""
from __future__ import annotations

from hsverif.coq import Ctor, SomeV, term
import json

from hsverif.family import Family, merge_stats, run_family, run_oracle_only

IMPORTS = "From HS Require Import Base.Prelude C06.Model."
LEVEL = "proof"
S = 1_000_000_000
Q = S // 4


# --------------------------------------------------------------------------- shared helpers
def opt(v):
    return None if v is None else SomeV(v)


def secs(ns):
    """Value handed to the fault dataclasses (seconds); exact for multiples of S/4."""
    return ns // S if ns % S == 0 else ns / S


def win_term(f):
    if f.get("k") == "part":
        return Ctor("PW", f["ga"], f["gb"], bool(f["asym"]), f["s"], f["e"], opt(f["c"]))
    return Ctor("W", f["tgt"], f["s"], opt(f["e"]), f["p"], opt(f["c"]))


def act_delivered(f):
    return f["c"] is None or f["s"] <= f["c"]


def deact_delivered(f):
    return f["e"] is not None and (f["c"] is None or f["e"] <= f["c"])


def covers(f, t):
    """The harness' own reading of 'the window of fault f is active at t' (fault events of
    instant t have run).  A handle cancelled between activation and deactivation leaves the
    fault in force (its pending deactivation is cancelled, as FaultHandle.cancel documents)."""
    if not act_delivered(f) or f["s"] > t:
        return False
    if f["e"] is None or not deact_delivered(f):
        return True
    return t < f["e"]


def malformed(f):
    return f["e"] is not None and f["e"] < f["s"]


def key_on(i, f):
    return (f["s"], 2 * i)


def key_off(i, f):
    return (f["e"], 2 * i + 1)


def overlap_mechanism(faults, same_target, i, t):
    """True when window i (in force at t) had its effect undone by the deactivation closure of
    ANOTHER window on the same target that ran after i's activation and not after t."""
    fi = faults[i]
    for j, fj in enumerate(faults):
        if j == i or not same_target(fi, fj) or not act_delivered(fj) or not deact_delivered(fj):
            continue
        if key_off(j, fj) > key_on(i, fi) and fj["e"] <= t:
            return True
    return False


def first_per_mechanism(fails):
    seen, out = set(), []
    for f in fails:
        if f["mechanism"] not in seen:
            seen.add(f["mechanism"])
            out.append(f)
    return out


def gen_endpoints(rng, n_pool=6):
    pool = sorted(rng.sample(range(1, 13), rng.randint(2, n_pool)))
    return [p * S // 2 * 1 for p in pool]     # multiples of 0.5 s


def gen_window(rng, pool, allow_perm=False, malformed_ok=False):
    a, b = rng.choice(pool), rng.choice(pool)
    if not malformed_ok and a > b:
        a, b = b, a
    e = b
    if allow_perm and rng.random() < 0.12:
        e = None
    c = None
    r = rng.random()
    if r < 0.10:
        c = rng.choice([-1, -2])                  # cancelled before run(): after / before the Simulation is built
    elif r < 0.22:
        c = rng.choice(pool) + rng.choice([-Q, 0, Q])   # cancelled by an event during the run
    return a, e, c


def probe_times(faults, extra=()):
    ts = set(extra)
    for f in faults:
        for x in (f["s"], f["e"], f["c"]):
            if x is not None and x >= 0:
                ts |= {x - 1, x, x + 1, x + Q}
    ts |= {1, max(ts) + S if ts else S}
    return sorted(t for t in ts if t >= 0)


def build_schedule(faults, make):
    """FaultSchedule with one fault per entry; returns (schedule, handles)."""
    from happysimulator.faults import FaultSchedule
    fs = FaultSchedule()
    handles = [fs.add(make(f)) for f in faults]
    for f, h in zip(faults, handles):
        if f["c"] is not None and f["c"] == -2:
            h.cancel()                            # cancelled before the Simulation (and with it the fault events) exists
    return fs, handles


def arm_cancels(sim, faults, handles):
    from happysimulator.core.event import Event
    from happysimulator.core.temporal import Instant
    for f, h in zip(faults, handles):
        if f["c"] is None:
            continue
        if f["c"] == -2:
            continue                              # already cancelled in build_schedule
        if f["c"] < 0:
            h.cancel()
        else:
            sim.schedule(Event.once(time=Instant(f["c"]), event_type="cancel", fn=lambda e, h=h: h.cancel()))


def add_probes(sim, times, fn):
    from happysimulator.core.event import Event
    from happysimulator.core.temporal import Instant
    for t in times:
        sim.schedule(Event.once(time=Instant(t), event_type="probe", fn=lambda e, t=t: fn(t)))


# --------------------------------------------------------------------------- register faults
KINDS = {"crash": 0, "lat": 1, "loss": 2, "capv": 3}


def gen_reg(rng):
    kind = rng.choice(["crash", "crash", "lat", "loss", "capv"])
    ntgt = rng.randint(1, 3)
    pool = gen_endpoints(rng)
    mal = rng.random() < 0.08
    if kind == "crash":
        cfg = {str(x): 0 for x in range(ntgt)}
    elif kind == "lat":
        cfg = {str(x): rng.choice([0, Q, 2 * Q]) for x in range(ntgt)}
    elif kind == "capv":
        cfg = {str(x): 4 * rng.choice([4, 8, 10]) for x in range(ntgt)}       # quarter units
    else:
        cfg = {str(x): rng.choice([0, 0, 1, 4, 8]) for x in range(ntgt)}
    faults = []
    for _ in range(rng.randint(1, 5)):
        s, e, c = gen_window(rng, pool, allow_perm=(kind == "crash"), malformed_ok=mal)
        if kind == "crash":
            p = 0
        elif kind == "lat":
            p = rng.choice([Q // 4, Q // 2, Q, 2 * Q, 3 * Q // 2])
        elif kind == "capv":
            p = rng.choice([1, 2, 3, 4])
        else:
            p = rng.choice([0, 1, 2, 4, 8, 12, 16])
        faults.append(dict(k=kind, tgt=rng.randrange(ntgt) if rng.random() < 0.8 else 0, s=s, e=e, p=p, c=c,
                           pause=bool(e is not None and rng.random() < 0.5)))
    c = dict(kind=kind, ntgt=ntgt, cfg=cfg, faults=faults)
    if kind == "lat" and rng.random() < 0.4:
        # links whose base latency is a sampled (exponential) distribution: the probe reports the sample minus what
        # the base distribution alone gives from the same generator state, i.e. the added latency (configured: 0)
        c["exp"] = [rng.random() < 0.7 for _ in range(ntgt)]
        for x in range(ntgt):
            if c["exp"][x]:
                cfg[str(x)] = 0
    return c


def impl_reg(c):
    from happysimulator.components.network.link import NetworkLink
    from happysimulator.components.network.network import Network
    from happysimulator.core.entity import Entity
    from happysimulator.core.simulation import Simulation
    from happysimulator.core.temporal import Instant
    from happysimulator.distributions.constant import ConstantLatency
    from happysimulator.distributions.exponential import ExponentialLatency
    from happysimulator.components.resource import Resource
    import random as _random
    from happysimulator.faults import CrashNode, InjectLatency, InjectPacketLoss, PauseNode, ReduceCapacity

    class Node(Entity):
        def handle_event(self, event):
            return None

    kind, n = c["kind"], c["ntgt"]
    srcs = [Node(f"s{x}") for x in range(n)]
    dsts = [Node(f"d{x}") for x in range(n)]
    ents = srcs + dsts
    links, ress = [], []
    if kind == "capv":
        ress = [Resource(f"r{x}", capacity=c["cfg"][str(x)] // 4) for x in range(n)]
        ents = ents + ress
    elif kind != "crash":
        net = Network("net")
        exp = c.get("exp") or [False] * n
        bases = [ExponentialLatency(0.05) if (kind == "lat" and exp[x]) else
                 ConstantLatency(c["cfg"][str(x)] / S if kind == "lat" else 0.25) for x in range(n)]
        for x in range(n):
            lk = NetworkLink(f"l{x}", latency=bases[x],
                             packet_loss_rate=(c["cfg"][str(x)] / 16 if kind == "loss" else 0.0))
            net.add_link(srcs[x], dsts[x], lk)
            links.append(lk)
        ents = ents + [net]

    def make(f):
        x = f["tgt"]
        if kind == "crash":
            if f["e"] is None:
                return CrashNode(f"d{x}", at=secs(f["s"]))
            if f["pause"]:
                return PauseNode(f"d{x}", start=secs(f["s"]), end=secs(f["e"]))
            return CrashNode(f"d{x}", at=secs(f["s"]), restart_at=secs(f["e"]))
        if kind == "capv":
            return ReduceCapacity(f"r{x}", factor=f["p"] / 4, start=secs(f["s"]), end=secs(f["e"]))
        if kind == "lat":
            return InjectLatency(f"s{x}", f"d{x}", extra_ms=f["p"] / 1_000_000, start=secs(f["s"]), end=secs(f["e"]))
        return InjectPacketLoss(f"s{x}", f"d{x}", loss_rate=f["p"] / 16, start=secs(f["s"]), end=secs(f["e"]))

    fs, handles = build_schedule(c["faults"], make)
    times = probe_times(c["faults"])
    sim = Simulation(end_time=Instant(max(times) + S), entities=ents, fault_schedule=fs)
    arm_cancels(sim, c["faults"], handles)
    samples = []

    def probe(t):
        for x in range(n):
            if kind == "crash":
                v = 1 if getattr(dsts[x], "_crashed", False) else 0
                b = 1 if getattr(srcs[x], "_crashed", False) else 0
                if b:
                    v = -1000                     # bystander touched
            elif kind == "lat" and exp[x]:
                _random.seed(t + x)
                got = links[x].latency.get_latency(Instant(t)).nanoseconds
                _random.seed(t + x)
                v = int(round((got - bases[x].get_latency(Instant(t)).nanoseconds) / 1000.0)) * 1000
            elif kind == "lat":
                v = links[x].latency.get_latency(Instant(t)).nanoseconds
            elif kind == "capv":
                r = ress[x].capacity * 4
                v = int(r) if float(r).is_integer() else -1
            else:
                r = links[x].packet_loss_rate * 16
                v = int(r) if float(r).is_integer() else -1
            samples.append([t, x, v])

    add_probes(sim, times, probe)
    sim.run()
    return samples


def reg_write(kind, orig, p):
    return {"crash": 1, "lat": orig + p, "loss": min(16, orig + p), "capv": orig * p // 4}[kind]


def oracle_reg(c, obs):
    faults, kind = c["faults"], c["kind"]
    bad_targets = {f["tgt"] for f in faults if malformed(f)}
    out = []
    for t, x, v in obs:
        if x in bad_targets:
            continue
        cfg = c["cfg"][str(x)]
        cov = [i for i, f in enumerate(faults) if f["tgt"] == x and covers(f, t)]
        if not cov:
            if v != cfg:
                out.append(dict(clause="once every window has ended the target is back to its configured state",
                                mechanism="effect-outside-window", t=t, target=x, got=v, configured=cfg))
                break
        else:
            allowed = {reg_write(kind, cfg, faults[i]["p"]) for i in cov}
            if v not in allowed:
                undone = v == cfg and any(overlap_mechanism(faults, lambda a, b: a["tgt"] == b["tgt"], i, t) for i in cov)
                out.append(dict(clause="a fault is in effect for its target exactly while at least one window covering it is active, whatever other faults overlap it",
                                mechanism=f"overlap-deactivate-restores-original:{kind}" if undone else "effect-missing-inside-window",
                                t=t, target=x, got=v, allowed=sorted(allowed),
                                what=f"{kind} fault not in effect although a window covering the target is active: the deactivation closure of an overlapping window wrote the configured value back"))
                break
    return out


def attribute_overlap(c, obs, f):
    m = f.get("mechanism", "")
    if m.startswith("overlap-deactivate-restores-original:"):
        return "C06-overlap-" + m.split(":")[1].replace("capv", "cap")
    return None


def enum_reg_cases():
    """Every ordered pair of windows over the endpoints 1..4 s on one target, per kind
    (nested, equal starts, equal ends, abutting, both add orders), plus every triple for crash."""
    import itertools
    wins = [(a, b) for a in range(1, 5) for b in range(a, 5)]
    par = {"crash": [0, 0, 0], "lat": [Q, 2 * Q, Q // 2], "loss": [5, 7, 3], "capv": [2, 3, 1]}
    cfg = {"crash": 0, "lat": Q, "loss": 1, "capv": 40}
    out = []
    for kind in ("crash", "lat", "loss", "capv"):
        for k in (2, 3) if kind == "crash" else (2,):
            for combo in itertools.product(wins, repeat=k):
                out.append(dict(kind=kind, ntgt=1, cfg={"0": cfg[kind]},
                                faults=[dict(k=kind, tgt=0, s=a * S, e=b * S, p=par[kind][i], c=None, pause=bool(i % 2))
                                        for i, (a, b) in enumerate(combo)]))
    return out


def cycling_gen(cases):
    import itertools
    it = itertools.cycle(cases)
    return lambda rng: next(it)


def encode_reg(c, obs):
    cfg = [(int(k), v) for k, v in sorted(c["cfg"].items())]
    by_t = {}
    for t, x, v in obs:
        by_t.setdefault(t, []).append((x, v))
    return term((KINDS[c["kind"]], cfg, [win_term(f) for f in c["faults"]], sorted(by_t.items())))


def nontrivial_overlap(c, obs):
    fs = c["faults"]
    return any(i != j and a["tgt"] == b["tgt"] and covers(b, a["s"]) for i, a in enumerate(fs) for j, b in enumerate(fs))


# --------------------------------------------------------------------------- partitions
NODES = 4


def gen_part(rng):
    pool = gen_endpoints(rng)
    mal = rng.random() < 0.06
    faults = []
    for _ in range(rng.randint(1, 4)):
        s, e, c = gen_window(rng, pool, malformed_ok=mal)
        nodes = list(range(NODES))
        rng.shuffle(nodes)
        if rng.random() < 0.15:
            ga = rng.sample(nodes, rng.randint(1, 2))
            gb = rng.sample(nodes, rng.randint(1, 2))      # groups may share a node
        else:
            k = rng.randint(1, 2)
            ga, gb = nodes[:k], nodes[k:k + rng.randint(1, 2)]
        faults.append(dict(k="part", ga=ga, gb=gb, asym=rng.random() < 0.3, s=s, e=e, c=c))
    return dict(faults=faults)


def part_pairs(f):
    prod = [(a, b) for a in f["ga"] for b in f["gb"]]
    if f["asym"]:
        return set(), set(prod)
    return {(min(a, b), max(a, b)) for a, b in prod}, set()


def separates(f, a, b):
    bi, di = part_pairs(f)
    return (min(a, b), max(a, b)) in bi or (a, b) in di


def impl_part(c):
    from happysimulator.components.network.link import NetworkLink
    from happysimulator.components.network.network import Network
    from happysimulator.core.entity import Entity
    from happysimulator.core.simulation import Simulation
    from happysimulator.core.temporal import Instant
    from happysimulator.distributions.constant import ConstantLatency
    from happysimulator.faults import NetworkPartition

    got = []

    class Node(Entity):
        def handle_event(self, event):
            m = event.context["metadata"]
            got.append((m["sent"], m["src"], m["dst"]))
            return None

    nodes = [Node(f"n{x}") for x in range(NODES)]
    net = Network("net", default_link=None)
    for a in range(NODES):
        for b in range(NODES):
            if a != b:
                net.add_link(nodes[a], nodes[b], NetworkLink(f"l{a}{b}", latency=ConstantLatency(0.125)))

    def make(f):
        return NetworkPartition([f"n{x}" for x in f["ga"]], [f"n{x}" for x in f["gb"]],
                                start=secs(f["s"]), end=secs(f["e"]), asymmetric=f["asym"])

    fs, handles = build_schedule(c["faults"], make)
    times = probe_times(c["faults"])
    sim = Simulation(end_time=Instant(max(times) + 2 * S), entities=nodes + [net], fault_schedule=fs)
    arm_cancels(sim, c["faults"], handles)
    samples, sizes, sent = [], [], []

    def probe(t):
        out = []
        for a in range(NODES):
            for b in range(NODES):
                if a == b:
                    continue
                samples.append([t, a, b, bool(net.is_partitioned(f"n{a}", f"n{b}"))])
                ev = net.send(nodes[a], nodes[b], "pkt", payload=dict(sent=t, src=a, dst=b))
                sent.append((t, a, b))
                out.append(ev)
        sizes.append([t, len(net._partitioned_pairs), len(net._directed_partitions)])
        return out

    add_probes(sim, times, probe)
    sim.run()
    gs = set(got)
    return dict(samples=samples, sizes=sizes, delivered=[[t, a, b, (t, a, b) in gs] for t, a, b in sent],
                dropped=net.events_dropped_partition)


def oracle_part(c, obs):
    faults = c["faults"]
    if any(malformed(f) for f in faults):
        return []
    out = []
    deliv = {(t, a, b): d for t, a, b, d in obs["delivered"]}
    for t, a, b, v in obs["samples"]:
        cov = [i for i, f in enumerate(faults) if separates(f, a, b) and covers(f, t)]
        if deliv[(t, a, b)] == v:
            out.append(dict(clause="a partition blocks traffic between its groups exactly while it is in force",
                            mechanism="delivery-disagrees-with-is_partitioned", t=t, src=a, dst=b, partitioned=v))
            break
        if not cov and v:
            out.append(dict(clause="once every window has ended the target is back to its configured state",
                            mechanism="partition-outside-window", t=t, src=a, dst=b))
            break
        if cov and not v:
            undone = any(overlap_mechanism(faults, lambda x, y: separates(y, a, b), i, t) for i in cov)
            out.append(dict(clause="a partition is in effect for its target exactly while at least one fault window covering that target is active, whatever other faults overlap it",
                            mechanism="overlap-deactivate-restores-original:part" if undone else "effect-missing-inside-window",
                            t=t, src=a, dst=b,
                            what="pair not partitioned although a partition window covering it is active: Partition.heal of an overlapping window removed the shared pair from the network's set"))
            break
    return out


def encode_part(c, obs):
    by_t = {}
    for t, a, b, v in obs["samples"]:
        by_t.setdefault(t, []).append((a, b, v))
    return term(([win_term(f) for f in c["faults"]], [(t, by_t[t], nb, nd) for t, nb, nd in obs["sizes"]]))


def nontrivial_part(c, obs):
    fs = c["faults"]
    return any(i != j and covers(b, a["s"]) and (part_pairs(a)[0] & part_pairs(b)[0] or part_pairs(a)[1] & part_pairs(b)[1])
               for i, a in enumerate(fs) for j, b in enumerate(fs))


# --------------------------------------------------------------------------- RandomPartition next to a fixed partition (oracle only)
def gen_randpart(rng):
    s = rng.choice([1, 2, 3]) * S
    return dict(s=s, e=s + rng.choice([4, 8, 16]) * S, mtbf=rng.choice([0.5, 1.0, 2.0]), mttr=rng.choice([0.25, 0.5, 1.0]),
                seed=rng.randrange(1000), asym=rng.random() < 0.3)


def impl_randpart(c):
    """NetworkPartition {n0,n1}|{n2} over [s,e) and, on OTHER nodes {n3,n4,n5}, a RandomPartition that splits and
    heals at random instants.  Sampled every 125 ms: which pairs are partitioned."""
    from happysimulator.components.network.link import NetworkLink
    from happysimulator.components.network.network import Network
    from happysimulator.core.entity import Entity
    from happysimulator.core.simulation import Simulation
    from happysimulator.core.temporal import Instant
    from happysimulator.distributions.constant import ConstantLatency
    from happysimulator.faults import FaultSchedule, NetworkPartition, RandomPartition

    class Node(Entity):
        def handle_event(self, event):
            return None

    nodes = [Node(f"n{x}") for x in range(6)]
    net = Network("net", default_link=None)
    for a in range(6):
        for b in range(6):
            if a != b:
                net.add_link(nodes[a], nodes[b], NetworkLink(f"l{a}{b}", latency=ConstantLatency(0.01)))
    fs = FaultSchedule()
    fs.add(NetworkPartition(["n0", "n1"], ["n2"], start=secs(c["s"]), end=secs(c["e"]), asymmetric=c["asym"]))
    fs.add(RandomPartition(nodes=["n3", "n4", "n5"], mtbf=c["mtbf"], mttr=c["mttr"], seed=c["seed"]))
    end = c["e"] + 2 * S
    sim = Simulation(end_time=Instant(end), entities=nodes + [net], fault_schedule=fs)
    samples = []

    def probe(t):
        samples.append([t, [[a, b] for a in range(6) for b in range(6) if a != b and net.is_partitioned(f"n{a}", f"n{b}")]])
        return []

    add_probes(sim, list(range(S // 16, end, S // 8)), probe)
    sim.run()
    return dict(samples=samples)


def oracle_randpart(c, obs):
    fixed = {(0, 2), (1, 2)} | (set() if c["asym"] else {(2, 0), (2, 1)})
    flips = 0
    prev = None
    for t, pairs in obs["samples"]:
        ps = {tuple(p) for p in pairs}
        inside = c["s"] <= t < c["e"]
        rnd = {p for p in ps if p[0] >= 3 and p[1] >= 3}
        if prev is not None and rnd != prev:
            flips += 1
        prev = rnd
        cross = {p for p in ps if (p[0] >= 3) != (p[1] >= 3)}
        if cross:
            return [dict(clause="a fault isolates only its target: pairs between the two faults' node sets are never partitioned", t=t, pairs=sorted(cross))]
        got_fixed = {p for p in ps if p[0] < 3 and p[1] < 3}
        if inside and got_fixed != fixed:
            return [dict(clause="a partition is in force throughout its window whatever an unrelated random partition on other nodes does",
                         t=t, expected=sorted(fixed), got=sorted(got_fixed))]
        if not inside and got_fixed:
            return [dict(clause="once its window has ended the fixed partition is gone", t=t, got=sorted(got_fixed))]
    return []


FAM_RANDPART = Family("randpart", "", "", "", gen_randpart, impl_randpart, lambda c, o: "", oracle_randpart,
                      nontrivial=lambda c, o: len({json.dumps(sorted(p for p in ps if p[0] >= 3)) for _, ps in o["samples"]}) >= 2)


# --------------------------------------------------------------------------- capacity
def gen_cap(rng):
    pool = gen_endpoints(rng)
    orig = rng.choice([4, 8, 10, 12])
    faults = []
    for _ in range(rng.randint(1, 3)):
        s, e, c = gen_window(rng, pool, malformed_ok=rng.random() < 0.05)
        faults.append(dict(k="cap", tgt=0, s=s, e=e, p=rng.choice([1, 2, 2, 3, 4]), c=c))
    wl, grants = [], 0
    tmax = max(pool) + S
    times = sorted(rng.sample(range(1, 4 * tmax // S), min(rng.randint(0, 10), 4 * tmax // S - 1)))
    for i, k in enumerate(times):
        t = k * Q + 7 + i                       # never on a fault instant
        if grants and rng.random() < 0.4:
            wl.append([t, "rel", rng.randrange(grants)])
        else:
            wl.append([t, "try", rng.choice([1, 2, 3, 5, orig, orig + 1, 0]) if rng.random() < 0.3 else rng.randint(1, max(1, orig // 2))])
            grants += 1
    return dict(orig=orig, faults=faults, wl=wl)


def impl_cap(c):
    from happysimulator.components.resource import Resource
    from happysimulator.core.event import Event
    from happysimulator.core.simulation import Simulation
    from happysimulator.core.temporal import Instant
    from happysimulator.faults import ReduceCapacity
    import logging
    logging.getLogger("happysimulator.components.resource").setLevel(logging.ERROR)

    res = Resource("r", capacity=c["orig"])
    other = Resource("other", capacity=c["orig"])
    fs, handles = build_schedule(c["faults"], lambda f: ReduceCapacity("r", factor=f["p"] / 4, start=secs(f["s"]), end=secs(f["e"])))
    wl = c["wl"]
    tmax = max([x for f in c["faults"] for x in (f["s"], f["e"])] + [w[0] for w in wl]) + S
    sim = Simulation(end_time=Instant(tmax + S), entities=[res, other], fault_schedule=fs)
    arm_cancels(sim, c["faults"], handles)
    log, grants = [], []
    state = dict(held=0)

    def snap(what, result, extra=None):
        cap, av = res.capacity * 4, res.available * 4
        ok = float(cap).is_integer() and float(av).is_integer()
        log.append(dict(what=what, cap=int(cap) if ok else -1, avail=int(av) if ok else -1, res=result,
                        held=state["held"] * 4, other=[other.capacity, other.available], t=sim._clock.now.nanoseconds))

    # observe the fault closures themselves: wrap each fault event's callback entity
    for h in handles:
        for ev in h._events:
            ent = ev.target
            orig_fn = ent._fn

            def wrapped(e, orig_fn=orig_fn):
                r = orig_fn(e)
                snap("fault:" + e.event_type.split(":")[0], 0)
                return r
            ent._fn = wrapped

    def do(op):
        def fn(e):
            if op[1] == "try":
                try:
                    g = res.try_acquire(op[2])
                except ValueError:
                    grants.append(None)
                    snap("try", 2)
                    return
                grants.append(g)
                if g is not None:
                    state["held"] += op[2]
                snap("try", 1 if g is not None else 0)
            else:
                g = grants[op[2]] if op[2] < len(grants) else None
                if g is None or g.released:
                    return                              # nothing to release: no operation
                try:
                    g.release()
                    state["held"] -= g.amount
                    snap("rel", 0)
                except ValueError:
                    snap("rel", 2)
        return fn

    for op in wl:
        sim.schedule(Event.once(time=Instant(op[0]), event_type="wl", fn=do(op)))
    sim.run()
    for g in grants:                                    # silence Grant.__del__ warnings
        if g is not None:
            g._released = True
    # which workload ops were real operations (release of a missing/released grant is skipped)
    return dict(log=log, final=[int(res.capacity * 4) if float(res.capacity * 4).is_integer() else -1,
                                int(res.available * 4) if float(res.available * 4).is_integer() else -1])


def cap_ops_effective(c, obs):
    """Workload ops in the form the model takes: (time, CTry amt*4 | CRel amt*4), dropping releases that
    the driver skipped (no such grant / already released) — recomputed from the case alone."""
    out, grants, log_i = [], [], 0
    wl_log = [e for e in obs["log"] if not e["what"].startswith("fault")]
    for op in c["wl"]:
        if op[1] == "try":
            e = wl_log[log_i]; log_i += 1
            grants.append(dict(amt=op[2], live=e["res"] == 1))
            out.append((op[0], Ctor("CTry", op[2] * 4)))
        else:
            g = grants[op[2]] if op[2] < len(grants) else None
            if g is None or not g["live"]:
                continue
            e = wl_log[log_i]; log_i += 1
            g["live"] = False          # Grant.release marks released even when _do_release raises
            out.append((op[0], Ctor("CRel", g["amt"] * 4)))
    return out


def encode_cap(c, obs):
    return term((c["orig"] * 4, [win_term(f) for f in c["faults"]], cap_ops_effective(c, obs),
                 [(e["cap"], e["avail"], e["res"]) for e in obs["log"]]))


def oracle_cap(c, obs):
    faults = c["faults"]
    if any(malformed(f) for f in faults):
        return []
    out = []
    orig4 = c["orig"] * 4
    held_at_activate = False
    log = obs["log"]
    for n, e in enumerate(log):
        t = e["t"]
        if e["what"] == "fault:fault.capacity.reduce" and e["held"] > 0:
            held_at_activate = True
        if n + 1 < len(log) and log[n + 1]["t"] == t and log[n + 1]["what"].startswith("fault"):
            continue                                  # another fault closure of the same instant follows
        if e["other"] != [c["orig"], c["orig"]]:
            return [dict(clause="other entities are unaffected", mechanism="bystander-resource-changed", t=t)]
        cov = [i for i, f in enumerate(faults) if covers(f, t)]
        allowed = {orig4 * faults[i]["p"] // 4 for i in cov} if cov else {orig4}
        if e["cap"] not in allowed:
            undone = bool(cov) and e["cap"] == orig4 and any(overlap_mechanism(faults, lambda a, b: True, i, t) for i in cov)
            out.append(dict(clause="reduced capacity is in effect exactly while at least one fault window covering the resource is active, whatever other faults overlap it" if cov else "once every window has ended the target is back to its configured state",
                            mechanism="overlap-deactivate-restores-original:cap" if undone else "capacity-wrong",
                            t=t, got=e["cap"], allowed=sorted(allowed),
                            what="capacity not reduced although a ReduceCapacity window is active: the deactivation closure of an overlapping window restored the original capacity"))
            break
        if e["avail"] + e["held"] != e["cap"] and not (cov and e["avail"] + e["held"] > e["cap"] and e["avail"] == max(0, e["cap"] - e["held"])):
            # allowed transient: during a reduction more may be HELD than the reduced capacity (grants are not revoked),
            # then available must be max(0, cap - held)
            out.append(dict(clause="reduced capacity is in effect during the window and once every window has ended the resource is back to its configured state (available + held = capacity)",
                            mechanism="capacity-accounting-ignores-held" if held_at_activate else
                            ("overlap-activate-replaces:cap" if stacked_activation(faults, t) else "capacity-accounting"),
                            t=t, cap=e["cap"], avail=e["avail"], held=e["held"], active=bool(cov),
                            what="available + held != capacity: ReduceCapacity.activate clamps available to the new capacity without subtracting what is held, deactivate then adds the full difference back"))
            break
    return out


def stacked_activation(faults, t):
    """Some window was activated (not after t) while another window was already in force."""
    for i, fi in enumerate(faults):
        if not act_delivered(fi) or fi["s"] > t:
            continue
        for j, fj in enumerate(faults):
            if j != i and act_delivered(fj) and key_on(j, fj) < key_on(i, fi) and \
                    (fj["e"] is None or not deact_delivered(fj) or key_off(j, fj) > key_on(i, fi)):
                return True
    return False


def attribute_cap(c, obs, f):
    m = f.get("mechanism", "")
    if m in ("overlap-deactivate-restores-original:cap", "overlap-activate-replaces:cap"):
        return "C06-overlap-cap"
    if m == "capacity-accounting-ignores-held":
        return "C06-capacity-held-ignored"
    return None


def attribute_part(c, obs, f):
    if f.get("mechanism") == "overlap-deactivate-restores-original:part":
        return "C06-overlap-part"
    return None


# --------------------------------------------------------------------------- crash workload (plain generator entity)
def gen_crashwl(rng, queued=False):
    pool = gen_endpoints(rng)
    faults = []
    for _ in range(rng.randint(1, 3)):
        s, e, c = gen_window(rng, pool, allow_perm=True)
        faults.append(dict(k="crash", tgt=0, s=s, e=e, p=0, c=c, pause=bool(e is not None and rng.random() < 0.5)))
    arrs = []
    tmax = max(pool) + S
    n = rng.randint(1, 8)
    ks = sorted(rng.sample(range(0, 4 * tmax // S), min(n, 4 * tmax // S)))
    for pid, k in enumerate(ks):
        on_edge = rng.random() < 0.25
        t = rng.choice(pool) if on_edge and not queued else k * Q + 3 + pid
        if queued:
            arrs.append([t, pid, rng.choice([Q, 2 * Q, 4 * Q, 6 * Q])])
        else:
            arrs.append([t, pid, [rng.choice([Q, 2 * Q, 4 * Q]) for _ in range(rng.randint(0, 3))]])
    arrs.sort(key=lambda a: (a[0], a[1]))
    if not queued:
        for i, a in enumerate(arrs):
            a[1] = i
    return dict(faults=faults, arrs=arrs)


def _crash_fault(f, name):
    from happysimulator.faults import CrashNode, PauseNode
    if f["e"] is None:
        return CrashNode(name, at=secs(f["s"]))
    if f["pause"]:
        return PauseNode(name, start=secs(f["s"]), end=secs(f["e"]))
    return CrashNode(name, at=secs(f["s"]), restart_at=secs(f["e"]))


def impl_plain(c):
    from happysimulator.core.entity import Entity
    from happysimulator.core.event import Event
    from happysimulator.core.simulation import Simulation
    from happysimulator.core.temporal import Instant

    class Sink(Entity):
        def __init__(self, name):
            super().__init__(name)
            self.log = []

        def handle_event(self, event):
            m = event.context["metadata"]
            self.log.append([self.now.nanoseconds, m["pid"], m["k"]])

    class Proc(Entity):
        def __init__(self, name, sink):
            super().__init__(name)
            self.log = []
            self.sink = sink

        def emit(self, pid, k):
            ev = Event(time=self.now, event_type="out", target=self.sink)
            ev.context["metadata"].update(pid=pid, k=k)
            return ev

        def handle_event(self, event):
            # logs and emits one event to the sink at entry and after every delay
            m = event.context["metadata"]
            ds = m["ds"]
            self.log.append([self.now.nanoseconds, m["pid"], 0, bool(getattr(self, "_crashed", False))])
            if not ds:
                return [self.emit(m["pid"], 0)]
            yield ds[0] / S, [self.emit(m["pid"], 0)]
            for k in range(1, len(ds) + 1):
                self.log.append([self.now.nanoseconds, m["pid"], k, bool(getattr(self, "_crashed", False))])
                if k == len(ds):
                    return [self.emit(m["pid"], k)]
                yield ds[k] / S, [self.emit(m["pid"], k)]

    sink, sink_by = Sink("sink"), Sink("sink_by")
    tgt, by = Proc("tgt", sink), Proc("bystander", sink_by)
    hook_sink = Sink("hook_sink")
    hooks_run = []          # completion hooks of the requests sent to the faulted target: [time ns, pid]

    def mk_hook(pid):
        def hook(finish_time):
            hooks_run.append([finish_time.nanoseconds, pid])
            ev = Event(time=finish_time, event_type="out", target=hook_sink)
            ev.context["metadata"].update(pid=pid, k=-1)
            return [ev]
        return hook
    fs, handles = build_schedule(c["faults"], lambda f: _crash_fault(f, "tgt"))
    tmax = max([x for f in c["faults"] for x in (f["s"], f["e"] or 0, f["c"] or 0)] + [a[0] + sum(a[2]) for a in c["arrs"]]) + S
    sim = Simulation(end_time=Instant(tmax + S), entities=[tgt, by, sink, sink_by, hook_sink], fault_schedule=fs)
    arm_cancels(sim, c["faults"], handles)
    for t, pid, ds in c["arrs"]:
        for ent in (tgt, by):
            ev = Event(time=Instant(t), event_type="req", target=ent)
            ev.context["metadata"].update(pid=pid, ds=ds)
            if ent is tgt:
                ev.add_completion_hook(mk_hook(pid))     # whoever waits for this request (an ack hook, a driver's re-poll)
            sim.schedule(ev)
    sim.run()
    order = {a[1]: i for i, a in enumerate(c["arrs"])}
    key = lambda r: (order[r[1]], r[2])
    return dict(tgt=sorted(tgt.log, key=key), by=sorted(by.log, key=key),
                sink=sorted(sink.log, key=key), sink_by=sorted(sink_by.log, key=key),
                hooks=sorted(hooks_run, key=lambda r: order[r[1]]), hook_sink=sorted([r[:2] for r in hook_sink.log], key=lambda r: order[r[1]]))


def crash_flag_overlap(faults, t):
    cov = [i for i, f in enumerate(faults) if covers(f, t)]
    return any(overlap_mechanism(faults, lambda a, b: True, i, t) for i in cov)


def oracle_plain(c, obs):
    faults = c["faults"]
    out = []
    # bystander: exactly the fault-free behaviour
    exp = []
    for t, pid, ds in c["arrs"]:
        exp.append([t, pid, 0, False])
        acc = t
        for k, d in enumerate(ds, 1):
            acc += d
            exp.append([acc, pid, k, False])
    if obs["by"] != exp:
        return [dict(clause="other entities are unaffected", mechanism="bystander-log-differs", got=obs["by"][:6], expected=exp[:6])]
    if obs["sink_by"] != [r[:3] for r in exp] or obs["sink"] != [r[:3] for r in obs["tgt"]]:
        return [dict(clause="every executed step emits exactly one event (harness sanity) / other entities are unaffected",
                     mechanism="emitted-events-differ-from-executed-steps", sink=obs["sink"][:6], executed=obs["tgt"][:6])]
    entered = {r[1] for r in obs["tgt"] if r[2] == 0}
    # completion hooks of a request: only after its handler ran to the end, once, at the instant it finished
    # (a request dropped because its target is down never finishes: nothing runs and nothing is emitted for it)
    last_step = {}
    for t, pid, k, flag in obs["tgt"]:
        last_step[pid] = max(last_step.get(pid, (-1, -1)), (k, t))
    for t, pid in obs.get("hooks", []):
        nsteps = len(next(a[2] for a in c["arrs"] if a[1] == pid))
        fin = last_step.get(pid)
        if pid not in entered:
            out.append(dict(clause="while an entity is crashed or paused it executes nothing and emits no events", mechanism="completion-hook-of-a-dropped-event-ran",
                            t=t, pid=pid, what="the request was dropped at a crashed target, yet its completion hooks ran and their events were scheduled"))
        elif fin is None or fin[0] != nsteps or fin[1] != t:
            out.append(dict(clause="completion hooks take effect at the instant the handler finishes (harness sanity)", mechanism="completion-hook-at-wrong-time", t=t, pid=pid))
    if obs.get("hooks") is not None and obs.get("hook_sink") != obs.get("hooks"):
        out.append(dict(clause="every hook that ran emitted exactly one event (harness sanity)", mechanism="hook-events-differ"))
    for t, pid, k, flag in obs["tgt"]:
        if any(covers(f, t) for f in faults):
            if k >= 1:
                entry_t = next(a[0] for a in c["arrs"] if a[1] == pid)
                inflight = not any(covers(f, entry_t) for f in faults) or crash_flag_overlap(faults, entry_t)
                out.append(dict(clause="while an entity is crashed or paused it executes nothing: no in-flight process advances and it emits no events",
                                mechanism="inflight-process-resumed-while-crashed" if inflight else "resume-while-crashed",
                                t=t, pid=pid, step=k,
                                what="a generator process that had yielded before the crash is resumed during the crash window: ProcessContinuation.invoke has no _crashed test"))
            else:
                out.append(dict(clause="while an entity is crashed or paused it executes nothing: no handler runs",
                                mechanism="overlap-deactivate-restores-original:crash" if (not flag and crash_flag_overlap(faults, t)) else "handler-entry-while-crashed",
                                t=t, pid=pid,
                                what="crash fault not in effect although a window covering the target is active: the deactivation closure of an overlapping window wrote the configured value back"))
    for t, pid, ds in c["arrs"]:
        if not any(covers(f, t) for f in faults) and pid not in entered:
            out.append(dict(clause="processing resumes from the restart time", mechanism="dropped-outside-window", t=t, pid=pid))
            break
    return first_per_mechanism(out)


def attribute_plain(c, obs, f):
    m = f.get("mechanism", "")
    if m == "inflight-process-resumed-while-crashed":
        return "C06-inflight-process-runs-while-crashed"
    if m == "overlap-deactivate-restores-original:crash":
        return "C06-overlap-crash"
    if m == "queued-item-started-while-crashed":
        return "C06-queued-work-starts-while-crashed"
    return None


def encode_plain(c, obs):
    return term(([win_term(f) for f in c["faults"]], 0, [(a[0], a[1], a[2]) for a in c["arrs"]],
                 [(r[0], r[1], r[2]) for r in obs["tgt"]]))


# --------------------------------------------------------------------------- crash workload (queue-fronted entity)
def impl_qr(c):
    from happysimulator.components.queued_resource import QueuedResource
    from happysimulator.core.event import Event
    from happysimulator.core.simulation import Simulation
    from happysimulator.core.temporal import Instant

    class Server(QueuedResource):
        def __init__(self, name):
            super().__init__(name)
            self.busy = 0
            self.log = []

        def has_capacity(self):
            return self.busy < 1

        def handle_queued_event(self, event):
            m = event.context["metadata"]
            self.busy += 1
            self.log.append([self.now.nanoseconds, m["pid"], 0, bool(getattr(self, "_crashed", False))])
            yield m["d"] / S
            self.log.append([self.now.nanoseconds, m["pid"], 1, bool(getattr(self, "_crashed", False))])
            self.busy -= 1
            return []

    tgt, by = Server("tgt"), Server("bystander")
    fs, handles = build_schedule(c["faults"], lambda f: _crash_fault(f, "tgt"))
    tmax = max([x for f in c["faults"] for x in (f["s"], f["e"] or 0, f["c"] or 0)] + [a[0] for a in c["arrs"]]) + sum(a[2] for a in c["arrs"]) + S
    sim = Simulation(end_time=Instant(tmax + S), entities=[tgt, by], fault_schedule=fs)
    arm_cancels(sim, c["faults"], handles)
    for t, pid, d in c["arrs"]:
        for ent in (tgt, by):
            ev = Event(time=Instant(t), event_type="req", target=ent)
            ev.context["metadata"].update(pid=pid, d=d)
            sim.schedule(ev)
    sim.run()
    return dict(tgt=tgt.log, by=by.log, depth=tgt.depth)


def fifo_serve(arrs):
    out, free = [], 0
    for t, pid, d in arrs:
        st = max(t, free)
        out += [[st, pid, 0, False], [st + d, pid, 1, False]]
        free = st + d
    return out


def oracle_qr(c, obs):
    faults = c["faults"]
    if obs["by"] != fifo_serve(c["arrs"]):
        return [dict(clause="other entities are unaffected", mechanism="bystander-log-differs", got=obs["by"][:6])]
    out = []
    arr_t = {a[1]: a[0] for a in c["arrs"]}
    entry_t = {r[1]: r[0] for r in obs["tgt"] if r[2] == 0}
    for t, pid, k, flag in obs["tgt"]:
        if any(covers(f, t) for f in faults):
            accepted_before = not any(covers(f, arr_t[pid]) for f in faults) or crash_flag_overlap(faults, arr_t[pid])
            if k == 0:
                out.append(dict(clause="while an entity is crashed or paused it executes nothing: no handler runs (queue-fronted target)",
                                mechanism="queued-item-started-while-crashed" if accepted_before and flag else
                                ("overlap-deactivate-restores-original:crash" if not flag and crash_flag_overlap(faults, t) else "handler-entry-while-crashed"),
                                t=t, pid=pid,
                                what="a QueuedResource hands queued work to its worker while it is crashed: the _crashed flag sits on the resource, the driver delivers to the internal worker adapter, which Event.invoke does not see as crashed"))
            else:
                started_ok = not any(covers(f, entry_t[pid]) for f in faults) or crash_flag_overlap(faults, entry_t[pid])
                out.append(dict(clause="while an entity is crashed or paused it executes nothing: no in-flight process advances",
                                mechanism="inflight-process-resumed-while-crashed" if started_ok else "queued-item-started-while-crashed",
                                t=t, pid=pid,
                                what="a generator process that had yielded before the crash is resumed during the crash window: ProcessContinuation.invoke has no _crashed test"))
    for t, pid, d in c["arrs"]:
        if not any(covers(f, t) for f in faults) and pid not in entry_t:
            out.append(dict(clause="processing resumes from the restart time", mechanism="accepted-work-never-served", t=t, pid=pid))
            break
    return first_per_mechanism(out)


def encode_qr(c, obs):
    return term(([win_term(f) for f in c["faults"]], 0, [tuple(a) for a in c["arrs"]], [(r[0], r[1], r[2]) for r in obs["tgt"]]))


def gen_qr(rng):
    return gen_crashwl(rng, queued=True)



# --------------------------------------------------------------------------- crash target behind a network link (oracle only)
def gen_netcrash(rng):
    pool = gen_endpoints(rng, n_pool=4)
    # one window, or two disjoint ones (overlapping windows on one target are the subject of the reg family)
    pts = sorted(set(pool))
    faults = []
    for a, b in ([(pts[0], pts[1])] + ([(pts[2], pts[3])] if len(pts) >= 4 and rng.random() < 0.6 else [])):
        faults.append(dict(k="crash", tgt=0, s=a, e=b, p=0, c=None, pause=bool(rng.random() < 0.5)))
    lat = rng.choice([Q // 2, Q, 2 * Q, 3 * Q])
    tmax = max(pool) + S
    # send instants: a grid, plus instants placed so that the arrival straddles a window edge
    sends = set(rng.sample(range(0, 4 * tmax // S), min(6, 4 * tmax // S)))
    sends = {k * Q + 7 for k in sends}
    for f in faults:
        for edge in (f["s"], f["e"]):
            for d in (-lat - 1, -lat, -lat + 1, -1, 0, 1):
                if edge + d > 0 and rng.random() < 0.5:
                    sends.add(edge + d)
    return dict(faults=faults, lat=lat, sends=sorted(sends))


def impl_netcrash(c):
    """Messages sent through a Network (constant-latency links) to a target that crashes / pauses, and to a bystander."""
    from happysimulator.components.network.link import NetworkLink
    from happysimulator.components.network.network import Network
    from happysimulator.core.entity import Entity
    from happysimulator.core.event import Event
    from happysimulator.core.simulation import Simulation
    from happysimulator.core.temporal import Instant
    from happysimulator.distributions.constant import ConstantLatency

    class Srv(Entity):
        def __init__(self, name):
            super().__init__(name)
            self.got = []

        def handle_event(self, event):
            self.got.append([event.context["metadata"]["seq"], self.now.nanoseconds])

    class Cli(Entity):
        def handle_event(self, event):
            return None

    cli, tgt, by = Cli("client"), Srv("tgt"), Srv("bystander")
    net = Network(name="net")
    for srv in (tgt, by):
        net.add_link(cli, srv, NetworkLink(name=f"to_{srv.name}", latency=ConstantLatency(c["lat"] / S)))
    fs, _ = build_schedule(c["faults"], lambda f: _crash_fault(f, "tgt"))
    tmax = max([f["e"] for f in c["faults"]] + c["sends"]) + c["lat"] + S
    sim = Simulation(end_time=Instant(tmax), entities=[cli, tgt, by, net], fault_schedule=fs)
    for seq, t in enumerate(c["sends"]):
        for name in ("tgt", "bystander"):
            ev = Event(time=Instant(t), event_type="req", target=net)
            ev.context["metadata"].update({"source": "client", "destination": name, "seq": seq})
            sim.schedule(ev)
    sim.run()
    return dict(tgt=tgt.got, by=by.got)


def oracle_netcrash(c, obs):
    arrive = [[i, t + c["lat"]] for i, t in enumerate(c["sends"])]
    if obs["by"] != arrive:
        return [dict(clause="other entities are unaffected", mechanism="bystander-deliveries-differ", got=obs["by"][:6], expected=arrive[:6])]
    # a message is handled exactly when the target is up at the instant it ARRIVES (an arrival exactly on a window
    # edge is left undecided: the order against the fault's own event is an engine tie)
    edges = {x for f in c["faults"] for x in (f["s"], f["e"])}
    got = {tuple(r) for r in obs["tgt"]}
    for i, ta in arrive:
        if ta in edges:
            continue
        down = any(covers(f, ta) for f in c["faults"])
        if down and (i, ta) in got:
            return [dict(clause="while an entity is crashed or paused it executes nothing: no handler runs", mechanism="handled-while-down", seq=i, arrival=ta)]
        if not down and (i, ta) not in got:
            return [dict(clause="processing resumes from the restart time: a message that arrives after the restart is handled, whenever it was sent",
                         mechanism="arrival-after-restart-lost", seq=i, sent=c["sends"][i], arrival=ta)]
    extra = [r for r in obs["tgt"] if r not in arrive]
    if extra:
        return [dict(clause="each message is delivered once, after the link latency", mechanism="unexpected-delivery", got=extra[:4])]
    return []


FAM_NETCRASH = Family("netcrash", "", "", "", gen_netcrash, impl_netcrash, lambda c, o: "", oracle_netcrash,
                      nontrivial=lambda c, o: len(o["tgt"]) < len(o["by"]))

# --------------------------------------------------------------------------- families
FAMILIES = [
    Family("reg", IMPORTS, "ok_reg", "Z * list (Z * Z) * list win * list (Z * list (Z * Z))", gen_reg, impl_reg,
           encode_reg, oracle_reg, nontrivial_overlap, attribute_overlap, parallel=True,
           describe=lambda c: f"{c['kind']},faults={len(c['faults'])}"),
    Family("part", IMPORTS, "ok_part", "list win * list (Z * list (Z * Z * bool) * Z * Z)", gen_part, impl_part,
           encode_part, oracle_part, nontrivial_part, attribute_part, parallel=True,
           describe=lambda c: f"faults={len(c['faults'])}"),
    Family("cap", IMPORTS, "ok_cap", "Z * list win * list (Z * cop) * list (Z * Z * Z)", gen_cap, impl_cap,
           encode_cap, oracle_cap, lambda c, o: any(e["held"] > 0 and e["what"].startswith("fault") for e in o["log"]),
           attribute_cap, parallel=True, describe=lambda c: f"faults={len(c['faults'])},ops={len(c['wl'])}"),
    Family("plain", IMPORTS, "ok_plain", "list win * Z * list arrival * list (Z * Z * Z)", gen_crashwl, impl_plain,
           encode_plain, oracle_plain, lambda c, o: any(r[3] for r in o["tgt"]), attribute_plain, parallel=True,
           describe=lambda c: f"faults={len(c['faults'])},arrivals={len(c['arrs'])}"),
    Family("qr", IMPORTS, "ok_qr", "list win * Z * list (Z * Z * Z) * list (Z * Z * Z)", gen_qr, impl_qr,
           encode_qr, oracle_qr, lambda c, o: any(r[3] for r in o["tgt"]), attribute_plain, parallel=True,
           describe=lambda c: f"faults={len(c['faults'])},arrivals={len(c['arrs'])}"),
]

TRUSTED = [
    "Coq 8.16.1 kernel (coqc, vm_compute for refutation witnesses and case evaluation); no native_compute",
    "axioms: none (every theorem of C06/Props.v is 'Closed under the global context')",
    "engine delivery order of fault events = (time, creation index), cancelled events skipped (property C01; assumed by C06/Model.v `delivered`, validated by the correspondence on every case)",
    "correspondence harness harness/props/c06.py (generators, probes, in-Coq comparison ok_* of C06/Model.v)",
    "model choices: names are Z; loss rates in 1/16, capacities in 1/4 units, latencies in ns on a dyadic grid so that the float arithmetic of the closures is exact",
]

PROOF_FILES = ["C06/Model.v", "C06/Registers.v", "C06/Partition.v", "C06/Capacity.v", "C06/Dispatch.v", "C06/Props.v"]


def run(ctx):
    ctx.prove(PROOF_FILES, allowed_axioms=(), trusted_base=TRUSTED)
    n = ctx.n(100, 1500)
    for fam in FAMILIES:
        fam.parallel = not ctx.quick      # 120 cases run faster in-process than the pool's start-up
    stats = [run_family(ctx, fam, n) for fam in FAMILIES]
    if not ctx.quick:
        # small-scope exhaustive: every overlap pattern of 2 (all kinds) / 3 (crash) windows over 4 endpoints
        import dataclasses
        cases = enum_reg_cases()
        enum_fam = dataclasses.replace(FAMILIES[0], gen=cycling_gen(cases))
        st = run_family(ctx, enum_fam, len(cases), search_factor=0)
        st["family"] = "reg(enumerated)"
        stats.append(st)
    ctx.coverage["oracle_only_families"] = [run_oracle_only(ctx, FAM_RANDPART, ctx.n(40, 400)),
                                            run_oracle_only(ctx, FAM_NETCRASH, ctx.n(60, 600))]
    merge_stats(ctx, stats, "random fault schedules (1-5 faults, endpoints from a pool of <= 6 instants, cancels, permanent crashes); non-trivial = two windows on one target overlap; distinct by JSON of the input")
    ctx.finish_obligations()
    ctx.assumptions += [
        "delivery order of fault events (time, creation index; cancelled skipped) is the engine's (C01); assumed in C06/Model.v `delivered`, validated by every correspondence case",
        "'in effect whatever other faults overlap it' is refuted for all five kinds (c06_*_overlap_refuted; findings C06-overlap-crash/-lat/-loss/-part/-cap); proved for strictly separated windows (c06_effect_while_active_partial, c06_partition_while_active_partial); 'no effect outside windows / back to configured' is proved for every schedule",
        "'executes nothing while crashed' is refuted for in-flight processes and for queue-fronted targets (findings C06-inflight-process-runs-while-crashed, C06-queued-work-starts-while-crashed); proved: no handler entry while the flag is set, only work that arrived while up is executed",
        "capacity accounting available + held = capacity is refuted with a single window (C06-capacity-held-ignored); proved: 0 <= available <= capacity <= configured for all schedules and workloads, exact accounting when activations find the resource idle",
        "float arithmetic of the closures (extra_ms/1000, original*factor, min(1.0, a+b)) is exercised on a dyadic grid only; RandomPartition is not modelled (oracle-only family randpart: a fixed partition next to a random one on other nodes); QueuedResource is modelled as a one-slot FIFO server (queue/driver internals belong to C08)",
    ]


def replay(data):
    fam = {f.name: f for f in FAMILIES + [FAM_RANDPART]}[data["detail"]["family"]]
    c = data["detail"]["case"]
    obs = fam.impl(c)
    fails = fam.oracle(c, obs)
    print("observations:", obs)
    print("oracle failures:", fails)
    return 1 if fails else 0
