"""C11 — Raft: one leader per term, matching logs, durable commits, identical applies.

Tie to /repo.  Three families, all executed on the real RaftNode / Log /
KVStateMachine / Network / NetworkLink classes:

* ``drive``   direct drive: the harness holds the bag of in-flight messages and
              calls ``node.handle_event`` / ``node.submit`` in an order chosen by
              the case (deliver any message, drop, time out, heartbeat, submit,
              crash/restart).  The same action list is executed by the cluster
              model ``net_step`` of C11/Model.v inside Coq; the acting node's
              state and the bag size must agree after every action.
* ``sim``     per-handler trace replay: 3-5 nodes in a real ``Simulation`` on a
              real ``Network`` with adversarial (bimodal) link latencies, packet
              loss, partition/heal and crash/restart schedules and client
              submits.  Every handled event (input as the handler saw it,
              returned events, state after) is replayed through ``node_step``.
* ``healthy`` the liveness clause: fault-free network, delays far below the
              election timeout, commands submitted to the established leader;
              every node must apply all of them in submission order.  Also
              replayed through ``node_step``.

* ``forge``   forged / malformed message streams (unknown senders, stale and future
              terms, gaps and overlaps in entries, negative indices, cancelled
              timers) handed to one node; replayed through ``node_step``; the
              node-local clauses (apply in order, futures) must survive.

The property oracle (independent of the model) evaluates the C11 statement on
the implementation's states after every event.  In addition every schedule of
at most 7 (thorough: 8) actions of a 3-node cluster is enumerated on the real
objects with state hashing (search only, never counted as an obligation).

Private attributes read: RaftNode._voted_for, _last_applied, _next_index,
_match_index, _votes_received_set, _pending_futures; Log._entries.
"""
from __future__ import annotations

import json
import random as _random

from hsverif.coq import Ctor, Raw, SomeV, term
from hsverif.family import Family, merge_stats, run_family

IMPORTS = "From HS Require Import Base.Prelude C11.Model."
LEVEL = "proof"

RV, VR, AE, AR = "RaftRequestVote", "RaftVoteResponse", "RaftAppendEntries", "RaftAppendEntriesResponse"


# --------------------------------------------------------------------------- implementation side helpers
def nm(i):
    return f"n{i}"


def ix(name):
    return None if name is None else int(name[1:])


def mkcmd(c):
    return {"op": "set", "key": f"k{c % 3}", "value": c}


_RECSM = None


def make_sm(node_ref=None):
    """KVStateMachine that also records (log index, command id) of every apply.  The node it belongs to is
    an instance attribute (set by the caller) so that deep copies of a cluster stay self-contained."""
    global _RECSM
    if _RECSM is None:
        from happysimulator.components.consensus.raft_state_machine import KVStateMachine

        class RecSM(KVStateMachine):
            def __init__(self):
                super().__init__()
                self.applied = []
                self.node = None

            def apply(self, command):
                idx = [e.index for e in self.node.log._entries if e.command["value"] == command["value"]]
                self.applied.append([idx[0] if len(idx) == 1 else -1, command["value"]])
                return super().apply(command)

        _RECSM = RecSM
    return _RECSM()


def msg_of(typ, md):
    """Network metadata -> JSON message."""
    if typ == RV:
        return ["RV", md["term"], ix(md["candidate_id"]), md.get("last_log_index", 0), md.get("last_log_term", 0)]
    if typ == VR:
        return ["VR", md["term"], bool(md["vote_granted"]), ix(md.get("from"))]
    if typ == AE:
        return ["AE", md["term"], ix(md["leader_id"]), md.get("prev_log_index", 0), md.get("prev_log_term", 0),
                [[e["index"], e["term"], e["command"]["value"]] for e in md.get("entries", [])], md.get("leader_commit", 0)]
    if typ == AR:
        return ["AR", md["term"], bool(md["success"]), ix(md.get("from")), md.get("match_index", 0)]
    raise ValueError(typ)


def md_of(m, src, dst):
    """JSON message -> (event type, metadata) as Network.send builds it."""
    md = {"source": nm(src), "destination": nm(dst)}
    if m[0] == "RV":
        md.update(term=m[1], candidate_id=nm(m[2]), last_log_index=m[3], last_log_term=m[4])
        return RV, md
    if m[0] == "VR":
        md.update({"term": m[1], "vote_granted": m[2], "from": nm(m[3])})
        return VR, md
    if m[0] == "AE":
        md.update(term=m[1], leader_id=nm(m[2]), prev_log_index=m[3], prev_log_term=m[4],
                  entries=[{"index": e[0], "term": e[1], "command": mkcmd(e[2])} for e in m[5]], leader_commit=m[6])
        return AE, md
    md.update({"term": m[1], "success": m[2], "from": nm(m[3]), "match_index": m[4]})
    return AR, md


class Obs:
    """Observer of one cluster: node observations, resolution order of futures."""

    def __init__(self, nodes):
        self.nodes = nodes
        self.futs = [[] for _ in nodes]        # per node: [cmd, future, was_leader, term_at_submit]
        self.resolved = [[] for _ in nodes]    # per node: [fid, index, result] in resolution order

    def submit(self, i, c):
        nd = self.nodes[i]
        was_leader = nd.is_leader
        f = nd.submit(mkcmd(c))
        self.futs[i].append([c, f, was_leader, nd.current_term])

    def refresh(self, i):
        done = {r[0] for r in self.resolved[i]}
        new = []
        for fid, (_c, f, _l, _t) in enumerate(self.futs[i]):
            if fid not in done and f.is_resolved:
                v = f.value
                new.append([fid, v[0], v[1]])
        new.sort(key=lambda r: r[1])
        self.resolved[i].extend(new)

    def node(self, i):
        nd = self.nodes[i]
        self.refresh(i)
        ents = nd.log._entries
        for pos, e in enumerate(ents):
            if e.index != pos + 1:
                raise AssertionError(f"log entry index {e.index} at position {pos + 1}")
        fid_of = {id(f): k for k, (_c, f, _l, _t) in enumerate(self.futs[i])}
        st = nd.stats
        return dict(
            term=nd.current_term, voted=ix(nd._voted_for), role=nd.state.value - 1, leader=ix(nd.current_leader),
            log=[[e.term, e.command["value"]] for e in ents], commit=nd.log.commit_index, la=nd._last_applied,
            next=[[ix(k), v] for k, v in nd._next_index.items()], match=[[ix(k), v] for k, v in nd._match_index.items()],
            votes=sorted(ix(v) for v in nd._votes_received_set),
            pending=[[k, fid_of[id(f)]] for k, f in nd._pending_futures.items()],
            applied=[list(a) for a in nd._state_machine.applied], resolved=[list(r) for r in self.resolved[i]],
            stats=[st.commands_committed, st.elections_started, st.votes_received],
            kv=dict(nd._state_machine.data),
        )


def parse_outputs(res, net):
    out = []
    if res is None:
        return out
    if not isinstance(res, list):
        res = [res]
    for e in res:
        if e.target is net:
            md = e.context["metadata"]
            out.append(["send", ix(md["destination"]), msg_of(e.event_type, md), ix(md["source"])])
        elif e.event_type == "RaftElectionTimeout":
            out.append(["et"])
        elif e.event_type == "RaftHeartbeat":
            out.append(["hb"])
        else:
            raise AssertionError(f"unexpected output event {e!r}")
    return out


# --------------------------------------------------------------------------- Gallina encoding
def msg_term(m):
    if m[0] == "RV":
        return Ctor("RequestVote", m[1], m[2], m[3], m[4])
    if m[0] == "VR":
        return Ctor("VoteResponse", m[1], m[2], m[3])
    if m[0] == "AE":
        return Ctor("AppendEntries", m[1], m[2], m[3], m[4], [tuple(e) for e in m[5]], m[6])
    return Ctor("AppendResponse", m[1], m[2], m[3], m[4])


def opt(v):
    return None if v is None else SomeV(v)


def obs_term(o):
    return Ctor("mkObs", o["term"], opt(o["voted"]), o["role"], opt(o["leader"]),
                [tuple(e) for e in o["log"]], o["commit"], o["la"],
                [tuple(e) for e in o["next"]], [tuple(e) for e in o["match"]], list(o["votes"]),
                [tuple(e) for e in o["pending"]], [a[1] for a in o["applied"]],
                [tuple(r) for r in o["resolved"]], tuple(o["stats"]))


def input_term(inp):
    k = inp[0]
    if k == "T":
        return Ctor("ITimeout", bool(inp[1]))
    if k == "H":
        return Ctor("IHeartbeat", bool(inp[1]))
    if k == "S":
        return Ctor("ISubmit", inp[1])
    return Ctor("IMsg", inp[1], msg_term(inp[2]))


def output_term(o):
    if o[0] == "send":
        return Ctor("OSend", o[1], msg_term(o[2]))
    return Raw("OElectionTimer") if o[0] == "et" else Raw("OHeartbeatTimer")


# --------------------------------------------------------------------------- property oracle
class Oracle:
    """The C11 statement evaluated on implementation states after every event."""

    def __init__(self, n):
        self.n = n
        self.leaders = {}      # term -> set of nodes that were leader in it
        self.committed = {}    # index -> [entry term, cmd, term of the node that committed it first]
        self.applied_at = {}   # index -> cmd applied there by some node
        self.fails = []
        self.seen = set()

    def fail(self, clause, mechanism=None, **kw):
        key = (clause, mechanism)
        if key in self.seen:
            return
        self.seen.add(key)
        d = dict(clause=clause, **kw)
        if mechanism:
            d["mechanism"] = mechanism
        self.fails.append(d)

    def step(self, k, states, futs):
        """states: list of node observations (all nodes) after event k;
        futs: per node list of [cmd, was_leader]"""
        # one leader per term
        for i, s in enumerate(states):
            if s["role"] == 2:
                self.leaders.setdefault(s["term"], set()).add(i)
                if len(self.leaders[s["term"]]) > 1:
                    self.fail("at most one leader per term", step=k, term=s["term"], leaders=sorted(self.leaders[s["term"]]))
        # log matching
        for i in range(self.n):
            for j in range(i + 1, self.n):
                a, b = states[i]["log"], states[j]["log"]
                m = min(len(a), len(b))
                same = [p for p in range(m) if a[p][0] == b[p][0]]
                if same and a[:same[-1] + 1] != b[:same[-1] + 1]:
                    self.fail("logs with the same (index, term) entry are identical up to it", step=k, nodes=[i, j], logs=[a, b])
        # committed entries: never two different ones at an index; present in every later leader
        for i, s in enumerate(states):
            for p in range(min(s["commit"], len(s["log"]))):
                e = s["log"][p]
                rec = self.committed.get(p + 1)
                if rec is None:
                    self.committed[p + 1] = [e[0], e[1], s["term"]]
                elif rec[:2] != e:
                    self.fail("a committed entry is never replaced by a different one", step=k, index=p + 1, first=rec, other=e, node=i)
        for i, s in enumerate(states):
            if s["role"] == 2:
                for idx, rec in self.committed.items():
                    if s["term"] > rec[2] and (len(s["log"]) < idx or s["log"][idx - 1] != rec[:2]):
                        self.fail("a committed entry is in the log of every later leader", step=k, leader=i, term=s["term"], index=idx, entry=rec)
        # applies: in order without gaps; same command at same index everywhere; only committed entries
        for i, s in enumerate(states):
            ap = s["applied"]
            if [a[0] for a in ap] != list(range(1, len(ap) + 1)) or s["la"] != len(ap):
                self.fail("each node applies indices in order without gaps", step=k, node=i, applied=ap, last_applied=s["la"])
            for idx, c in ap:
                if self.applied_at.setdefault(idx, c) != c:
                    self.fail("no two nodes apply different commands at the same index", step=k, index=idx, cmds=[self.applied_at[idx], c], node=i)
        # futures
        for i, s in enumerate(states):
            for fid, idx, res in s["resolved"]:
                c, was_leader = futs[i][fid]
                if res != c:
                    self.fail("a submit future resolves only with the index at which exactly its command was committed",
                              mechanism="future-keyed-by-index" if was_leader else "future-other",
                              step=k, node=i, submitted=c, resolved_with=[idx, res],
                              what=f"submit future of command {c} resolved with ({idx}, {res}): _pending_futures is keyed by log index only, "
                                   "the entry at that index was replaced by another leader's command")
                elif self.committed.get(idx, [None, None])[1] != c:
                    self.fail("a submit future resolves only with the index at which exactly its command was committed",
                              mechanism="future-not-committed", step=k, node=i, submitted=c, resolved_with=[idx, res])


def oracle_states(c, obs):
    """The oracle runs inside the implementation worker (after every event, on the states of all
    nodes) so that the per-event snapshots need not be shipped between processes."""
    if obs.get("error"):
        return [dict(clause="implementation raised", error=obs["error"])]
    return list(obs["fails"])


def attribute(c, obs, f):
    if f.get("mechanism") == "future-keyed-by-index":
        return "C11-future-keyed-by-index"
    return None


# --------------------------------------------------------------------------- family: direct drive
def gen_drive(rng):
    n = rng.choice([3, 3, 3, 4, 5])
    style = rng.choice(["mixed", "fifo", "chaos", "partition", "macro", "macro", "macro"])
    steps = []
    if style == "macro":
        # model-aware schedules: elections won with chosen voter subsets, partial replication rounds,
        # submits to current AND deposed leaders, message loss between phases -- the states in which
        # logs diverge (stale suffixes, old-term entries on a majority, competing candidates)
        full = (1 << n) - 1
        if rng.random() < 0.8:
            steps.append(["ELECT", rng.randrange(n), full])
        for _ in range(rng.randint(4, 22)):
            r = rng.random()
            mask = full if rng.random() < 0.5 else rng.randrange(1 << n)
            if r < 0.25:
                steps.append(["ELECT", rng.randrange(n), mask])
            elif r < 0.50:
                steps.append(["S", rng.randrange(1 << 16), rng.random() < 0.7, rng.random() < 0.3])
            elif r < 0.78:
                steps.append(["REPL", rng.randrange(1 << 16), mask, full if rng.random() < 0.6 else rng.randrange(1 << n)])
            elif r < 0.88:
                steps.append(["FLUSH"])
            elif r < 0.94:
                steps.append(["D", "any", rng.randrange(1 << 16)])
            else:
                steps.append(["T", rng.randrange(n)])
        return dict(n=n, steps=steps, style=style)
    for _ in range(rng.randint(8, 70)):
        r = rng.random()
        if style == "fifo":
            w = [0.70, 0.02, 0.06, 0.10, 0.10, 0.02]
        elif style == "chaos":
            w = [0.45, 0.15, 0.12, 0.10, 0.12, 0.06]
        elif style == "partition":
            w = [0.50, 0.05, 0.10, 0.12, 0.12, 0.11]
        else:
            w = [0.58, 0.08, 0.09, 0.10, 0.11, 0.04]
        acc, kind = 0.0, 0
        for kind, p in enumerate(w):
            acc += p
            if r < acc:
                break
        if kind == 0:
            steps.append(["D", rng.choice(["old", "old", "any", "new"]) if style != "chaos" else "any", rng.randrange(1 << 16)])
        elif kind == 1:
            steps.append(["X", rng.randrange(1 << 16)])
        elif kind == 2:
            steps.append(["T", rng.randrange(n)])
        elif kind == 3:
            steps.append(["H", rng.randrange(1 << 16)])       # heartbeat of a leader if any
        elif kind == 4:
            steps.append(["S", rng.randrange(1 << 16), rng.random() < 0.85])
        else:
            steps.append(["C", rng.randrange(n)])            # toggle crash
    return dict(n=n, steps=steps, style=style)


class Cluster:
    def __init__(self, n):
        from happysimulator.components.consensus.raft import RaftNode
        from happysimulator.components.network.network import Network
        from happysimulator.core.clock import Clock
        from happysimulator.core.temporal import Instant
        _random.seed(0)
        self.n = n
        self.clock = Clock(Instant.from_seconds(0))
        self.net = Network(name="net")
        self.net.set_clock(self.clock)
        self.nodes = []
        for i in range(n):
            nd = RaftNode(name=nm(i), network=self.net, state_machine=make_sm())
            nd._state_machine.node = nd
            self.nodes.append(nd)
        for nd in self.nodes:
            nd.set_peers(self.nodes)
            nd.set_clock(self.clock)
        self.obs = Obs(self.nodes)
        self.bag = []           # [dst, src, msg]
        self.crashed = set()
        self.ncmd = 0

    def _event(self, i, typ, md=None, cancelled=False):
        from happysimulator.core.event import Event
        ev = Event(time=self.clock.now, event_type=typ, target=self.nodes[i], daemon=True)
        if md:
            ev.context["metadata"].update(md)
        if cancelled:
            ev.cancel()
        return ev

    def _handle(self, i, ev):
        for o in parse_outputs(self.nodes[i].handle_event(ev), self.net):
            if o[0] == "send":
                if o[3] != i:
                    raise AssertionError("message with foreign source")
                self.bag.append([o[1], i, o[2]])

    def act(self, a):
        """Execute one concrete action (the alphabet of Model.action)."""
        if a[0] == "D":
            dst, src, m = self.bag.pop(a[1])
            typ, md = md_of(m, src, dst)
            self._handle(dst, self._event(dst, typ, md))
            return dst
        if a[0] == "X":
            self.bag.pop(a[1])
            return None
        if a[0] == "T":
            self._handle(a[1], self._event(a[1], "RaftElectionTimeout"))
            return a[1]
        if a[0] == "H":
            self._handle(a[1], self._event(a[1], "RaftHeartbeat"))
            return a[1]
        if a[0] == "S":
            self.obs.submit(a[1], a[2])
            return a[1]
        raise ValueError(a)

    def resolve(self, s):
        """Abstract step of a generated case -> concrete action or None."""
        k = s[0]
        if k == "D":
            if not self.bag:
                return None
            j = 0 if s[1] == "old" else len(self.bag) - 1 if s[1] == "new" else s[2] % len(self.bag)
            return ["X", j] if self.bag[j][0] in self.crashed else ["D", j]
        if k == "X":
            return ["X", s[1] % len(self.bag)] if self.bag else None
        if k == "T":
            return None if s[1] in self.crashed else ["T", s[1]]
        if k == "H":
            ls = [i for i, nd in enumerate(self.nodes) if nd.is_leader and i not in self.crashed]
            if ls:
                return ["H", ls[s[1] % len(ls)]]
            i = s[1] % self.n
            return None if i in self.crashed else ["H", i]
        if k == "S":
            ls = [i for i, nd in enumerate(self.nodes) if nd.is_leader and i not in self.crashed]
            if len(s) > 3 and s[3] and ls:        # prefer the leader with the OLDEST term (a deposed one)
                ls = sorted(ls, key=lambda i: self.nodes[i].current_term)[:1]
            elif ls:                              # otherwise the newest
                ls = sorted(ls, key=lambda i: -self.nodes[i].current_term)[:1]
            i = ls[0] if (ls and s[2]) else s[1] % self.n
            if i in self.crashed:
                return None
            self.ncmd += 1
            return ["S", i, 10 * self.ncmd + i]
        if k == "C":
            self.crashed ^= {s[1]}
            return None
        if k == "A":          # concrete action given literally (corpus witnesses)
            return s[1]
        raise ValueError(s)

    def _find(self, dst, typ, src):
        for j, (d, sr, m) in enumerate(self.bag):
            if d == dst and m[0] == typ and (src is None or sr == src):
                return j
        return None

    def expand(self, s):
        """Abstract step -> concrete actions, one at a time (the bag is inspected again after each)."""
        k = s[0]
        if k == "ELECT":
            i = s[1]
            if i in self.crashed:
                return
            yield ["T", i]
            for d in range(self.n):
                j = self._find(d, "RV", i)
                if j is not None and d not in self.crashed and (s[2] >> d) & 1:
                    yield ["D", j]
            while (j := self._find(i, "VR", None)) is not None:
                yield ["D", j]
        elif k == "REPL":
            ls = [i for i, nd in enumerate(self.nodes) if nd.is_leader and i not in self.crashed]
            if not ls:
                return
            ldr = ls[s[1] % len(ls)]
            yield ["H", ldr]
            for _round in range(8):          # a rejected AppendEntries is retried at once with a lower prev index
                moved = False
                for d in range(self.n):
                    j = self._find(d, "AE", ldr)
                    if j is not None and d not in self.crashed and (s[2] >> d) & 1:
                        moved = True
                        yield ["D", j]
                for d in range(self.n):
                    j = self._find(ldr, "AR", d)
                    if j is not None and (s[3] >> d) & 1:
                        moved = True
                        yield ["D", j]
                if not moved:
                    break
        elif k == "FLUSH":
            while self.bag:
                yield ["X", 0]
        else:
            a = self.resolve(s)
            if a is not None:
                yield a

    def snapshot(self):
        return [self.obs.node(i) for i in range(self.n)]

    def futs(self):
        return [[[f[0], f[2]] for f in fs] for fs in self.obs.futs]


def impl_drive(c):
    cl = Cluster(c["n"])
    orc = Oracle(c["n"])
    acts, actors, actor_obs, bags = [], [], [], []
    snap = None
    for s in c["steps"]:
        for a in cl.expand(s):
            who = cl.act(a)
            acts.append(a)
            actors.append(-1 if who is None else who)
            snap = cl.snapshot()
            actor_obs.append(None if who is None else snap[who])
            orc.step(len(acts) - 1, snap, cl.futs())
            bags.append(len(cl.bag))
    return dict(acts=acts, actors=actors, actor_obs=actor_obs, bags=bags, futs=cl.futs(), final=snap or cl.snapshot(),
                fails=orc.fails, leaders={str(k): sorted(v) for k, v in orc.leaders.items()})


def act_term(a):
    if a[0] == "D":
        return Raw(f"(ADeliver {a[1]}%nat)")
    if a[0] == "X":
        return Raw(f"(ADrop {a[1]}%nat)")
    if a[0] == "T":
        return Ctor("ATimeout", a[1])
    if a[0] == "H":
        return Ctor("AHeartbeat", a[1])
    return Ctor("ASubmit", a[1], a[2])


def encode_drive(c, o):
    os_ = []
    for who, st, nb in zip(o["actors"], o["actor_obs"], o["bags"]):
        os_.append((who, None if who < 0 else SomeV(obs_term(st)), nb))
    return term((list(range(c["n"])), [act_term(a) for a in o["acts"]], os_))


def nontrivial_drive(c, o):
    return bool(o["acts"]) and any(s["role"] == 2 for s in o["final"]) and any(s["commit"] > 0 for s in o["final"])


def describe_drive(c):
    return f"n={c['n']},{c.get('style', 'corpus')},steps={len(c['steps']) // 20 * 20}+"


# --------------------------------------------------------------------------- family: real Simulation
def gen_sim(rng):
    n = rng.choice([3, 3, 4, 5])
    dur = rng.choice([1.0, 1.5, 2.5])
    events = []
    t = 0.0
    ncmd = 0
    while True:
        t += rng.choice([0.02, 0.1, 0.3, 0.6]) * rng.random() + 0.01
        if t >= dur:
            break
        r = rng.random()
        if r < 0.55:
            ncmd += 1
            events.append([round(t, 4), "submit", rng.randrange(1 << 16), rng.random() < 0.85, ncmd])
        elif r < 0.70:
            k = rng.randint(1, n - 1)
            grp = rng.sample(range(n), k)
            events.append([round(t, 4), "partition", grp, rng.random() < 0.25])
        elif r < 0.85:
            events.append([round(t, 4), "heal"])
        elif r < 0.93:
            events.append([round(t, 4), "crash", rng.randrange(n)])
        else:
            events.append([round(t, 4), "restart", rng.randrange(n)])
    return dict(n=n, seed=rng.randrange(1 << 30), duration=dur, loss=rng.choice([0.0, 0.0, 0.05, 0.2]),
                slow=rng.choice([0.0, 0.1, 0.3, 0.5]), hb=rng.choice([0.05, 0.1]), events=events)


def run_sim(c, healthy=False):
    from happysimulator.components.consensus.raft import RaftNode
    from happysimulator.components.network.link import NetworkLink
    from happysimulator.components.network.network import Network
    from happysimulator.core.event import Event
    from happysimulator.core.simulation import Simulation
    from happysimulator.core.temporal import Duration, Instant
    from happysimulator.distributions.latency_distribution import LatencyDistribution
    from hsverif.util import run_bounded

    lat_rng = _random.Random(c["seed"] ^ 0x5EED)

    class Bimodal(LatencyDistribution):
        """Microseconds-to-milliseconds, or (with probability `slow`) longer than an election timeout."""

        def __init__(self, slow):
            super().__init__(0.001)
            self.slow = slow

        def get_latency(self, current_time):
            if lat_rng.random() < self.slow:
                return Duration.from_seconds(lat_rng.uniform(0.05, 0.6))
            return Duration.from_seconds(lat_rng.uniform(0.0002, 0.004))

    _random.seed(c["seed"])
    n = c["n"]
    net = Network(name="net")
    nodes = []
    for i in range(n):
        nd = RaftNode(name=nm(i), network=net, state_machine=make_sm(),
                      election_timeout_min=0.15, election_timeout_max=0.30, heartbeat_interval=c.get("hb", 0.05))
        nd._state_machine.node = nd
        nodes.append(nd)
    for nd in nodes:
        nd.set_peers(nodes)
    for i in range(n):
        for j in range(i + 1, n):
            link = NetworkLink(name=f"l{i}{j}", latency=Bimodal(0.0 if healthy else c["slow"]),
                               packet_loss_rate=0.0 if healthy else c["loss"])
            net.add_bidirectional_link(nodes[i], nodes[j], link)
    ob = Obs(nodes)
    orc = Oracle(n)
    trace = []
    submitted = []

    def observe():
        orc.step(len(trace) - 1, [ob.node(k) for k in range(n)], [[[f[0], f[2]] for f in fs] for fs in ob.futs])

    def wrap(i, nd):
        orig = nd.handle_event

        def h(event):
            md = event.context.get("metadata", {})
            if event.event_type == "RaftElectionTimeout":
                inp = ["T", event.cancelled]
            elif event.event_type == "RaftHeartbeat":
                inp = ["H", event.cancelled]
            else:
                inp = ["M", ix(md.get("source")), msg_of(event.event_type, md)]
            res = orig(event)
            trace.append([i, inp, [o[:3] for o in parse_outputs(res, net)], ob.node(i)])
            observe()
            return res
        nd.handle_event = h

    for i, nd in enumerate(nodes):
        wrap(i, nd)
    sim = Simulation(duration=c["duration"], entities=[net, *nodes])
    for nd in nodes:
        for e in nd.start():
            sim.schedule(e)

    def at(t, fn):
        sim.schedule(Event.once(time=Instant.from_seconds(t), event_type="client", fn=fn, daemon=True))

    def do_submit(pick, to_leader, cid):
        def fn(_e):
            ls = [i for i, nd in enumerate(nodes) if nd.is_leader and not getattr(nd, "_crashed", False)]
            i = ls[pick % len(ls)] if (ls and to_leader) else pick % n
            if getattr(nodes[i], "_crashed", False):
                return None
            cmd = 10 * cid + i
            ob.submit(i, cmd)
            submitted.append([i, cmd, nodes[i].is_leader])
            trace.append([i, ["S", cmd], [], ob.node(i)])
            observe()
            return None
        return fn

    for ev in c["events"]:
        t, kind = ev[0], ev[1]
        if kind == "submit":
            at(t, do_submit(ev[2], ev[3], ev[4]))
        elif healthy:
            continue
        elif kind == "partition":
            grp, asym = ev[2], ev[3]
            rest = [i for i in range(n) if i not in grp]
            at(t, lambda _e, grp=grp, rest=rest, asym=asym: net.partition([nodes[i] for i in grp], [nodes[i] for i in rest], asymmetric=asym) and None)
        elif kind == "heal":
            at(t, lambda _e: net.heal_partition())
        elif kind == "crash":
            at(t, lambda _e, i=ev[2]: setattr(nodes[i], "_crashed", True))
        elif kind == "restart":
            at(t, lambda _e, i=ev[2]: setattr(nodes[i], "_crashed", False))
    _summary, verdict = run_bounded(sim, wall_s=40.0)
    futs = [[[f[0], f[2]] for f in fs] for fs in ob.futs]
    final = [ob.node(k) for k in range(n)]
    return dict(trace=trace, futs=futs, verdict=verdict, submitted=submitted, final=final, fails=orc.fails,
                leaders={str(k): sorted(v) for k, v in orc.leaders.items()},
                net=[net.events_routed, net.events_dropped_partition, net.events_dropped_no_route])


def impl_sim(c):
    return run_sim(c, healthy=False)


def encode_trace(c, o):
    recs = []
    for i, inp, outs, ob in o["trace"]:
        recs.append((i, input_term(inp), [output_term(x) for x in outs], obs_term(ob)))
    return term((list(range(c["n"])), recs))


def oracle_sim(c, o):
    fails = oracle_states(c, o)
    if o["verdict"] != "ok":
        fails.append(dict(clause="simulation ends", verdict=o["verdict"]))
    if o["net"][2]:
        fails.append(dict(clause="network routes every raft message", no_route=o["net"][2]))
    return fails


def nontrivial_sim(c, o):
    return any(s["commit"] > 0 for s in o["final"]) and len({s["term"] for s in o["final"]}) >= 1 and max(s["term"] for s in o["final"]) >= 2


# --------------------------------------------------------------------------- family: liveness on a healthy network
def gen_healthy(rng):
    n = rng.choice([3, 4, 5])
    k = rng.randint(1, 6)
    ts = sorted(round(rng.uniform(0.7, 1.2), 4) for _ in range(k))
    return dict(n=n, seed=rng.randrange(1 << 30), duration=1.6, loss=0.0, slow=0.0, hb=0.1,
                events=[[t, "submit", rng.randrange(1 << 16), True, j + 1] for j, t in enumerate(ts)])


def impl_healthy(c):
    return run_sim(c, healthy=True)


def oracle_healthy(c, o):
    fails = oracle_sim(c, o)
    leaders = o["leaders"]
    to_leader = [cmd for i, cmd, was_leader in o["submitted"] if was_leader]
    if len(leaders) == 1 and len(to_leader) == len(o["submitted"]):
        # single established leader, every command went to it
        for i, s in enumerate(o["final"]):
            got = [a[1] for a in s["applied"]]
            if got != to_leader:
                fails.append(dict(clause="healthy network: every command submitted to the established leader is committed and applied in submission order by every node",
                                  node=i, applied=got, submitted=to_leader))
                break
        for i, fs in enumerate(o["futs"]):
            res = {r[0] for r in o["final"][i]["resolved"]}
            if len(res) != len(fs):
                fails.append(dict(clause="healthy network: every submit future resolves", node=i, resolved=len(res), submitted=len(fs)))
    return fails


def nontrivial_healthy(c, o):
    return any(len(s["applied"]) >= 1 for s in o["final"])


# --------------------------------------------------------------------------- family: forged / malformed inputs to one node
def gen_forge(rng):
    n = rng.choice([3, 3, 5])
    me = rng.randrange(n)
    inputs = []
    ncmd = 0

    def small():
        return rng.choice([-1, 0, 0, 1, 1, 2, 2, 3, 4, 7])

    for _ in range(rng.randint(5, 40)):
        r = rng.random()
        src = rng.randrange(n + 1)                     # n = a name that is no peer
        t = rng.randint(0, 4)
        if r < 0.10:
            inputs.append(["T", rng.random() < 0.15])
        elif r < 0.18:
            inputs.append(["H", rng.random() < 0.15])
        elif r < 0.30:
            ncmd += 1
            inputs.append(["S", 100 + ncmd])
        elif r < 0.42:
            inputs.append(["M", src, ["RV", t, rng.randrange(n + 1), small(), rng.randint(0, 3)]])
        elif r < 0.55:
            inputs.append(["M", src, ["VR", t, rng.random() < 0.7, rng.randrange(n + 1)]])
        elif r < 0.82:
            pli = small()
            k = rng.randint(0, 3)
            base = pli + 1 if rng.random() < 0.8 else small()
            ents = []
            for j in range(k):
                ncmd += 1
                ents.append([base + j if rng.random() < 0.9 else small(), rng.randint(0, 3), 200 + ncmd])
            inputs.append(["M", src, ["AE", t, rng.randrange(n + 1), pli, rng.randint(0, 3), ents, small()]])
        else:
            inputs.append(["M", src, ["AR", t, rng.random() < 0.6, rng.randrange(n + 1), small()]])
    return dict(n=n, me=me, inputs=inputs)


def impl_forge(c):
    cl = Cluster(c["n"])
    i = c["me"]
    orc = Oracle(c["n"])
    trace = []
    for inp in c["inputs"]:
        if inp[0] == "T":
            ev = cl._event(i, "RaftElectionTimeout", cancelled=inp[1])
        elif inp[0] == "H":
            ev = cl._event(i, "RaftHeartbeat", cancelled=inp[1])
        elif inp[0] == "S":
            cl.obs.submit(i, inp[1])
            trace.append([i, inp, [], cl.obs.node(i)])
            continue
        else:
            typ, md = md_of(inp[2], inp[1], i)
            ev = cl._event(i, typ, md)
        outs = parse_outputs(cl.nodes[i].handle_event(ev), cl.net)
        trace.append([i, inp, [o[:3] for o in outs], cl.obs.node(i)])
    st = cl.obs.node(i)
    fails = []
    ap = st["applied"]
    # forged messages may make the node apply anything; what must still hold is the node-local clause
    if [a[0] for a in ap] != list(range(1, len(ap) + 1)) or st["la"] != len(ap) or st["commit"] > st["la"]:
        fails.append(dict(clause="each node applies indices in order without gaps", node=i, applied=ap, last_applied=st["la"], commit=st["commit"]))
    for fid, idx, res in st["resolved"]:
        if [idx, res] not in ap:
            fails.append(dict(clause="a future resolves only with an (index, command) the node applied", resolved=[fid, idx, res]))
    return dict(trace=trace, fails=fails, final=[st])


FAMILIES = [
    Family("drive", IMPORTS, "ok_net", "list Z * list action * list (Z * option obs * Z)", gen_drive, impl_drive,
           encode_drive, oracle_states, nontrivial_drive, attribute, parallel=True, describe=describe_drive),
    Family("sim", IMPORTS, "ok_trace", "list Z * list trace_rec", gen_sim, impl_sim,
           encode_trace, oracle_sim, nontrivial_sim, attribute, parallel=True,
           describe=lambda c: f"n={c['n']},loss={c['loss']},slow={c['slow']}"),
    Family("healthy", IMPORTS, "ok_trace", "list Z * list trace_rec", gen_healthy, impl_healthy,
           encode_trace, oracle_healthy, nontrivial_healthy, attribute, parallel=True,
           describe=lambda c: f"n={c['n']},cmds={len(c['events'])}"),
    Family("forge", IMPORTS, "ok_trace", "list Z * list trace_rec", gen_forge, impl_forge,
           encode_trace, oracle_states, lambda c, o: len(o["final"][0]["log"]) > 0, attribute,
           describe=lambda c: f"n={c['n']},inputs={len(c['inputs']) // 10 * 10}+"),
]

TRUSTED = [
    "translator harness/translate/py2coq.py + declared types (py2coq_targets.py RaftLogGen): consensus/log.py (Log.append/get/truncate_from/entries_after/"
    "last_index/last_term/advance_commit) is regenerated on every run and proved to refine the model's log functions (C11/GenTie.v); Python list "
    "indexing/slicing semantics are Base/PyLib.v py_index/py_slice; raft.py's handlers are NOT translated (model + correspondence)",
    "Coq 8.16.1 kernel (coqc, vm_compute for refutation witnesses and case evaluation); no native_compute",
    "axioms: none (every theorem of C11/Props.v is 'Closed under the global context')",
    "correspondence harness harness/props/c11.py (generators, observers, in-Coq comparison ok_net / ok_trace of C11/Model.v)",
    "model choices: node names are 0..4, commands are integers (recording KV state machine), log index = position, "
    "timers are outputs only (the cluster model lets a timeout or heartbeat fire at any moment)",
]

COQ_FILES = ["C11/Model.v", "C11/NodeProofs.v", "C11/Election.v", "C11/Refute.v", "C11/LogProofs.v", "C11/LogMatching.v", "C11/Progress.v",
         "C11/Steps.v", "C11/Ghost.v", "C11/LC.v", "C11/Stab.v", "C11/Step.v", "C11/Step2.v", "C11/Completeness.v", "C11/Progress2.v", "C11/Liveness.v",
         "Base/PyLib.v", "Gen/RaftLogGen.v", "C11/GenTie.v", "C11/CommitTie.v", "C11/Props.v"]


# --------------------------------------------------------------------------- small-scope exhaustive exploration (search only)
def _state_checks(st):
    """Stateless forms of the safety clauses on one global state (list of node observations)."""
    out = []
    lead = [(s["term"], i) for i, s in enumerate(st) if s["role"] == 2]
    if len({t for t, _ in lead}) < len(lead):
        out.append("at most one leader per term")
    for i in range(len(st)):
        for j in range(i + 1, len(st)):
            a, b = st[i]["log"], st[j]["log"]
            same = [p for p in range(min(len(a), len(b))) if a[p][0] == b[p][0]]
            if same and a[:same[-1] + 1] != b[:same[-1] + 1]:
                out.append("logs with the same (index, term) entry are identical up to it")
            ca, cb = st[i]["applied"], st[j]["applied"]
            k = min(len(ca), len(cb))
            if ca[:k] != cb[:k]:
                out.append("no two nodes apply different commands at the same index")
    for s in st:
        c = min(s["commit"], len(s["log"]))
        for l in st:
            if l["role"] == 2 and l["term"] > s["term"] and l["log"][:c] != s["log"][:c]:
                out.append("a committed entry is in the log of every later leader")
        ap = s["applied"]
        if [a[0] for a in ap] != list(range(1, len(ap) + 1)):
            out.append("each node applies indices in order without gaps")
    return out


def exhaustive(ctx, depth, max_timeouts=3, max_heartbeats=2, max_submits=1):
    """Every schedule of at most `depth` actions of a 3-node cluster (deliver any in-flight message,
    time out any node, heartbeat / submit at any leader), breadth first with state hashing, on the real
    RaftNode objects.  Drops are omitted: an undelivered message is a dropped one.  Search only."""
    import copy

    def key(cl, cnt):
        st = cl.snapshot()
        return json.dumps([[(s["term"], s["voted"], s["role"], s["log"], s["commit"], s["next"], s["match"], s["votes"], s["applied"])
                            for s in st], sorted(json.dumps(m) for m in cl.bag), cnt])

    root = Cluster(3)
    seen = {key(root, (0, 0, 0))}
    frontier = [(root, (0, 0, 0), [])]
    for _d in range(depth):
        nxt = []
        for cl, cnt, path in frontier:
            acts = [["D", k] for k in range(len(cl.bag))]
            if cnt[0] < max_timeouts:
                acts += [["T", i] for i in range(3)]
            if cnt[1] < max_heartbeats:
                acts += [["H", i] for i, nd in enumerate(cl.nodes) if nd.is_leader]
            if cnt[2] < max_submits:
                acts += [["S", i, 10 * (cnt[2] + 1) + i] for i, nd in enumerate(cl.nodes) if nd.is_leader]
            for a in acts:
                c2 = copy.deepcopy(cl)
                c2.act(a)
                n2 = (cnt[0] + (a[0] == "T"), cnt[1] + (a[0] == "H"), cnt[2] + (a[0] == "S"))
                k = key(c2, n2)
                if k in seen:
                    continue
                seen.add(k)
                bad = _state_checks(c2.snapshot())
                if bad:
                    case = dict(n=3, steps=[["A", x] for x in path + [a]], style="exhaustive")
                    obs = impl_drive(case)
                    fails = [f for f in oracle_states(case, obs) if not attribute(case, obs, f)] or [dict(clause=bad[0])]
                    ctx.violation("oracle", dict(family="drive", case=case, obs=dict(final=obs["final"]), failure=fails[0],
                                                 found_by=f"exhaustive exploration, depth {len(path) + 1}"))
                    return len(seen)
                nxt.append((c2, n2, path + [a]))
        frontier = nxt
    return len(seen)


class SmallShards:
    """ctx proxy: same in-Coq evaluation, but in small shards (a trace case is 20-60 kB of Gallina;
    coqc's time is dominated by reading the literal, so many small files in parallel are faster)."""

    def __init__(self, ctx, shard):
        self._ctx, self._shard = ctx, shard

    def __getattr__(self, k):
        return getattr(self._ctx, k)

    def coq_cases(self, tag, imports, ok_fn, case_type, cases):
        from hsverif import coq
        return coq.eval_cases(f"{self._ctx.pid}_{tag}", imports, ok_fn, case_type, cases, shard=self._shard, workers=12)


def run(ctx):
    from props import pygen
    ok, info = pygen.regenerate("RaftLogGen")       # consensus/log.py translated from $HS_REPO by py2coq
    ctx.coverage["regenerated"] = info
    ctx.prove(COQ_FILES, allowed_axioms=(), trusted_base=TRUSTED)
    if not ok and ctx.pending_obligation_violation:
        ctx.pending_obligation_violation["translator"] = info.get("error")
    stats = []
    for fam, k, shard in zip(FAMILIES, [ctx.n(300, 2000), ctx.n(32, 160), ctx.n(12, 60), ctx.n(150, 1000)], [100, 8, 6, 75]):
        fam.parallel = not ctx.quick          # the quick tier's implementation runs take ~2 s in total
        stats.append(run_family(SmallShards(ctx, shard), fam, k))
        ctx.log(f"family {fam.name}: {stats[-1]['cases']} cases, mismatches={stats[-1]['mismatches']}, "
                f"oracle failures={stats[-1]['oracle_failures']} (known {stats[-1]['known']}), non-trivial={stats[-1]['distinct_nontrivial']}")
    depth = ctx.n(7, 8)
    nstates = exhaustive(ctx, depth)
    ctx.log(f"exhaustive exploration: 3 nodes, every schedule of <= {depth} actions, {nstates} distinct states")
    ctx.notes.append(f"small-scope exhaustive exploration on the implementation (search only, not an obligation): 3 nodes, <= {depth} actions, "
                     f"<= 3 timeouts / 2 heartbeats / 1 submit, {nstates} distinct states, safety clauses checked in every state")
    merge_stats(ctx, stats, "direct-drive schedules (deliver/drop/timeout/heartbeat/submit/crash over 3-5 nodes) and real Simulations "
                            "with bimodal latency, loss, partitions, crashes; non-trivial = a leader exists and an entry was committed "
                            "(drive), a second term was reached and an entry committed (sim), a command applied (healthy), the log is non-empty (forge: forged/malformed message streams to one node); distinct by JSON of the input")
    ctx.finish_obligations()
    ctx.assumptions += [
        "cluster-level log matching, leader completeness and state-machine safety (the …_statement definitions of C11/LogProofs.v) are PROVED for "
        "every cluster and schedule of the cluster model (c11_log_matching, c11_leader_completeness, c11_state_machine_safety); the same "
        "statements are also evaluated by the oracle on the implementation after every event of every explored schedule",
        "the submit-future clause is refuted on the faithful model (c11_submit_future_refuted), known finding C11-future-keyed-by-index; "
        "what holds is the last conjunct of c11_apply_in_order",
        "liveness clause (healthy network => every command applied everywhere in submission order): proved for in-sync clusters of any size "
        "under the canonical in-order delivery schedule (c11_liveness_*_partial) and hop by hop for every node state; for arbitrary delivery "
        "orders and real timing it is checked by the oracle on the 'healthy' family (real Simulation)",
        "timers are not part of the model state: the cluster model lets ATimeout/AHeartbeat fire at any moment (over-approximation of every "
        "timeout draw, crash and restart); the sim family checks that the real handlers return the timer events the model predicts",
    ]


def replay(data):
    fam = {f.name: f for f in FAMILIES}[data["detail"]["family"]]
    c = data["detail"]["case"]
    obs = fam.impl(c)
    fails = fam.oracle(c, obs)
    print("final states:", json.dumps(obs.get("final"), default=str)[:3000])
    print("oracle failures:", fails)
    return 1 if fails else 0
