"""C02 — generator processes and futures resume at the right instant, with the
right value, once.

Tie: the same scripted simulations as C01, generated with a bias towards
generator handlers, the three yield forms in any order and nesting (yield
from), float delays (0, 1e-9, 2.9e-7, 0.29 ...), futures resolved before / at /
after the instant they are yielded, nested any_of/all_of; compared with
coq/Engine/Script.v inside Coq.  Oracle: an independent reading of the C02
statement evaluated on the implementation's own logs (resume instants and
values recomputed from the harness' record of resolve calls).
"""
from __future__ import annotations

from hsverif.family import Family, merge_stats, run_family
from props import engine_script as es

LEVEL = "proof"
FILES = ["Engine/Engine.v", "Engine/Script.v", "Engine/EngineProofs.v", "Engine/ScriptProofs.v", "C02/Process.v", "C02/Combinators.v", "C02/Props.v"]
INF = 10 ** 18


def gen_shared(rng):
    """Directed shape: ONE pending future is yielded directly by one process and is at the same time an input of
    an any_of / all_of (possibly nested) another process waits on; both are registered (in either order)
    before a third event resolves the futures one after the other."""
    e = lambda dt, tgt, typ: dict(dt=dt, target=tgt, type=typ, daemon=False, label=-1, hooks=[])  # noqa: E731
    comb = rng.choice(["any", "all"])
    inner = [["f", 0], ["f", 1]]
    if rng.random() < 0.4:
        inner = [["f", 2], [rng.choice(["any", "all"]), [["f", 0], ["f", 1]]]]
    fe = [comb, inner if rng.random() < 0.5 else list(reversed(inner))]
    d1, d2 = rng.choice([(0, 1000), (1000, 0), (5, 5)])
    direct = ["gen", [["yield", d1 / 1e9, d1, [], "list"], ["wait", ["f", 0]]], [e(0, 2, 0)]]
    combo = ["gen", [["yield", d2 / 1e9, d2, [], "list"], ["wait", fe]], [e(0, 2, 0)]]
    order = rng.sample([0, 1, 2], 3)
    resolver = ["imm", [["eff", ["resolve", f, 10 + f]] for f in order]]
    if rng.random() < 0.5:       # resolve in two instalments
        resolver = ["imm", [["eff", ["resolve", order[0], 10 + order[0]]], ["emit", e(1000, 2, 2)]]]
    prog = [{0: direct}, {0: combo}, {0: ["imm", []], 1: resolver, 2: ["imm", [["eff", ["resolve", f, 20 + f]] for f in order[1:]]]}]
    pre = [dict(time=0, emit=e(0, 0, 0), cancel=False), dict(time=0, emit=e(0, 1, 0), cancel=False),
           dict(time=rng.choice([2000, 5000]), emit=e(0, 2, 1), cancel=False)]
    if rng.random() < 0.5:
        pre[0], pre[1] = pre[1], pre[0]
    return dict(prog=prog, pre=pre, start=0, end=None, fuel=150, pre_mode="single", pre_order=[0, 1, 2], ctor="end_time")


def gen(rng):
    if rng.random() < 0.2:
        return gen_shared(rng)
    for _ in range(50):
        c = es.gen_script(rng, futures=True, max_pre=8)
        if any(b[0] == "gen" for t in c["prog"] for b in t.values()):
            return c
    return c


def impl(c):
    return es.run_script(c)


def flat(steps):
    out = []
    for s in steps:
        if s[0] == "sub":
            out.extend(flat(s[1]))
        else:
            out.append(s)
    return out


def settle(fe, T0, first, tick_time):
    """Independent semantics of a future expression built at tick T0.
    Returns a list of admissible (tick, value_json) outcomes (several on exact ties)."""
    if fe[0] == "f":
        r = first.get(fe[1])
        if r is None:
            return [(INF, None)]
        return [(max(r[0], T0), ["int", r[1]])]
    subs = [settle(x, T0, first, tick_time) for x in fe[1]]
    if fe[0] == "any":
        best = min(min(t for t, _ in alts) for alts in subs)
        if best >= INF:
            return [(INF, None)]
        out = []
        for i, alts in enumerate(subs):
            for t, v in alts:
                if t == best:
                    out.append((t, ["pair", i, v]))
        return out
    # all
    import itertools
    out = []
    for combo in itertools.islice(itertools.product(*subs), 64):
        t = max(x[0] for x in combo)
        if t >= INF:
            out.append((INF, None))
        else:
            out.append((t, ["list", [x[1] for x in combo]]))
    return out


def oracle(c, o):
    if o["status"] in (1, 3):
        return [] if o["status"] == 1 else [dict(clause="run exceeded the wall-clock limit")]
    ulog, rlog = o["ulog"], o["rlog"]
    # first resolve of each future: tick, value, time
    first, tick_time = {}, {}
    for r in rlog:
        tick_time[r[1]] = r[2]
        if r[0] == "resolve" and r[3] not in first:
            first[r[3]] = (r[1], r[4])
    # which process runs which steps
    pid_steps = {}
    handles = [u for u in ulog if u[0] == "handle"]
    # pids are allocated in handle order for generator behaviours
    pid = 0
    for h in handles:
        table = c["prog"][h[2]]
        beh = table.get(h[3]) or table.get(str(h[3]))
        if beh is not None and beh[0] == "gen":
            pid_steps[pid] = [s for s in flat(beh[1]) if s[0] in ("yield", "wait")]
            pid += 1
    resumes = {}
    for u in ulog:
        if u[0] == "resume":
            resumes.setdefault(u[2], []).append(u)
    waits = {}
    for r in rlog:
        if r[0] == "wait":
            waits.setdefault(r[3], []).append(r)
    finished = {u[2]: u[1] for u in ulog if u[0] == "finish"}
    for pid, rs in resumes.items():
        steps = pid_steps.get(pid)
        if steps is None:
            return [dict(clause="a process step ran for an unknown process", pid=pid)]
        if len(rs) > 1 + len(steps):
            return [dict(clause="a process was resumed more often than it yielded (resumed exactly once per yield)", pid=pid, resumes=rs)]
        wi = 0
        for k in range(1, len(rs)):
            s, prev, cur = steps[k - 1], rs[k - 1], rs[k]
            if s[0] == "yield":
                if cur[1] != prev[1] + s[2] or cur[3] != ["none"]:
                    return [dict(clause="after yielding a delay d the process resumes exactly d later", pid=pid, step=s[:3],
                                 yielded_at=prev[1], resumed_at=cur[1], value=cur[3])]
            else:
                w = waits[pid][wi]
                wi += 1
                alts = settle(w[4], w[1], first, tick_time)
                ok = False
                for t, v in alts:
                    if t >= INF:
                        continue
                    when = w[2] if t <= w[1] else tick_time[t]
                    if cur[1] == when and cur[3] == v:
                        ok = True
                if not ok:
                    return [dict(clause="a process that yields a future resumes at the instant it is resolved (at once if it already was) with the resolved value; any_of -> (index, value) of the first, all_of -> all values in order",
                                 pid=pid, fexpr=w[4], parked_at=w[2], resumed_at=cur[1], value=cur[3],
                                 admissible=[(tick_time.get(t), v) for t, v in alts if t < INF])]
        # a parked process whose future settled must have been resumed (when the run completed normally)
        if o["status"] == 0 and len(rs) - 1 < len(steps) and pid not in finished:
            s = steps[len(rs) - 1]
            if s[0] == "wait":
                w = waits[pid][-1]
                alts = settle(w[4], w[1], first, tick_time)
                if all(t < INF for t, _ in alts) and c["end"] is not None and max(tick_time[t] if t > w[1] else w[2] for t, _ in alts) <= c["end"]:
                    return [dict(clause="a process parked on a future is resumed when the future is resolved", pid=pid, fexpr=w[4])]
    # completion hooks: at most once each, at the instant the owner finishes
    seen = set()
    deliveries = {p[6]: p[0] for p in o["pops"] if p[4] == "delivered" and p[6] is not None}
    ev_pid = {v: int(k) for k, v in o["pid_event"].items() if v is not None}
    for u in ulog:
        if u[0] != "hook":
            continue
        key = (u[2], u[3])
        if key in seen:
            return [dict(clause="completion hooks take effect exactly once", hook=u)]
        seen.add(key)
        owner = o["hid_owner"].get(str(u[2]))
        if owner is None:
            continue
        if owner in ev_pid:
            want = finished.get(ev_pid[owner])
        else:
            want = deliveries.get(owner)
        if want is not None and u[1] != want:
            return [dict(clause="completion hooks run at the instant the event/process finishes", hook=u, finish=want)]
    # ... and exactly once means at least once: every hook of an event whose handling finished has run
    if o["status"] == 0:
        crashed_targets = '"crash"' in __import__("json").dumps(c["prog"])
        for hid, owner in o["hid_owner"].items():
            if owner is None or crashed_targets:
                continue
            done = finished.get(ev_pid[owner]) if owner in ev_pid else deliveries.get(owner)
            if done is None:
                continue
            ran = sum(1 for u in ulog if u[0] == "hook" and str(u[2]) == hid)
            if ran != o["hid_count"].get(hid, ran):
                return [dict(clause="completion hooks take effect exactly once, at the instant the event/process finishes (a hook never ran)",
                             hook_list=hid, owner_event_seq=owner, finished_at=done, hooks=o["hid_count"].get(hid), ran=ran)]
    return []


FAM = Family("process", es.IMPORTS, "ok_run", es.CASE_TYPE, gen, impl, es.enc_case, oracle,
             nontrivial=lambda c, o: sum(1 for u in o["ulog"] if u[0] == "resume") >= 3, parallel=True,
             describe=lambda c: f"end={'none' if c['end'] is None else 'finite'}")

# --------------------------------------------------------------------------- late hooks (oracle only)
def gen_late(rng):
    """A process started by an event that carries NO completion hook (or an empty hook list) when its
    generator starts; hooks are attached to that event afterwards — by the process itself after a
    yield, or by another entity while the process is delayed or parked on a future."""
    delays = [rng.choice([0, 1, 1000, 250_000_000, 1_000_000_000]) for _ in range(rng.randint(1, 3))]
    total = sum(delays)
    attach = []
    for _ in range(rng.randint(1, 3)):
        who = rng.choice(["self", "other"])
        if who == "self":
            attach.append(["self", rng.randrange(len(delays))])            # after the i-th yield
        else:
            attach.append(["other", rng.choice([0, total // 2, max(total - 1, 0), total])])   # at that instant
    return dict(delays=delays, attach=attach, initial=rng.choice(["none", "empty"]), park=rng.random() < 0.3,
                hook_dt=rng.choice([0, 1, 500_000_000]))


def impl_late(c):
    from happysimulator.core.entity import Entity
    from happysimulator.core.event import Event
    from happysimulator.core.sim_future import SimFuture
    from happysimulator.core.simulation import Simulation
    from happysimulator.core.temporal import Duration, Instant
    from hsverif.util import Timeout, time_limit
    log = []
    fut = [None]
    total = sum(c["delays"])

    class Sink(Entity):
        def handle_event(self, event):
            log.append(["hookevent", self.now.nanoseconds, event.event_type])
            return None

    sink = Sink("sink")

    def mk_hook(tag):
        def hook(t):
            log.append(["hook", t.nanoseconds, tag])
            return [Event(time=t + Duration(c["hook_dt"]), event_type=f"h{tag}", target=sink)]
        return hook

    class Proc(Entity):
        def handle_event(self, event):
            for i, d in enumerate(c["delays"]):
                yield Duration(d).to_seconds() if d % 1000 == 0 and d >= 1000 else Duration(d)
                for tag, a in enumerate(c["attach"]):
                    if a[0] == "self" and a[1] == i:
                        event.add_completion_hook(mk_hook(tag))
            if c["park"]:
                fut[0] = SimFuture()
                yield fut[0]
            log.append(["finish", self.now.nanoseconds])
            return None

    class Other(Entity):
        def handle_event(self, event):
            tag = event.context["tag"]
            if tag == "resolve":
                if fut[0] is not None:
                    fut[0].resolve(1)
                return None
            e0.add_completion_hook(mk_hook(tag))
            log.append(["attached", self.now.nanoseconds, tag])
            return None

    proc, other = Proc("proc"), Other("other")
    e0 = Event(time=Instant(0), event_type="start", target=proc, on_complete=None if c["initial"] == "none" else [])
    sim = Simulation(entities=[proc, other, sink], end_time=Instant(total + 5_000_000_000))
    sim.schedule(e0)
    for tag, a in enumerate(c["attach"]):
        if a[0] == "other":
            sim.schedule(Event(time=Instant(a[1]), event_type="attach", target=other, context={"tag": tag}))
    sim.schedule(Event(time=Instant(total + 1_000_000_000), event_type="attach", target=other, context={"tag": "resolve"}))
    try:
        with time_limit(20):
            sim.run()
    except Timeout:
        return dict(log=log, status=3)
    return dict(log=log, status=0)


def oracle_late(c, o):
    if o["status"] == 3:
        return [dict(clause="run exceeded the time limit")]
    log = o["log"]
    fin = [x[1] for x in log if x[0] == "finish"]
    if len(fin) != 1:
        return [dict(clause="the process finishes exactly once", log=log[:12])]
    total = sum(c["delays"])
    # hooks attached strictly before the process finished (at the same instant: other's event is created
    # before the continuation that finishes the process, so it is delivered first) must run once, at finish
    expected = []
    for tag, a in enumerate(c["attach"]):
        if a[0] == "self":
            if len(a) == 2 and a[1] < len(c["delays"]):      # (shrunk cases may carry attachments that never happen)
                expected.append(tag)
        elif any(x[0] == "attached" and x[2] == tag and (x[1] < fin[0] or log.index(x) < log.index(["finish", fin[0]])) for x in log):
            expected.append(tag)
    ran = [x for x in log if x[0] == "hook"]
    out = []
    for tag in expected:
        mine = [x for x in ran if x[2] == tag]
        if len(mine) != 1 or mine[0][1] != fin[0]:
            out.append(dict(clause="a completion hook attached to an event while its process is still running runs exactly once, when the process finishes",
                            tag=tag, attach=c["attach"][tag], ran=mine, finish=fin[0], initial=c["initial"]))
            break
        evs = [x for x in log if x[0] == "hookevent" and x[2] == f"h{tag}"]
        if len(evs) != 1 or evs[0][1] != fin[0] + c["hook_dt"]:
            out.append(dict(clause="the events a completion hook returns are scheduled once, relative to the finish instant", tag=tag, delivered=evs))
            break
    return out


FAM_LATE = Family("late_hooks", "", "", "", gen_late, impl_late, lambda c, o: "", oracle_late,
                  nontrivial=lambda c, o: any(x[0] == "hook" for x in o["log"]), describe=lambda c: c["initial"])


# --------------------------------------------------------------------------- pre-built events handed out by a process; reset + re-run (oracle only)
def gen_handout(rng):
    k = rng.randint(2, 8)
    order = list(range(k))
    how = rng.choice(["creation", "reversed", "shuffled", "shuffled"])
    if how == "reversed":
        order.reverse()
    elif how == "shuffled":
        rng.shuffle(order)
    step = rng.choice([250_000_000, 500_000_000, 1_000_000_000])
    return dict(k=k, order=order, step=step, deadline=[(k + 5 + j) * step + rng.choice([0, 1, 7]) for j in range(k)],
                resolve_at=rng.choice([1, 2, 3]) * step + rng.choice([0, 3]), rerun=rng.random() < 0.6,
                stop_first_at=rng.choice([None, None, (k + 3) * step + 11]), built=rng.choice(["first", "last", "last"]))


def impl_handout(c):
    """A process arms k timer events that were BUILT BEFORE the run (one per `yield delay, [event]`, in a chosen
    order), then parks on a future created inside the handler and resolved by another entity.  Optionally the
    simulation is reset and run a second time (the first run possibly stopped early by its horizon)."""
    from happysimulator.core.entity import Entity
    from happysimulator.core.event import Event
    from happysimulator.core.sim_future import SimFuture
    from happysimulator.core.simulation import Simulation
    from happysimulator.core.temporal import Instant
    from hsverif.util import Timeout, time_limit
    log = []
    box = {}

    class Sink(Entity):
        def handle_event(self, event):
            log.append(["timer", self.now.nanoseconds, event.context["j"]])
            return None

    class Proc(Entity):
        def handle_event(self, event):
            if event.event_type == "resolve":
                if box.get("fut") is not None:
                    box["fut"].resolve(41)
                return None
            log.append(["start", self.now.nanoseconds])
            box["fut"] = SimFuture()
            v = yield box["fut"]
            log.append(["resumed", self.now.nanoseconds, v])
            for j in c["order"]:
                yield c["step"] / 1e9, [box["timers"][j]]
                log.append(["armed", self.now.nanoseconds, j])
            log.append(["finish", self.now.nanoseconds])
            return None

    sink, proc = Sink("sink"), Proc("proc")
    horizon = max(c["deadline"]) + 5 * c["step"]

    def arm_world(sim):
        early = c.get("built") == "first"
        if early:
            box["timers"] = [Event(time=Instant(t), event_type="deadline", target=sink, context={"j": j}) for j, t in enumerate(c["deadline"])]
        sim.schedule(Event(time=Instant(0), event_type="go", target=proc))
        sim.schedule(Event(time=Instant(c["resolve_at"]), event_type="resolve", target=proc))
        if not early:
            # built after everything that is scheduled up front, but before the run: their creation indices lie
            # above every index the heap has seen when the run starts handing out its own
            box["timers"] = [Event(time=Instant(t), event_type="deadline", target=sink, context={"j": j}) for j, t in enumerate(c["deadline"])]

    runs = []
    try:
        with time_limit(30):
            first_end = c["stop_first_at"] if (c["rerun"] and c["stop_first_at"]) else horizon
            sim = Simulation(entities=[proc, sink], end_time=Instant(horizon))
            arm_world(sim)
            if first_end != horizon:
                from happysimulator.core.control.breakpoints import TimeBreakpoint
                sim.control.add_breakpoint(TimeBreakpoint(time=Instant(first_end)))
            sim.run()
            runs.append(list(log))
            if c["rerun"]:
                del log[:]
                sim.control.reset()
                box["fut"] = None
                arm_world(sim)
                sim.run()
                if sim.control.is_paused:
                    sim.control.resume()
                runs.append(list(log))
    except Timeout:
        return dict(status=3, runs=runs)
    return dict(status=0, runs=runs)


def oracle_handout(c, o):
    if o["status"] == 3:
        return [dict(clause="run exceeded the time limit")]
    full = [o["runs"][-1]] if (c["rerun"] and c["stop_first_at"]) else o["runs"]
    for n, log in enumerate(full):
        which = "re-run after reset()" if (c["rerun"] and log is o["runs"][-1]) else "run"
        res = [x for x in log if x[0] == "resumed"]
        if len(res) != 1 or res[0][1] != c["resolve_at"] or res[0][2] != 41:
            return [dict(clause="a process parked on a future is resumed when the future is resolved, at that instant, with the resolved value",
                         which=which, resumed=res, resolve_at=c["resolve_at"])]
        t = c["resolve_at"]
        for x, j in zip([x for x in log if x[0] == "armed"], c["order"]):
            t += c["step"]
            if x[1] != t or x[2] != j:
                return [dict(clause="after yielding a delay d the process resumes exactly d later", which=which, got=x, expected=[t, j])]
        if len([x for x in log if x[0] == "armed"]) != c["k"] or not any(x[0] == "finish" for x in log):
            return [dict(clause="a process that yields a delay is resumed (every step of the generator runs, the process finishes)",
                         which=which, armed=[x[2] for x in log if x[0] == "armed"], order=c["order"])]
        timers = sorted([x[1], x[2]] for x in log if x[0] == "timer")
        if timers != sorted([t, j] for j, t in enumerate(c["deadline"])):
            return [dict(clause="events yielded as side effects are scheduled: each is delivered exactly once at its own time",
                         which=which, delivered=timers, expected=sorted([t, j] for j, t in enumerate(c["deadline"])))]
    return []


FAM_HANDOUT = Family("handout", "", "", "", gen_handout, impl_handout, lambda c, o: "", oracle_handout,
                     nontrivial=lambda c, o: c["order"] != sorted(c["order"]) or c["rerun"], describe=lambda c: "rerun" if c["rerun"] else "single")


from hsverif.family import run_oracle_only  # noqa: E402


TRUSTED = [
    "Coq 8.16.1 kernel, vm_compute for case evaluation; no native_compute; no axioms",
    "Python generator protocol (send/StopIteration/yield from): scripts are inlined step lists in the model",
    "float seconds -> ns conversion int(d*1e9) (Instant.__add__) computed by the harness",
    "harness/props/engine_script.py (script generator, real-Entity interpreter, observers, encoder)",
]


def run(ctx):
    ctx.prove(FILES, allowed_axioms=(), trusted_base=TRUSTED)
    stats = [run_family(ctx, FAM, ctx.n(500, 10000))]
    merge_stats(ctx, stats, "random scripts with at least one generator handler: three yield forms, yield from, float delays, futures resolved before/at/after the park, nested any_of/all_of, double resolve, double park; non-trivial = >=3 process steps; distinct by JSON")
    ctx.coverage["oracle_only_families"] = [run_oracle_only(ctx, FAM_LATE, ctx.n(150, 1500)),
                                            run_oracle_only(ctx, FAM_HANDOUT, ctx.n(120, 1200))]
    ctx.assumptions.append("events built before the run and handed out by a process in an arbitrary order, futures created per run, and reset() + re-run (handout family) are checked by the implementation-side oracle only")
    ctx.assumptions.append("completion hooks attached AFTER the process has started (late_hooks family) are checked by the implementation-side oracle only; the Coq interpreter attaches hooks at event creation")
    ctx.assumptions.append("any_of/all_of whole-combinator statements are proved as one-step callback semantics only (c02_*_partial); nesting is covered by the correspondence and the oracle")
    ctx.finish_obligations()


def replay(data):
    c = data["detail"]["case"]
    if data["detail"].get("family") == "late_hooks":
        o = impl_late(c)
        f = oracle_late(c, o)
        print("log:", o["log"])
        print("oracle failures:", f)
        return 1 if f else 0
    if data["detail"].get("family") == "handout":
        o = impl_handout(c)
        f = oracle_handout(c, o)
        print("runs:", o["runs"])
        print("oracle failures:", f)
        return 1 if f else 0
    o = impl(c)
    f = oracle(c, o)
    print("ulog:", o["ulog"])
    print("rlog:", o["rlog"])
    print("oracle failures:", f)
    return 1 if f else 0
