"""C19 — messaging: MessageQueue (+DeadLetterQueue), Topic, EventLog, ConsumerGroup.

Tie to /repo: every generated scenario is executed in a real `Simulation`
(queue / topic / log / group entities of /repo, scripted consumer and driver
entities of this file).  The component under test is instrumented *on the
instance* (no source hooks): every call of its public operations and every
segment of its generator methods (up to a yield / after a yield) is recorded
with its inputs, its outputs and a snapshot of the component's state after it.
The recorded trace is replayed through the Gallina step machine of
coq/C19/Model.v inside Coq (ok_* functions, vm_compute); outputs and state must
agree after every step.  The property oracle evaluates the C19 statement on the
implementation's observations alone (what consumer entities actually received
through the engine, the snapshots), independent of the model.

Private attributes read (no public accessor): MessageQueue._pending_queue,
_in_flight, _messages, _consumers, _consumer_index, _redelivery_scheduled;
Topic._subscriptions; EventLog._partitions; ConsumerGroup._committed_offsets,
StickyAssignment._previous.
"""
from __future__ import annotations

import logging

from hsverif import coq
from hsverif.coq import Ctor, Raw, SomeV, term
from hsverif.family import Family, merge_stats, run_family

IMPORTS = "From HS Require Import Base.Prelude C19.Model."
IMPORTS_S = "From HS Require Import Base.Prelude C19.Model C19.StreamModel."
IMPORTS_O = "From HS Require Import Base.Prelude C19.Model C19.OutboxModel."
IMPORTS_T = "From HS Require Import Base.Prelude C19.Model C19.TopicModel."
LEVEL = "proof"
UNIT_NS = 15_625_000          # 1/64 s: every scripted delay is a multiple (exact in binary floating point)
UNIT_S = 1.0 / 64.0


def opt(v):
    return None if v is None else SomeV(v)


# =========================================================================== MessageQueue
STATE_IDX = {"pending": 0, "delivered": 1, "acknowledged": 2, "rejected": 3}

REACTIONS = ["ack", "rej", "vis", "vis_ack", "vis_rej", "ignore"]


def gen_mq(rng):
    ncons = rng.choice([0, 1, 1, 2, 2, 3])
    cfg = dict(
        max=rng.choice([0, 1, 1, 2, 2, 3]),
        cap=rng.choice([None, None, None, 1, 2, 4]),
        delay=rng.choice([1, 2, 4, 8]),
        latency=rng.choice([0, 1, 2, 2, 4]),
        dlq=rng.random() < 0.7,
        dlqcap=rng.choice([None, None, 0, 1, 2]),
    )
    cons = []
    for _ in range(ncons):
        rs = []
        for _ in range(rng.randint(1, 4)):
            k = rng.choice(REACTIONS)
            rs.append(dict(kind=k, d=rng.randint(0, 10), v=rng.randint(0, 6), requeue=rng.random() < 0.7,
                           repoll=rng.random() < 0.8))
        cons.append(rs)
    script = []
    t = 0
    npub = 0
    rogue = rng.random() < 0.25
    for _ in range(rng.randint(1, 22)):
        t += rng.choice([0, 0, 1, 1, 2, 3, 8])
        k = rng.random()
        if k < 0.4:
            script.append([t, "pub", rng.random() < 0.7])
            npub += 1
        elif k < 0.65:
            script.append([t, "poll"])
        elif k < 0.72:
            script.append([t, "dpoll"])
        elif k < 0.80 and ncons:
            script.append([t, rng.choice(["sub", "unsub"]), rng.randrange(ncons)])
        elif rogue and npub:
            m = rng.randrange(npub + 1)
            a = rng.choice(["ack", "rej", "sched"])
            script.append([t, a, m] + ([rng.random() < 0.6] if a == "rej" else []))
        else:
            script.append([t, "poll"])
    if cfg["dlq"] and rng.random() < 0.08:
        script.insert(rng.randint(len(script) // 2, len(script)), [t + rng.randint(0, 30), "reprocess"])
        script.sort(key=lambda a: a[0])
        t = script[-1][0]
    # a few trailing polls so that requeued / timed-out messages get another chance
    for _ in range(rng.randint(0, 6)):
        t += rng.choice([1, 2, 4, 8, 16])
        script.append([t, "poll"])
    return dict(cfg=cfg, cons=cons, script=script, subscribe_all=rng.random() < 0.8)


class _MQTracer:
    """Instruments one MessageQueue instance and records (op, outputs, snapshot) entries."""

    def __init__(self, q, dlq, cons_index):
        self.q, self.dlq, self.cons_index = q, dlq, cons_index
        self.ids = {}          # uuid -> creation index
        self.objs = []         # Message objects by creation index
        self.trace = []        # dicts: op, outs, snap, t
        self.received = []     # consumer receipts, interleaved by sequence number
        self.kind = None
        self.hcount = 0
        self.dlq_discarded_ids = []
        self._wrap()

    # -- helpers
    def mid(self, uuid):
        return self.ids.get(uuid, -1) if not isinstance(uuid, int) else uuid

    def now(self):
        return self.q._clock.now.nanoseconds if self.q._clock else 0

    def snap(self):
        q = self.q
        for u, m in q._messages.items():
            if u not in self.ids:
                self.ids[u] = len(self.objs)
                self.objs.append(m)
        objs = [[m.delivery_count, STATE_IDX[m.state.value], self.cons_index.get(getattr(m.consumer, "name", None), -1)]
                for m in self.objs]
        dead = [self.ids.get(m.id, -1) for m in self.dlq.messages] if self.dlq is not None else []
        st = q.stats
        ctr = [st.messages_published, st.messages_delivered, st.messages_acknowledged, st.messages_rejected,
               st.messages_redelivered, st.messages_dead_lettered,
               self.dlq.stats.messages_discarded if self.dlq is not None else 0]
        return dict(pending=[self.ids.get(u, -1) for u in q._pending_queue],
                    inflight=[self.ids.get(u, -1) for u in q._in_flight],
                    msgs=[self.ids.get(u, -1) for u in q._messages],
                    resched=sorted(self.ids.get(u, -1) for u in q._redelivery_scheduled),
                    cons=[self.cons_index[c.name] for c in q._consumers], cidx=q._consumer_index,
                    objs=objs, dead=dead, ctr=ctr)

    def rec(self, op, outs):
        self.trace.append(dict(op=op, outs=outs, snap=self.snap(), t=self.now(), seq=len(self.trace) + len(self.received)))

    def on_receive(self, cname, ev):
        self.received.append(dict(c=self.cons_index[cname], mid=self.mid(ev.context.get("message_id")),
                                  count=ev.context.get("delivery_count"), t=self.now(), evt=ev.time.nanoseconds,
                                  seq=len(self.trace) + len(self.received)))

    # -- instrumentation
    def _wrap(self):
        q, T = self.q, self
        o_sub, o_unsub, o_ack, o_rej, o_sched = q.subscribe, q.unsubscribe, q.acknowledge, q.reject, q.schedule_redelivery
        o_pub, o_poll, o_dlv = q.publish, q.poll, q._deliver_message

        def subscribe(c):
            o_sub(c)
            T.rec(["Subscribe", T.cons_index[c.name]], [])

        def unsubscribe(c):
            o_unsub(c)
            T.rec(["Unsubscribe", T.cons_index[c.name]], [])

        def acknowledge(u):
            m = T.mid(u)
            o_ack(u)
            T.rec(["Ack", m], [])

        def reject(u, requeue=True):
            m = T.mid(u)
            if T.kind == "in-sched":        # schedule_redelivery -> reject: part of the Sched step
                return o_rej(u, requeue)
            o_rej(u, requeue)
            T.rec(["Reject", m, bool(requeue)], [])

        def schedule_redelivery(u):
            m = T.mid(u)
            prev, T.kind = T.kind, "in-sched"
            try:
                ev = o_sched(u)
            finally:
                T.kind = prev
            outs = [["ONone"]] if ev is None else [["ORedelivery", T.mid(ev.context["message_id"]), ev.time.nanoseconds]]
            T.rec(["Sched", m, T.now()], outs)
            return ev

        def publish(message):
            inner = o_pub(message)
            try:
                y = next(inner)
            except RuntimeError:
                T.rec(["Publish"], [["OFull"]])
                raise
            s = T.snap()   # registers the new id
            T.trace.append(dict(op=["Publish"], outs=[["OPublished", len(T.objs) - 1]], snap=s, t=T.now(),
                                seq=len(T.trace) + len(T.received)))
            sent = yield y
            try:
                inner.send(sent)
            except StopIteration as e:
                return e.value
            raise AssertionError("publish yielded twice")

        def deliver(u):
            T.hcount += 1
            h = T.hcount
            kind = T.kind if T.kind == "poll" else "redeliver"
            T.kind = None
            m = T.mid(u)
            op = ["PollBegin", h] if kind == "poll" else ["RedeliverBegin", h, m]
            inner = o_dlv(u)
            try:
                y = next(inner)
            except StopIteration as e:
                T.rec(op, [["ONone"]])
                return e.value
            T.rec(op, [["OSuspend"]])
            sent = yield y
            try:
                inner.send(sent)
            except StopIteration as e:
                ev = e.value
                if ev is None:
                    outs = [["ONone"]]
                else:
                    outs = [["ODelivery", T.cons_index[ev.target.name], T.mid(ev.context["message_id"]),
                             ev.context["delivery_count"], ev.time.nanoseconds]]
                T.rec(["DeliverEnd", h, T.now()], outs)
                return ev
            raise AssertionError("_deliver_message yielded twice")

        def poll():
            inner = o_poll()
            before = T.hcount
            T.kind = "poll"
            try:
                y = next(inner)
            except StopIteration as e:       # deliver returned None before its yield
                T.kind = None
                if T.hcount == before:
                    T.hcount += 1
                    T.rec(["PollBegin", T.hcount], [["ONone"]])
                return e.value
            T.kind = None
            if T.hcount == before:           # `yield 0.0; return None` branch
                T.hcount += 1
                T.rec(["PollBegin", T.hcount], [["ONone"]])
            while True:
                sent = yield y
                try:
                    y = inner.send(sent)
                except StopIteration as e:
                    return e.value

        if self.dlq is not None:
            o_reproc = self.dlq.reprocess_all

            def reprocess_all(target_queue):
                evs = o_reproc(target_queue)
                T.rec(["DlqReprocessAll"], [])
                return evs

            self.dlq.reprocess_all = reprocess_all

        q.subscribe, q.unsubscribe, q.acknowledge, q.reject = subscribe, unsubscribe, acknowledge, reject
        q.schedule_redelivery, q.publish, q._deliver_message, q.poll = schedule_redelivery, publish, deliver, poll


def impl_mq(c):
    logging.disable(logging.CRITICAL)
    from happysimulator.components.messaging import DeadLetterQueue, MessageQueue
    from happysimulator.core.entity import Entity
    from happysimulator.core.event import Event
    from happysimulator.core.simulation import Simulation
    from happysimulator.core.temporal import Instant

    cfg = c["cfg"]
    dlq = DeadLetterQueue("dlq", capacity=cfg["dlqcap"]) if cfg["dlq"] else None
    q = MessageQueue("q", delivery_latency=cfg["latency"] * UNIT_S, redelivery_delay=cfg["delay"] * UNIT_S,
                     max_redeliveries=cfg["max"], capacity=cfg["cap"], dead_letter_queue=dlq)
    names = [f"c{i}" for i in range(len(c["cons"]))]
    T = _MQTracer(q, dlq, {n: i for i, n in enumerate(names)})

    class Cons(Entity):
        def __init__(self, name, reactions):
            super().__init__(name)
            self.reactions, self.n = reactions, 0

        def handle_event(self, ev):
            if ev.event_type == "message_delivery":
                T.on_receive(self.name, ev)
                r = self.reactions[self.n % len(self.reactions)]
                self.n += 1
                u = ev.context["message_id"]
                k = r["kind"]
                out = []
                if k in ("ack", "vis_ack"):
                    out.append(Event(time=self.now + r["d"] * UNIT_S, event_type="do_ack", target=self, context={"u": u}))
                if k in ("rej", "vis_rej"):
                    out.append(Event(time=self.now + r["d"] * UNIT_S, event_type="do_rej", target=self,
                                     context={"u": u, "requeue": r["requeue"], "repoll": r["repoll"]}))
                if k in ("vis", "vis_ack", "vis_rej"):
                    out.append(Event(time=self.now + r["v"] * UNIT_S, event_type="do_vis", target=self, context={"u": u}))
                return out
            if ev.event_type == "do_ack":
                q.acknowledge(ev.context["u"])
                return []
            if ev.event_type == "do_rej":
                q.reject(ev.context["u"], requeue=ev.context["requeue"])
                return [Event(time=self.now, event_type="poll", target=q)] if ev.context["repoll"] else []
            if ev.event_type == "do_vis":
                r = q.schedule_redelivery(ev.context["u"])
                return [r] if r is not None else []
            return []

    consumers = [Cons(n, rs) for n, rs in zip(names, c["cons"])]

    class Driver(Entity):
        def handle_event(self, ev):
            a = ev.context["a"]
            k = a[1]
            if k == "pub":
                try:
                    yield from q.publish(Event(time=self.now, event_type="payload", target=self))
                except RuntimeError:
                    return []
                return [Event(time=self.now, event_type="poll", target=q)] if a[2] else []
            if k == "poll":
                return [Event(time=self.now, event_type="poll", target=q)]
            if k == "dpoll":
                ev2 = yield from q.poll()
                return [ev2] if ev2 is not None else []
            if k == "reprocess":
                return dlq.reprocess_all(q) if dlq is not None else []
            if k == "sub":
                q.subscribe(consumers[a[2]])
            elif k == "unsub":
                q.unsubscribe(consumers[a[2]])
            elif k in ("ack", "rej", "sched"):
                u = next((u for u, i in T.ids.items() if i == a[2]), f"unknown-{a[2]}")
                if k == "ack":
                    q.acknowledge(u)
                elif k == "rej":
                    q.reject(u, requeue=a[3])
                else:
                    r = q.schedule_redelivery(u)
                    return [r] if r is not None else []
            return []

    drv = Driver("drv")
    if c["subscribe_all"]:
        for x in consumers:
            q.subscribe(x)
    ents = [q, drv] + consumers + ([dlq] if dlq is not None else [])
    sim = Simulation(entities=ents, end_time=Instant(10 ** 12))
    for a in c["script"]:
        sim.schedule(Event(time=Instant(a[0] * UNIT_NS), event_type="act", target=drv, context={"a": a}))
    sim.run()
    return dict(trace=T.trace, received=T.received, final=T.snap())


_OUT = {"OPublished": "OPublished", "OFull": "OFull", "OSuspend": "OSuspend", "ONone": "ONone",
        "ODelivery": "ODelivery", "ORedelivery": "ORedelivery"}


def _snap_term(s, prev_objs):
    diffs = [(i, tuple(o)) for i, o in enumerate(s["objs"]) if i >= len(prev_objs) or prev_objs[i] != o]
    return ((s["pending"], s["inflight"], s["msgs"], s["resched"]), (s["cons"], s["cidx"]), diffs, s["dead"], s["ctr"])


def encode_mq(c, obs):
    cfg = c["cfg"]
    cfg_t = Ctor("Build_mqcfg", cfg["max"], opt(cfg["cap"]), cfg["delay"] * UNIT_NS, cfg["dlq"], opt(cfg["dlqcap"]))
    tr = []
    prev = []
    for e in obs["trace"]:
        tr.append((Ctor(e["op"][0], *e["op"][1:]), [Ctor(_OUT[o[0]], *o[1:]) for o in e["outs"]], _snap_term(e["snap"], prev)))
        prev = e["snap"]["objs"]
    return term((cfg_t, tr))


def oracle_mq(c, obs):
    """The MessageQueue clauses of C19, evaluated on the implementation's observations."""
    cfg = c["cfg"]
    fails = []
    tr, recv = obs["trace"], obs["received"]
    lat = cfg["latency"] * UNIT_NS

    # (1) accounting after every operation
    reprocessed = set()

    def accounting(s, where):
        lost_possible = cfg["dlq"] and cfg["dlqcap"] is not None and s["ctr"][6] > 0
        for i, (count, state, _cons) in enumerate(s["objs"]):
            p, f, m = s["pending"].count(i), s["inflight"].count(i), s["msgs"].count(i)
            term_ack = (state == 2)
            in_dead = s["dead"].count(i)
            if m:
                ok = (p + f == 1) and m == 1 and not in_dead and state in (0, 1)
            else:
                ok = (p + f == 0) and state in (2, 3)
                if ok and state == 3 and cfg["dlq"] and i in reprocessed and not in_dead:
                    return dict(clause="mq: every published message stays accounted for and is never lost",
                                mechanism="dlq-reprocess-ignored", where=where, message=i,
                                what="DeadLetterQueue.reprocess_all hands the queue 'republish' events that MessageQueue.handle_event ignores: the message leaves the DLQ and never re-enters the queue")
                if ok and state == 3 and cfg["dlq"]:
                    ok = in_dead == 1 or lost_possible
                if ok and state == 2:
                    ok = in_dead == 0
            if not ok:
                return dict(clause="mq: every published message is in exactly one of pending / in flight / acknowledged / dead-lettered",
                            where=where, message=i, pending=p, in_flight=f, stored=m, state=state, dead=in_dead,
                            acked=term_ack)
        return None
    prev_dead = []
    for k, e in enumerate(tr):
        if e["op"][0] == "DlqReprocessAll":
            reprocessed |= {i for i in prev_dead if i not in e["snap"]["dead"]}
        prev_dead = e["snap"]["dead"]
        bad = accounting(e["snap"], k)
        if bad:
            fails.append(bad)
            break

    # (2) every started delivery reaches the chosen (subscribed) consumer at the delivery instant
    begins = {}
    prev = None
    for k, e in enumerate(tr):
        op = e["op"]
        if op[0] in ("PollBegin", "RedeliverBegin") and e["outs"] == [["OSuspend"]]:
            s = e["snap"]
            mid = s["inflight"][-1] if op[0] == "PollBegin" else op[2]
            if op[0] == "PollBegin" and prev is not None and prev["pending"]:
                mid = prev["pending"][0]
            consumer = s["objs"][mid][2] if 0 <= mid < len(s["objs"]) else -1
            subscribed = prev["cons"] if prev is not None else []
            if consumer not in subscribed:
                fails.append(dict(clause="mq: a delivery goes to a subscribed consumer", step=k, consumer=consumer, subscribed=subscribed))
            begins[op[1]] = dict(mid=mid, cons=consumer, t=e["t"], step=k)
        if op[0] == "DeliverEnd":
            b = begins.pop(op[1], None)
            if b is None:
                fails.append(dict(clause="mq: delivery completion without a start", step=k))
            else:
                if e["t"] != b["t"] + lat:
                    fails.append(dict(clause="mq: delivery completes delivery_latency after it started", step=k, started=b["t"], ended=e["t"]))
                o = e["outs"][0]
                if o[0] == "ODelivery":
                    got = [r for r in recv if r["c"] == b["cons"] and r["mid"] == b["mid"] and r["t"] == e["t"] and r["seq"] > e["seq"]]
                    if o[1] != b["cons"] or o[2] != b["mid"] or not got:
                        fails.append(dict(clause="mq: every delivery reaches a subscribed consumer at the delivery instant",
                                          mechanism="delivery-event-not-received", step=k, message=b["mid"], consumer=b["cons"],
                                          event_time=o[4], clock=e["t"]))
                else:
                    if b["mid"] in e["snap"]["msgs"]:
                        fails.append(dict(clause="mq: every delivery reaches a subscribed consumer at the delivery instant",
                                          mechanism="delivery-dropped-while-queued", step=k, message=b["mid"]))
        prev = e["snap"]
    if begins:
        fails.append(dict(clause="mq: every started delivery completes", open=sorted(begins)))
    # every redelivery event handed to the engine comes back to the queue at its time stamp
    for k, e in enumerate(tr):
        if e["op"][0] == "Sched" and e["outs"] and e["outs"][0][0] == "ORedelivery":
            mid, t = e["outs"][0][1], e["outs"][0][2]
            want = e["t"] + cfg["delay"] * UNIT_NS
            if abs(t - want) > 1 or t < e["t"]:
                fails.append(dict(clause="mq: a requested redelivery is scheduled redelivery_delay later", step=k, time=t, expected=want))
            elif not any(x["op"][0] == "RedeliverBegin" and x["op"][2] == mid and x["t"] == t for x in tr[k + 1:]):
                fails.append(dict(clause="mq: every requested redelivery is attempted at its instant", step=k, message=mid))

    # well-formedness of consumer behaviour (needed by the order clause only)
    wf = True
    prev = None
    for e in tr:
        op = e["op"]
        if prev is not None and op[0] in ("Reject", "RedeliverBegin"):
            m = op[1] if op[0] == "Reject" else op[2]
            if 0 <= m < len(prev["objs"]) and m in prev["msgs"] and prev["objs"][m][0] == 0:
                wf = False
        prev = e["snap"]

    # (3) first deliveries follow publish order
    if wf:
        firsts = []
        prev = None
        for e in tr:
            if e["op"][0] in ("PollBegin", "RedeliverBegin") and e["outs"] == [["OSuspend"]] and prev is not None:
                for i, o in enumerate(e["snap"]["objs"]):
                    if o[0] == 1 and (i >= len(prev["objs"]) or prev["objs"][i][0] == 0):
                        firsts.append(i)
            prev = e["snap"]
        if firsts != sorted(firsts):
            fails.append(dict(clause="mq: first deliveries follow publish order", order=firsts))

    # (4) the redelivery limit moves the message to the dead-letter queue
    prev = None
    for k, e in enumerate(tr):
        op = e["op"]
        if prev is not None and op[0] in ("Reject", "Sched"):
            m = op[1]
            if 0 <= m < len(prev["objs"]) and m in prev["msgs"] and prev["objs"][m][0] >= cfg["max"]:
                applies = (op[0] == "Reject") or (m in prev["inflight"] and m not in prev["resched"])
                s = e["snap"]
                if applies and (m in s["msgs"] or m in s["pending"] or m in s["inflight"]
                                or (cfg["dlq"] and (not s["dead"] or s["dead"][-1] != m))):
                    fails.append(dict(clause="mq: the redelivery limit moves a message to the dead-letter queue", step=k, message=m,
                                      delivery_count=prev["objs"][m][0], limit=cfg["max"]))
        prev = e["snap"]

    # (5) nothing is delivered after it was acknowledged (nor after it was dead-lettered)
    gone_at = {}
    prev = None
    for e in tr:
        if prev is not None:
            for m in prev["msgs"]:
                if m not in e["snap"]["msgs"]:
                    gone_at[m] = (e["seq"], e["t"])
        prev = e["snap"]
    # the delivery instant is the instant the queue emits the delivery event (clause 2 ties the
    # consumer's receipt to that instant); an acknowledgement processed at the same instant
    # between emission and receipt is not "before" the delivery.
    late = [("emitted", e["outs"][0][2], e["outs"][0][1], e["t"]) for e in tr
            if e["op"][0] == "DeliverEnd" and e["outs"][0][0] == "ODelivery"
            and e["outs"][0][2] in gone_at and e["seq"] > gone_at[e["outs"][0][2]][0]]
    late += [("received", r["mid"], r["c"], r["t"]) for r in recv if r["mid"] in gone_at and r["t"] > gone_at[r["mid"]][1]]
    if late:
        how, m, cons, t = late[0]
        fails.append(dict(clause="mq: nothing is delivered again after it was acknowledged", mechanism="delivery-after-ack",
                          how=how, message=m, consumer=cons, time=t))
    return fails[:4]


def attribute_mq(c, obs, f):
    if f.get("mechanism") == "dlq-reprocess-ignored":
        return "C19-dlq-reprocess-ignored"
    return None


def nontrivial_mq(c, obs):
    return any(e["op"][0] == "DeliverEnd" for e in obs["trace"]) and any(e["op"][0] in ("Ack", "Reject", "Sched") for e in obs["trace"])


def describe_mq(c):
    return f"cons={len(c['cons'])},max={c['cfg']['max']},lat={c['cfg']['latency']}"



# =========================================================================== Topic
def gen_topic(rng):
    nsub = rng.randint(1, 4)
    script = []
    t = 0
    n = 0
    for _ in range(rng.randint(1, 18)):
        t += rng.choice([0, 0, 1, 1, 2, 5])
        k = rng.random()
        if k < 0.3:
            script.append([t, "sub", rng.randrange(nsub)])
        elif k < 0.45:
            script.append([t, "unsub", rng.randrange(nsub)])
        elif k < 0.8:
            script.append([t, rng.choice(["pub", "pub", "dpub"]), n])
            n += 1
        else:
            script.append([t, "pubsync", n])
            n += 1
    return dict(latency=rng.choice([0, 1, 1, 2, 3]), maxsubs=rng.choice([None, None, None, 1, 2, 3]), nsub=nsub,
                script=script, presub=[i for i in range(nsub) if rng.random() < 0.6])


def impl_topic(c):
    logging.disable(logging.CRITICAL)
    from happysimulator.components.messaging import Topic
    from happysimulator.core.entity import Entity
    from happysimulator.core.event import Event
    from happysimulator.core.simulation import Simulation
    from happysimulator.core.temporal import Instant

    topic = Topic("t", delivery_latency=c["latency"] * UNIT_S, max_subscribers=c["maxsubs"])
    names = [f"s{i}" for i in range(c["nsub"])]
    idx = {n: i for i, n in enumerate(names)}
    trace, received = [], []
    st = {"h": 0}

    def now():
        return topic._clock.now.nanoseconds if topic._clock else 0

    def snap():
        s = topic.stats
        return dict(subs=[[idx[sub.subscriber.name], bool(sub.active), sub.messages_received] for sub in topic._subscriptions.values()],
                    ctr=[s.messages_published, s.messages_delivered, s.subscribers_added, s.subscribers_removed])

    def rec(op, outs):
        trace.append(dict(op=op, outs=outs, snap=snap(), t=now(), seq=len(trace) + len(received)))

    def evs_out(evs):
        return [["TDelivery", idx[e.target.name], e.context["payload"].context["n"], e.time.nanoseconds] for e in evs]

    o_sub, o_unsub, o_pub, o_sync = topic.subscribe, topic.unsubscribe, topic.publish, topic.publish_sync

    def subscribe(sub, replay_history=False):
        try:
            r = o_sub(sub, replay_history)
        except RuntimeError:
            rec(["TSubscribe", idx[sub.name]], [["TFull"]])
            raise
        rec(["TSubscribe", idx[sub.name]], [])
        return r

    def unsubscribe(sub):
        o_unsub(sub)
        rec(["TUnsubscribe", idx[sub.name]], [])

    def publish_sync(message):
        evs = o_sync(message)
        rec(["TPublishSync", message.context["n"], now()], evs_out(evs))
        return evs

    def publish(message):
        st["h"] += 1
        h, mid = st["h"], message.context["n"]
        inner = o_pub(message)
        try:
            y = next(inner)
        except StopIteration as e:
            rec(["TPublishBegin", h, mid], evs_out(e.value))
            return e.value
        rec(["TPublishBegin", h, mid], [["TSuspend"]])
        while True:
            sent = yield y
            try:
                y = inner.send(sent)
            except StopIteration as e:
                rec(["TPublishResume", h, now()], evs_out(e.value))
                return e.value
            rec(["TPublishResume", h, now()], [["TSuspend"]])

    topic.subscribe, topic.unsubscribe, topic.publish, topic.publish_sync = subscribe, unsubscribe, publish, publish_sync

    class Sub(Entity):
        def handle_event(self, ev):
            if ev.event_type == "topic_message":
                received.append(dict(c=idx[self.name], mid=ev.context["payload"].context["n"], t=self.now.nanoseconds,
                                     seq=len(trace) + len(received)))
            return []

    subs = [Sub(n) for n in names]

    class Driver(Entity):
        def handle_event(self, ev):
            a = ev.context["a"]
            k = a[1]
            if k == "sub":
                try:
                    topic.subscribe(subs[a[2]])
                except RuntimeError:
                    pass
            elif k == "unsub":
                topic.unsubscribe(subs[a[2]])
            elif k == "pub":
                msg = Event(time=self.now, event_type="m", target=self, context={"n": a[2]})
                return [Event(time=self.now, event_type="publish", target=topic, context={"payload": msg})]
            elif k == "dpub":
                msg = Event(time=self.now, event_type="m", target=self, context={"n": a[2]})
                evs = yield from topic.publish(msg)
                return evs
            elif k == "pubsync":
                msg = Event(time=self.now, event_type="m", target=self, context={"n": a[2]})
                return topic.publish_sync(msg)
            return []

    drv = Driver("drv")
    for i in c["presub"]:
        try:
            topic.subscribe(subs[i])
        except RuntimeError:
            pass
    sim = Simulation(entities=[topic, drv] + subs, end_time=Instant(10 ** 12))
    for a in c["script"]:
        sim.schedule(Event(time=Instant(a[0] * UNIT_NS), event_type="act", target=drv, context={"a": a}))
    sim.run()
    return dict(trace=trace, received=received)


def encode_topic(c, obs):
    tr = []
    for e in obs["trace"]:
        tr.append((Ctor(e["op"][0], *e["op"][1:]), [Ctor(o[0], *o[1:]) for o in e["outs"]],
                   ([tuple(x) for x in e["snap"]["subs"]], e["snap"]["ctr"])))
    return term((opt(c["maxsubs"]), tr))


def oracle_topic(c, obs):
    """Topic: every published message reaches every subscriber active at publish time exactly once."""
    tr, recv = obs["trace"], obs["received"]
    lat = c["latency"] * UNIT_NS
    fails = []
    prev = []
    expected = {}
    for e in tr:
        op = e["op"]
        if op[0] in ("TPublishBegin", "TPublishSync"):
            active = [s[0] for s in prev if s[1]]
            mid = op[2] if op[0] == "TPublishBegin" else op[1]
            when = e["t"] + (len(active) * lat if op[0] == "TPublishBegin" else 0)
            expected[mid] = (sorted(active), when)
        prev = e["snap"]["subs"]
    for mid, (active, when) in expected.items():
        got = sorted(r["c"] for r in recv if r["mid"] == mid)
        if got != active:
            missing = [x for x in active if x not in got]
            fails.append(dict(clause="topic: every published message reaches every subscriber active at publish time exactly once",
                              mechanism="delivery-event-not-received" if missing and not [x for x in got if x not in active] and len(set(got)) == len(got) else "wrong-recipients",
                              message=mid, active_at_publish=active, received_by=got))
            break
        late = [r for r in recv if r["mid"] == mid and r["t"] != when]
        if late:
            fails.append(dict(clause="topic: deliveries arrive one delivery latency per subscriber after publish", message=mid,
                              expected=when, got=late[0]["t"]))
            break
    stray = [r for r in recv if r["mid"] not in expected]
    if stray:
        fails.append(dict(clause="topic: only published messages are delivered", got=stray[0]))
    return fails


TOPIC_CASE = "option Z * list (top * list tout * tsnap)"


# =========================================================================== EventLog + ConsumerGroup
STRATS = ["range", "roundrobin", "sticky"]


def gen_stream(rng):
    nparts = rng.choice([1, 2, 3, 4, 4, 6, 8])
    ncons = rng.randint(1, 5)
    nkeys = rng.randint(1, 6)
    ret = rng.choice([["none", 0], ["none", 0], ["size", rng.randint(1, 4)], ["time", rng.choice([2, 4, 8, 16])]])
    script = []
    t = 0
    for _ in range(rng.randint(3, 30)):
        t += rng.choice([0, 0, 1, 1, 2, 4, 9])
        k = rng.random()
        c = rng.randrange(ncons)
        if k < 0.33:
            script.append([t, "append", rng.randrange(nkeys)])
        elif k < 0.40:
            script.append([t, "read", rng.randint(-1, nparts), rng.randint(0, 5), rng.choice([0, 1, 2, 3, 100])])
        elif k < 0.56:
            script.append([t, "join", c])
        elif k < 0.66:
            script.append([t, "leave", c])
        elif k < 0.84:
            script.append([t, "poll", c, rng.choice([1, 2, 3, 100])])
        else:
            mode = rng.choice(["advance", "advance", "advance", "arbitrary"])
            script.append([t, "commit", c, mode, [[rng.randrange(nparts), rng.randint(0, 6)] for _ in range(rng.randint(1, 2))]])
    return dict(nparts=nparts, ncons=ncons, nkeys=nkeys, ret=ret, strat=rng.choice(STRATS), script=script,
                rebalance=rng.choice([0, 1, 2, 4]), interval=rng.choice([2, 4, 8]))


def _digest(key):
    import hashlib
    return int(hashlib.md5(key.encode()).hexdigest(), 16)


def impl_stream(c):
    logging.disable(logging.CRITICAL)
    from happysimulator.components.streaming.consumer_group import (ConsumerGroup, RangeAssignment,
                                                                      RoundRobinAssignment, StickyAssignment)
    from happysimulator.components.streaming.event_log import EventLog, SizeRetention, TimeRetention
    from happysimulator.core.entity import Entity
    from happysimulator.core.event import Event
    from happysimulator.core.simulation import Simulation
    from happysimulator.core.temporal import Instant

    kind, arg = c["ret"]
    pol = None if kind == "none" else SizeRetention(arg) if kind == "size" else TimeRetention(arg * UNIT_S)
    log = EventLog("log", num_partitions=c["nparts"], retention_policy=pol, append_latency=UNIT_S, read_latency=UNIT_S,
                   retention_check_interval=c["interval"] * UNIT_S)
    strat = {"range": RangeAssignment, "roundrobin": RoundRobinAssignment, "sticky": StickyAssignment}[c["strat"]]()
    grp = ConsumerGroup("grp", log, assignment_strategy=strat, rebalance_delay=c["rebalance"] * UNIT_S, poll_latency=UNIT_S)
    cname = lambda i: f"c{i}"
    cidx = lambda n: int(n[1:])
    kname = lambda i: f"k{i}"
    trace = []
    st = {"in_group": False}

    def now():
        return log._clock.now.nanoseconds if log._clock else 0

    def recv(r):
        return [r.offset, int(r.key[1:]), int(round(r.timestamp * 1e9)), r.partition]

    def snap():
        ls, gs = log.stats, grp.stats
        prev = getattr(strat, "_previous", {})
        return dict(parts=[[[r.offset for r in p.records], p.high_watermark] for p in log._partitions],
                    lctr=[ls.records_appended, ls.records_read, ls.records_expired],
                    perpart=[ls.per_partition_appends[i] for i in range(c["nparts"])],
                    cons=sorted(cidx(n) for n in grp._consumers),
                    assign=sorted([cidx(n), list(v)] for n, v in grp._assignments.items()),
                    commit=sorted([cidx(n), sorted([p, o] for p, o in d.items())] for n, d in grp._committed_offsets.items()),
                    prev=sorted([cidx(n), list(v)] for n, v in prev.items()),
                    gctr=[grp.generation, gs.joins, gs.leaves, gs.rebalances, gs.polls, gs.commits, gs.records_polled])

    def rec(op, out):
        trace.append(dict(op=op, out=out, snap=snap(), t=now()))

    o_app, o_read, o_ret, o_handle = log._do_append, log._do_read, log._apply_retention, grp.handle_event

    def do_append(key, value):
        r = o_app(key, value)
        rec(["LAppend", int(key[1:]), now()], ["SRec", recv(r)])
        return r

    def do_read(pid, offset, maxr):
        rs = o_read(pid, offset, maxr)
        if not st["in_group"]:
            rec(["LRead", pid, offset, maxr], ["SRecs", [recv(r) for r in rs]])
        return rs

    def apply_retention():
        n = o_ret()
        rec(["LRetain", now()], ["SNothing"])
        return n

    def handle_event(event):
        et = event.event_type
        ctx = event.context
        cn = ctx.get("consumer_name")
        ci = cidx(cn) if cn else -1
        rf = ctx.get("reply_future")
        inner = o_handle(event)
        phase = 0
        sent = None
        while True:
            st["in_group"] = True
            try:
                y = inner.send(sent) if phase else next(inner)
                done = False
            except StopIteration as e:
                done, ret = True, e.value
            st["in_group"] = False
            if et == "Join":
                if phase == 0 and not done:
                    rec(["GJoinBegin", ci], ["SNothing"])
                elif done:
                    rec(["GJoinEnd", ci], ["SAssigned", list(rf._value) if rf is not None else list(grp._assignments.get(cn, []))])
            elif et == "Leave":
                if phase == 0 and not done:
                    rec(["GLeaveBegin", ci], ["SNothing"])
                elif done:
                    rec(["GLeaveEnd"], ["SNothing"])
            elif et == "Poll" and done:
                rec(["GPoll", ci, ctx.get("max_records", 100)], ["SRecs", [recv(r) for r in rf._value]])
            elif et == "Commit" and done:
                rec(["GCommit", ci, sorted([p, o] for p, o in ctx.get("offsets", {}).items())], ["SNothing"])
            if done:
                return ret
            phase += 1
            sent = yield y

    log._do_append, log._do_read, log._apply_retention, grp.handle_event = do_append, do_read, apply_retention, handle_event

    polled = []

    class Driver(Entity):
        def handle_event(self, ev):
            a = ev.context["a"]
            k = a[1]
            if k == "append":
                yield from log.append(kname(a[2]), a[0])
            elif k == "read":
                yield from log.read(a[2], a[3], a[4])
            elif k == "join":
                yield from grp.join(cname(a[2]), self)
            elif k == "leave":
                yield from grp.leave(cname(a[2]))
            elif k == "poll":
                rs = yield from grp.poll(cname(a[2]), a[3])
                polled.append([a[2], [recv(r) for r in rs]])
            elif k == "commit":
                if a[3] == "advance":
                    cur = grp._committed_offsets.get(cname(a[2]), {})
                    offs = {p: cur.get(p, 0) + o for p, o in a[4]}
                else:
                    offs = {p: o for p, o in a[4]}
                yield from grp.commit(cname(a[2]), offs)
            return []

    drv = Driver("drv")
    end = (c["script"][-1][0] if c["script"] else 0) + 24
    sim = Simulation(entities=[log, grp, drv], end_time=Instant(end * UNIT_NS))
    for a in c["script"]:
        sim.schedule(Event(time=Instant(a[0] * UNIT_NS), event_type="act", target=drv, context={"a": a}))
    sim.run()
    return dict(trace=trace, polled=polled, digests=[[i, _digest(kname(i))] for i in range(c["nkeys"])])


def _sop(op):
    if op[0] == "GCommit":
        return Ctor("GCommit", op[1], [tuple(x) for x in op[2]])
    return Ctor(op[0], *op[1:]) if len(op) > 1 else Ctor(op[0])


def _sout(o):
    if o[0] == "SRec":
        return Ctor("SRec", tuple(o[1]))
    if o[0] == "SRecs":
        return Ctor("SRecs", [tuple(r) for r in o[1]])
    if o[0] == "SAssigned":
        return Ctor("SAssigned", o[1])
    return Ctor("SNothing")


def encode_stream(c, obs):
    kind, arg = c["ret"]
    rk = {"none": 0, "size": 1, "time": 2}[kind]
    ra = arg * UNIT_NS if kind == "time" else arg
    tr = []
    for e in obs["trace"]:
        s = e["snap"]
        v = ([(p[0], p[1]) for p in s["parts"]], s["lctr"], s["perpart"], s["cons"], [(a[0], a[1]) for a in s["assign"]],
             [(x[0], [tuple(po) for po in x[1]]) for x in s["commit"]], [(a[0], a[1]) for a in s["prev"]], s["gctr"])
        tr.append((_sop(e["op"]), _sout(e["out"]), v))
    from hsverif.coq import Nat
    return term(((Nat(c["nparts"]), (rk, ra), STRATS.index(c["strat"]), [tuple(d) for d in obs["digests"]]), tr))


def oracle_stream(c, obs):
    fails = []
    tr = obs["trace"]
    n = c["nparts"]
    # offsets within a partition are gap-free and increasing; the high watermark never decreases
    hw_prev = [0] * n
    for k, e in enumerate(tr):
        for pid, (offs, hw) in enumerate(e["snap"]["parts"]):
            if offs != list(range(hw - len(offs), hw)) or hw < hw_prev[pid] or hw - len(offs) < 0:
                fails.append(dict(clause="log: offsets within a partition are gap-free and increasing", step=k, partition=pid,
                                  offsets=offs, high_watermark=hw))
                break
            hw_prev[pid] = hw
        if fails:
            break
    # a key always maps to the same partition (and the record is stored there, at the watermark)
    keypart = {}
    prev = None
    for k, e in enumerate(tr):
        if e["op"][0] == "LAppend":
            off, key, ts, pid = e["out"][1]
            if keypart.setdefault(key, pid) != pid or not (0 <= pid < n):
                fails.append(dict(clause="log: a key always maps to the same partition", key=key, partitions=[keypart[key], pid]))
                break
            before = prev["parts"][pid][1] if prev is not None else 0
            if off != before or e["snap"]["parts"][pid][0][-1:] != [off] or ts != e["t"]:
                fails.append(dict(clause="log: an appended record gets the next offset of its partition", step=k, record=e["out"][1]))
                break
        prev = e["snap"]
    # after every rebalance each partition belongs to exactly one member
    for k, e in enumerate(tr):
        if e["op"][0] in ("GJoinEnd", "GLeaveEnd"):
            s = e["snap"]
            owners = {}
            for name, pids in s["assign"]:
                for p in pids:
                    owners.setdefault(p, []).append(name)
            bad = [p for p in range(n) if len(owners.get(p, [])) != 1] if s["cons"] else []
            stray = [p for p in owners if not (0 <= p < n)] + [nm for nm, _ in s["assign"] if nm not in s["cons"]]
            if bad or stray:
                fails.append(dict(clause="group: after every rebalance each partition belongs to exactly one member", step=k,
                                  strategy=c["strat"], members=s["cons"], assignments=s["assign"]))
                break
    # committed offsets never move backwards
    prev = None
    for k, e in enumerate(tr):
        cur = {(nm, p): o for nm, d in e["snap"]["commit"] for p, o in d}
        if prev is not None:
            for key, o in prev.items():
                if cur.get(key, -1) < o:
                    given = dict((p, off) for p, off in e["op"][2]) if e["op"][0] == "GCommit" else {}
                    by_commit = e["op"][0] == "GCommit" and e["op"][1] == key[0] and given.get(key[1]) == cur.get(key)
                    fails.append(dict(clause="group: committed offsets never move backwards",
                                      mechanism="commit-with-lower-offset" if by_commit else "offset-lost",
                                      consumer=key[0], partition=key[1], before=o, after=cur.get(key), step=k,
                                      what="ConsumerGroup Commit stores whatever offset it is given: a commit with a lower offset moves the committed offset backwards"))
                    break
            if fails and fails[-1]["clause"].startswith("group: committed"):
                break
        prev = cur
    # polled records: from assigned partitions, from the committed offset on, in offset order, bounded
    prev = None
    for k, e in enumerate(tr):
        if e["op"][0] == "GPoll" and prev is not None:
            ci, maxr = e["op"][1], e["op"][2]
            assigned = dict((nm, p) for nm, p in prev["assign"]).get(ci, [])
            committed = dict((nm, dict((p, o) for p, o in d)) for nm, d in prev["commit"]).get(ci, {})
            recs = e["out"][1]
            byp = {}
            for r in recs:
                byp.setdefault(r[3], []).append(r[0])
            ok = all(p in assigned for p in byp) and all(v == sorted(v) and len(set(v)) == len(v) and v[0] >= committed.get(p, 0)
                                                         for p, v in byp.items())
            if not ok or len(recs) > max(maxr, 1):
                fails.append(dict(clause="group: poll returns records of assigned partitions in offset order from the committed offset",
                                  step=k, consumer=ci, assigned=assigned, committed=committed, records=recs))
                break
        prev = e["snap"]
    return fails[:4]


def attribute_stream(c, obs, f):
    if f.get("mechanism") == "commit-with-lower-offset":
        return "C19-commit-moves-backwards"
    return None


STREAM_CASE = "(nat * (Z * Z) * Z * list (Z * Z)) * list (sop * sout * ssnap)"


# =========================================================================== OutboxRelay
def gen_outbox(rng):
    script = []
    t = 0
    for _ in range(rng.randint(1, 14)):
        t += rng.choice([0, 1, 1, 2, 3, 7])
        k = rng.random()
        if k < 0.6:
            script.append([t, "write", rng.randint(1, 4), rng.random() < 0.6])
        elif k < 0.8:
            script.append([t, "nudge"])
        else:
            script.append([t, "prime"])
    return dict(batch=rng.choice([1, 2, 3, 100]), latency=rng.choice([0, 1, 1, 2]), interval=rng.choice([1, 2, 4]), script=script)


def impl_outbox(c):
    logging.disable(logging.CRITICAL)
    from happysimulator.components.microservice.outbox_relay import OutboxRelay
    from happysimulator.core.entity import Entity
    from happysimulator.core.event import Event
    from happysimulator.core.simulation import Simulation
    from happysimulator.core.temporal import Instant

    trace, received = [], []

    class Down(Entity):
        def handle_event(self, ev):
            received.append(dict(id=ev.context["metadata"]["entry_id"], t=self.now.nanoseconds, evt=ev.time.nanoseconds))
            return []

    down = Down("down")
    ob = OutboxRelay("ob", down, poll_interval=c["interval"] * UNIT_S, batch_size=c["batch"], relay_latency=c["latency"] * UNIT_S)
    st = {"h": 0}

    def now():
        return ob._clock.now.nanoseconds if ob._clock else 0

    def snap():
        s = ob.stats
        return dict(flags=[bool(e.relayed) for e in ob._entries], ctr=[s.entries_written, s.entries_relayed, s.poll_cycles],
                    sched=bool(ob._poll_scheduled))

    def rec(op, outs):
        trace.append(dict(op=op, outs=outs, snap=snap(), t=now()))

    def evs_out(evs):
        out = []
        for e in evs or []:
            if e.event_type == "outbox_relay":
                out.append(["ORelay", e.context["metadata"]["entry_id"], e.time.nanoseconds])
            else:
                out.append(["OPollAt", e.time.nanoseconds])
        return out

    o_write, o_prime, o_handle, o_poll = ob.write, ob.prime_poll, ob.handle_event, ob._handle_poll

    def write(payload):
        i = o_write(payload)
        rec(["OWrite"], [["OWritten", i]])
        return i

    def prime_poll():
        e = o_prime()
        rec(["OPrimeDirect", now()], evs_out([e]))
        return e

    def handle_poll(event):
        st["h"] += 1
        h = st["h"]
        inner = o_poll(event)
        first = True
        sent = None
        while True:
            op = ["OPollBegin", h, now()] if first else ["OPollResume", h, now()]
            try:
                y = next(inner) if first else inner.send(sent)
            except StopIteration as e:
                rec(op, evs_out(e.value))
                return e.value
            rec(op, [["OYield"]])
            first = False
            sent = yield y

    def handle_event(event):
        r = o_handle(event)
        if not event.event_type.startswith("_outbox_poll::"):
            rec(["OPrimeEvent", now()], evs_out(r))
        return r

    ob.write, ob.prime_poll, ob._handle_poll, ob.handle_event = write, prime_poll, handle_poll, handle_event

    class Writer(Entity):
        def handle_event(self, ev):
            a = ev.context["a"]
            if a[1] == "write":
                for _ in range(a[2]):
                    ob.write({"n": 1})
                return [Event(time=self.now, event_type="nudge", target=ob)] if a[3] else []
            if a[1] == "nudge":
                return [Event(time=self.now, event_type="nudge", target=ob)]
            return [ob.prime_poll()]

    wr = Writer("wr")
    last = c["script"][-1][0] if c["script"] else 0
    sim = Simulation(entities=[ob, down, wr], end_time=Instant((last + 30) * UNIT_NS))
    for a in c["script"]:
        sim.schedule(Event(time=Instant(a[0] * UNIT_NS), event_type="act", target=wr, context={"a": a}))
    sim.run()
    return dict(trace=trace, received=received, end=(last + 30) * UNIT_NS)


def encode_outbox(c, obs):
    cfg = Ctor("Build_obcfg", c["batch"], c["latency"] > 0, c["interval"] * UNIT_NS)
    tr = [(Ctor(e["op"][0], *e["op"][1:]), [Ctor(o[0], *o[1:]) for o in e["outs"]],
           (e["snap"]["flags"], e["snap"]["ctr"], e["snap"]["sched"])) for e in obs["trace"]]
    return term((cfg, tr))


def oracle_outbox(c, obs):
    """Outbox: every entry that was written while a poll loop is (or gets) primed is relayed to the
    downstream entity at least once, and every relay event is received at its time stamp."""
    tr, recv = obs["trace"], obs["received"]
    fails = []
    emitted = [(o[1], o[2], e["t"]) for e in tr for o in e["outs"] if o[0] == "ORelay"]
    for i, t, clock in emitted:
        if clock >= obs["end"]:
            continue        # returned at the very end of the run: the engine stops before delivering it
        if not any(r["id"] == i and r["t"] == t for r in recv) or t != clock:
            fails.append(dict(clause="outbox: every relayed entry reaches the downstream entity", mechanism="delivery-event-not-received",
                              entry=i, event_time=t, clock=clock))
            break
    if tr:
        final = tr[-1]["snap"]
        primed_after_last_write = final["sched"]      # the poll loop is alive at the end
        got = {r["id"] for r in recv}
        open_polls = set()
        for e in tr:
            if e["op"][0] in ("OPollBegin", "OPollResume"):
                (open_polls.add if e["outs"] == [["OYield"]] else open_polls.discard)(e["op"][1])
        at_end = {i for i, t, clock in emitted if clock >= obs["end"]}
        lost = [i + 1 for i, f in enumerate(final["flags"]) if f and (i + 1) not in got and (i + 1) not in at_end] if not open_polls else []
        n = len(final["flags"])
        cycles = -(-n // max(1, c["batch"])) + 1
        enough_time = cycles * (c["interval"] + min(c["batch"], max(n, 1)) * c["latency"]) + c["interval"] <= 26
        stuck = [i + 1 for i, f in enumerate(final["flags"]) if not f] if primed_after_last_write and enough_time else []
        if lost or stuck:
            fails.append(dict(clause="outbox: written entries are never lost (marked relayed implies received; primed loop drains the outbox)",
                              marked_relayed_but_never_received=lost, still_pending_at_end=stuck))
    return fails


OUTBOX_CASE = "obcfg * list (oop * list oout * osnap)"

MQ_CASE = "mqcfg * list (op * list out * dsnap)"

# --------------------------------------------------------------------------- DeadLetterQueue driven directly
# (round-8 seed C19-14: capacity AND retention period; the mq family never sets a retention period)
IMPORTS_D = "From HS Require Import Base.Prelude C19.DlqModel."
DLQ_CASE = "option Z * option Z * list (dlop * dlobs)"


def gen_dlq(rng):
    cap = rng.choice([None, 1, 2, 2, 3, 4])
    ret = rng.choice([None, 2, 5, 5, 10])
    ops, t, mid = [], 0, 100
    for _ in range(rng.randint(2, 16)):
        k = rng.random()
        if k < 0.8:
            t += rng.choice([0, 0, 1, 1, 2, 3, 4, 6, 11])
            ops.append(["add", t, mid])
            mid += 1
        elif k < 0.93:
            ops.append(["pop"])
        else:
            ops.append(["clear"])
    return dict(cap=cap, ret=ret, ops=ops)


def impl_dlq(c):
    from happysimulator.components.messaging import DeadLetterQueue
    from happysimulator.components.messaging.message_queue import Message
    from happysimulator.core.clock import Clock
    from happysimulator.core.event import Event
    from happysimulator.core.temporal import Instant
    d = DeadLetterQueue("dlq", capacity=c["cap"], retention_period=None if c["ret"] is None else float(c["ret"]))
    clk = Clock(Instant.Epoch)
    d.set_clock(clk)
    ids = {}
    out = []
    for o in c["ops"]:
        if o[0] == "add":
            clk.update(Instant.from_seconds(o[1]))
            m = Message(id=f"m{o[2]}", payload=Event(time=clk.now, event_type="x", target=d), created_at=clk.now)
            ids[m.id] = o[2]
            r = 1 if d.add_message(m) else 0
        elif o[0] == "pop":
            m = d.pop()
            r = -1 if m is None else ids[m.id]
        else:
            r = d.clear()
        st = d.stats
        out.append([r, [ids[m.id] for m in d.messages], st.messages_received, st.messages_discarded])
    return out


def encode_dlq(c, obs):
    tr = []
    for o, ob in zip(c["ops"], obs):
        op = Ctor("DAdd", o[1], o[2]) if o[0] == "add" else Raw("DPop") if o[0] == "pop" else Raw("DClear")
        tr.append((op, (ob[0], list(ob[1]), ob[2], ob[3])))
    return term((opt(c["cap"]), opt(c["ret"]), tr))


def oracle_dlq(c, obs):
    """independent of the model: a message still within its retention period leaves the DLQ only through pop / clear, or
    as the single oldest survivor pushed out by an arrival that finds the survivors filling the capacity."""
    added = {}
    held = []
    for k, (o, ob) in enumerate(zip(c["ops"], obs)):
        now_held = list(ob[1])
        if o[0] == "add":
            now = o[1]
            added[o[2]] = now
            live = [m for m in held if c["ret"] is None or not (now - added[m] > c["ret"])]
            lost_live = [m for m in live if m not in now_held]
            if len(lost_live) > 1 or (lost_live and not (c["cap"] is not None and len(live) >= c["cap"])):
                return [dict(clause="a dead-lettered message within its retention period is not dropped while the dead-letter queue has room",
                             step=k, lost=lost_live, live=live, cap=c["cap"])]
            if lost_live and lost_live != live[:1]:
                return [dict(clause="a full dead-letter queue pushes out its oldest message", step=k, lost=lost_live, live=live)]
            if o[2] not in now_held:
                return [dict(clause="a dead-lettered message is stored", step=k)]
            if c["cap"] is not None and c["cap"] >= 1 and len(now_held) > c["cap"]:
                return [dict(clause="the dead-letter queue never holds more than its capacity", step=k, held=now_held)]
        elif o[0] == "pop":
            if (held and (ob[0] != held[0] or now_held != held[1:])) or (not held and ob[0] != -1):
                return [dict(clause="pop takes the oldest dead-lettered message", step=k)]
        else:
            if now_held or ob[0] != len(held):
                return [dict(clause="clear empties the dead-letter queue and reports how many it removed", step=k)]
        held = now_held
    return []


FAMILIES = [
    Family("mq", IMPORTS, "ok_mq", MQ_CASE, gen_mq, impl_mq, encode_mq, oracle_mq, nontrivial_mq, attribute_mq,
           parallel=False, describe=describe_mq),
    Family("topic", IMPORTS_T, "ok_topic", TOPIC_CASE, gen_topic, impl_topic, encode_topic, oracle_topic,
           lambda c, o: any(e["op"][0] == "TPublishResume" for e in o["trace"]), parallel=False,
           describe=lambda c: f"subs={c['nsub']},lat={c['latency']}"),
    Family("stream", IMPORTS_S, "ok_stream", STREAM_CASE, gen_stream, impl_stream, encode_stream, oracle_stream,
           lambda c, o: any(e["op"][0] in ("GJoinEnd", "GLeaveEnd") for e in o["trace"]) and any(e["op"][0] == "LAppend" for e in o["trace"]),
           attribute_stream, parallel=False, describe=lambda c: f"{c['strat']},parts={c['nparts']},ret={c['ret'][0]}"),
    Family("outbox", IMPORTS_O, "ok_outbox", OUTBOX_CASE, gen_outbox, impl_outbox, encode_outbox, oracle_outbox,
           lambda c, o: any(e["op"][0] == "OPollResume" for e in o["trace"]), parallel=False,
           describe=lambda c: f"batch={c['batch']},lat={c['latency']}"),
    Family("dlq", IMPORTS_D, "ok_dlq", DLQ_CASE, gen_dlq, impl_dlq, encode_dlq, oracle_dlq,
           lambda c, o: c["cap"] is not None and c["ret"] is not None and o[-1][3] > 0, parallel=False,
           describe=lambda c: f"cap={c['cap']},ret={c['ret']}"),
]

TRUSTED = [
    "Coq 8.16.1 kernel (coqc, vm_compute for case evaluation); no native_compute",
    "axioms: none",
    "correspondence harness harness/props/c19.py: instance-level instrumentation of the component's operations and generator segments, scripted consumer/driver entities, in-Coq replay (ok_* of C19/Model.v)",
    "the engine (event heap, generator resumption after a yielded delay) is not modelled here: the theorems speak about the component's step machine, the oracle observes the end-to-end behaviour through the real engine",
    "float conversions (Instant.from_seconds(now.to_seconds() + delay)) are not modelled: scenario times are multiples of 1/64 s and the comparison allows 1 ns",
]


def run(ctx):
    ctx.prove(["C19/Model.v", "C19/MQ.v", "C19/MQOrder.v", "C19/TopicModel.v", "C19/Topic.v",
               "C19/StreamModel.v", "C19/Assign.v", "C19/Stream.v",
               "C19/OutboxModel.v", "C19/Outbox.v", "C19/DlqModel.v", "C19/Dlq.v", "C19/Props.v"], allowed_axioms=(), trusted_base=TRUSTED)
    ctx.coq_cases = lambda tag, imports, ok_fn, case_type, cases: coq.eval_cases(
        f"{ctx.pid}_{tag}", imports, ok_fn, case_type, cases, shard=min(100, max(30, len(cases) // 10 + 1)), workers=10)
    counts = {"mq": ctx.n(90, 800), "topic": ctx.n(60, 500), "stream": ctx.n(90, 800), "outbox": ctx.n(50, 400), "dlq": ctx.n(150, 1200)}
    stats = [run_family(ctx, fam, counts[fam.name]) for fam in FAMILIES]
    merge_stats(ctx, stats, "scripted scenarios in a real Simulation; non-trivial = at least one completed delivery and one ack/reject/timeout; distinct by JSON of the input")
    ctx.finish_obligations()


def replay(data):
    fam = {f.name: f for f in FAMILIES}[data["detail"]["family"]]
    c = data["detail"]["case"]
    obs = fam.impl(c)
    fails = fam.oracle(c, obs)
    print("oracle failures:", fails)
    return 1 if fails else 0
