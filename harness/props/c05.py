"""C05 — partitioned parallel execution is equivalent to sequential execution.

Tie: a generated script is split into 2-4 partitions with PartitionLinks and
run by the real ParallelSimulation (thread pool, windowed coordinator, routers);
per partition the delivery log, the entity-side log, final clock and heap size
are compared inside Coq with coq/Engine/Parallel.v (up to permutation of entries
carrying the same timestamp).  Oracle: the same script run by one sequential
Simulation must give every entity the same (time, type) deliveries up to
end_time; no "Time travel" discard of a cross-partition event; no loss, no
duplication; partitions without links behave like separate simulations.

The window-end sequence (integer-ns Instant arithmetic, plus the final pass at
end_time) is recomputed by the harness and handed to the model.
"""
from __future__ import annotations

import json
import logging

from hsverif.coq import Ctor, Nat, SomeV, term
from hsverif.family import Family, merge_stats, run_family
from props import engine_script as es

LEVEL = "proof"
FILES = ["Engine/Engine.v", "Engine/Script.v", "Engine/EngineProofs.v", "Engine/ScriptProofs.v",
         "Engine/Parallel.v", "Engine/ParallelScript.v", "Engine/ParallelProofs.v", "C05/Lemmas.v", "C05/Props.v"]
IMPORTS = "From HS Require Import Base.Prelude Engine.Engine Engine.Script Engine.Parallel Engine.ParallelScript."
CASE_TYPE = "nat * (Z * Z * program * list Z * list (Z * Z * Z) * list (list prespec) * list Z * (Z * list part_obs))"

LATS = [0.001, 0.1, 0.5, 1e-9, 0.25]


def gen(rng):
    n_ent = rng.randint(2, 6)
    n_part = rng.randint(2, min(4, n_ent))
    pmap = [i % n_part for i in range(n_ent)]
    rng.shuffle(pmap)
    for i in range(n_part):            # every partition owns an entity
        pmap[i] = i
    n_types = rng.randint(2, 4)
    lat = rng.choice(LATS)
    lat_ns = es.ns_of(lat)
    linked = rng.random() < 0.85
    links = []
    if linked:
        for a in range(n_part):
            for b in range(n_part):
                if a != b and rng.random() < 0.8:
                    links.append([a, b, lat, lat_ns])
    link_set = {(l[0], l[1]) for l in links}
    violate = rng.random() < 0.06
    daemons = rng.random() < 0.3       # in these scripts half of the emitted events are daemon events
    wchoice = rng.random()
    window = None if wchoice < 0.4 else (lat if (wchoice < 0.7 or lat_ns < 100) else lat / rng.choice([2, 4, 10]))
    base = [0, 1, lat_ns, lat_ns // 2, 3 * lat_ns + 1, es.ns_of(0.35), 10 * lat_ns]

    def mk_emit(src_ent, t):
        # emitted types strictly decrease: every cascade is finite
        tgt = rng.randrange(n_ent)
        pa, pb = pmap[src_ent], pmap[tgt]
        if pa != pb and (pa, pb) not in link_set:
            tgt = src_ent
            pb = pa
        if pa == pb:
            dt = rng.choice([0, 1, lat_ns, lat_ns // 3, 7])
        else:
            dt = lat_ns + rng.choice([0, 0, 1, lat_ns, 5])
            if violate and rng.random() < 0.3:
                dt = max(0, lat_ns - 1)
        # (round-9 seed C05-16) some emitted events are daemon events: a partitioned run with an end time delivers
        # them up to the horizon like the sequential run, also once no primary event is left anywhere
        return dict(dt=dt, target=tgt, type=rng.randrange(t), daemon=daemons and rng.random() < 0.5, label=-1, hooks=[])

    prog = []
    for ent in range(n_ent):
        table = {}
        for t in range(n_types):
            k = rng.random()
            if k < 0.15:
                continue
            if t == 0:
                table[t] = ["imm", []]
                continue
            if k < 0.75:
                table[t] = ["imm", [["emit", mk_emit(ent, t)] for _ in range(rng.choice([0, 1, 1, 2]))]]
            else:
                steps = []
                for _ in range(rng.randint(0, 2)):
                    d = rng.choice([0.0, 1e-9, lat / 2, lat, 2 * lat])
                    steps.append(["yield", d, es.ns_of(d), [mk_emit(ent, t) for _ in range(rng.choice([0, 1]))], "list"])
                table[t] = ["gen", steps, [mk_emit(ent, t) for _ in range(rng.choice([0, 1]))]]
        prog.append(table)
    pres = [[] for _ in range(n_part)]
    nwin = rng.randint(1, 8)
    eff_w = window if window is not None else lat
    start = rng.choice([0, 0, 0, 2_000_000_000, 100_000_000_000, 7 * lat_ns + 3])
    for _ in range(rng.randint(1, 9)):
        tgt = rng.randrange(n_ent)
        k = rng.randrange(0, nwin + 1)
        t = es.ns_of(k * eff_w) + rng.choice([0, 0, 1, -1, lat_ns // 2, (7 * lat_ns) // 2])
        # cancelled timers sitting just before / on a window boundary are part of the quantifier
        pres[pmap[tgt]].append(dict(time=start + max(0, t), emit=dict(dt=0, target=tgt, type=rng.randrange(n_types), daemon=False, label=-1, hooks=[]),
                                    cancel=rng.random() < 0.25))
    # The model identifies a cancelled event by its sort index, and sort indices are per partition (a
    # cross-partition event keeps the index of the partition that created it).  A cancelled pre-run event
    # whose index an in-run event of ANOTHER partition can also carry would make the model (not the code,
    # where cancellation is a flag on the event object) drop that foreign event: keep cancelled pre-run
    # events at indices below every partition's first in-run index.
    min_pre = min(len(p_) for p_ in pres)
    for p_ in pres:
        p_.sort(key=lambda x: not x["cancel"])
        for j, x in enumerate(p_):
            if j >= min_pre:
                x["cancel"] = False
    span = max(1, es.ns_of(nwin * eff_w) + rng.choice([0, 0, 1, lat_ns // 2]))
    end = start + span
    # construct with duration= when the float round trip is exact, else with end_time=
    use_duration = rng.random() < 0.5 and int((span / 1e9) * 1_000_000_000) == span
    # some actors are declared as sources= / probes= of their partition instead of entities= (closed-loop
    # clients, measurement sinks): they are routed to like any other member of the partition
    roles = [rng.choice([0, 0, 0, 1, 2]) if rng.random() < 0.5 else 0 for _ in range(n_ent)]
    return dict(prog=prog, pmap=pmap, n_part=n_part, links=links if linked else [], pres=pres, start=start, end=end, roles=roles,
                window=window, lat=lat, fuel=400, use_duration=use_duration)


class _TT(logging.Handler):
    def __init__(self):
        super().__init__()
        self.hits = []

    def emit(self, record):
        if "Time travel" in record.getMessage():
            self.hits.append(record.getMessage()[:160])


def window_ends(start_ns, end_ns, window_s):
    """The coordinator's window sequence: Instant arithmetic in integer ns
    (current + window_size, clamped to end_time), then one final pass at end_time."""
    wns = int(window_s * 1_000_000_000)
    cur, out = start_ns, []
    while cur < end_ns and len(out) < 5000 and wns > 0:
        cur = min(cur + wns, end_ns)
        out.append(cur)
    out.append(end_ns)
    return out


def impl(c):
    from happysimulator.core.simulation import Simulation
    from happysimulator.core.temporal import Instant
    from happysimulator.parallel.link import PartitionLink
    from happysimulator.parallel.partition import SimulationPartition
    from happysimulator.parallel.simulation import ParallelSimulation
    from hsverif.util import Timeout, time_limit

    n_part = c["n_part"]
    # ---- parallel run
    w = es.build_world(dict(prog=c["prog"]))
    w.next_pid_by = {}
    roles = c.get("roles") or [0] * len(w.entities)
    parts = [SimulationPartition(name=f"p{i}", entities=[e for e in w.entities if c["pmap"][e.idx] == i and roles[e.idx] == 0],
                                 sources=[e for e in w.entities if c["pmap"][e.idx] == i and roles[e.idx] == 1],
                                 probes=[e for e in w.entities if c["pmap"][e.idx] == i and roles[e.idx] == 2]) for i in range(n_part)]
    links = [PartitionLink(f"p{a}", f"p{b}", min_latency=lat) for a, b, lat, _ in c["links"]]
    tt = _TT()
    lg = logging.getLogger("happysimulator.core.simulation")
    lg.addHandler(tt)
    old_level = lg.level
    lg.setLevel(logging.WARNING)
    status, obs, err = 0, [], None
    try:
        if c.get("use_duration"):
            ps = ParallelSimulation(partitions=parts, links=links or None, start_time=Instant(c["start"]),
                                    duration=(c["end"] - c["start"]) / 1e9, window_size=c["window"] if links else None)
        else:
            ps = ParallelSimulation(partitions=parts, links=links or None, start_time=Instant(c["start"]), end_time=Instant(c["end"]),
                                    window_size=c["window"] if links else None)
        for i, pre in enumerate(c["pres"]):
            for x in pre:
                ev = w.mk_event(0, dict(x["emit"], dt=x["time"]))
                ps.schedule(ev, partition=f"p{i}")
                if x["cancel"]:
                    ev.cancel()
        w.prerun[0] = False
        pops = {}
        for i in range(n_part):
            pops[i] = []
            es.instrument_pops(ps.simulations[f"p{i}"], pops[i], 100000, w)
        with time_limit(30):
            ps.run()
    except Timeout:
        status = 3
    except (RuntimeError, ValueError) as e:
        status, err = 1, str(e)[:200]
    finally:
        lg.removeHandler(tt)
        lg.setLevel(old_level)
    if status == 0:
        for i in range(n_part):
            sim = ps.simulations[f"p{i}"]
            dels = [[p[0], p[1], p[2], p[3]] for p in pops[i] if p[4] == "delivered"]
            ul = [u for u in w.ulog if (u[0] == "handle" and c["pmap"][u[2]] == i)
                  or (u[0] in ("resume", "finish") and c["pmap"][u[-1]] == i)]
            obs.append(dict(dels=dels, handles=ul, clock=sim._clock.now.nanoseconds, heap=sim._event_heap.size(),
                            past=[p[:4] for p in pops[i] if p[4] == "past"]))
    wends = window_ends(c["start"], c["end"], c["window"] if c["window"] is not None else c["lat"]) if c["links"] else []
    # ---- sequential reference run (oracle)
    seq = None
    if status == 0:
        w2 = es.build_world(dict(prog=c["prog"]))
        sim = Simulation(start_time=Instant(c["start"]), end_time=Instant(c["end"]), entities=list(w2.entities))
        for pre in c["pres"]:
            for x in pre:
                ev = w2.mk_event(0, dict(x["emit"], dt=x["time"]))
                sim.schedule(ev)
                if x["cancel"]:
                    ev.cancel()
        w2.prerun[0] = False
        p2 = []
        es.instrument_pops(sim, p2, 100000, w2)
        try:
            with time_limit(30):
                sim.run()
            seq = [[p[0], p[1], p[2], p[3]] for p in p2 if p[4] == "delivered"]
        except (Timeout, es.Watchdog):
            seq = None
    return dict(status=status, err=err, parts=obs, wends=wends, time_travel=tt.hits, seq=seq,
                resumes=sum(1 for u in w.ulog if u[0] == "resume"))


def encode(c, o):
    pres = [es.enc_pre(p) for p in c["pres"]]
    links = [(a, b, ns) for a, b, _, ns in c["links"]]
    parts = []
    for i, po in enumerate(o["parts"]):
        dels = [tuple(d) for d in po["dels"]]
        ul = [(u[1], 4, u[2], u[3]) if u[0] == "handle" else (u[1], 1 if u[0] == "resume" else 3, 0, 0) for u in po["handles"]]
        parts.append((dels, ul, po["clock"], po["heap"]))
    return term((Nat(c["fuel"]), (c["start"], c["end"], es.enc_prog(c["prog"]), c["pmap"], links, pres, o["wends"],
                                  (o["status"], parts))))


def oracle(c, o):
    if o["status"] == 3:
        return [dict(clause="parallel run exceeded the wall-clock limit")]
    out = []
    if o["status"] == 1:
        return []          # declared minimum latency violated / unlinked target: rejected, as documented
    if o["time_travel"]:
        out.append(dict(clause="no cross-partition event is discarded as being in the past", warnings=o["time_travel"][:3]))
    if o["seq"] is not None:
        end = c["end"]
        for ent in range(len(c["prog"])):
            par = sorted([d[0], d[1], d[3]] for po in o["parts"] for d in po["dels"] if d[2] == ent and d[0] <= end)
            seq = sorted([d[0], d[1], d[3]] for d in o["seq"] if d[2] == ent and d[0] <= end)
            if par != seq:
                missing = [x for x in seq if x not in par][:3]
                extra = [x for x in par if x not in seq][:3]
                out.append(dict(clause="every entity receives the same (time, type) deliveries as in the sequential run (no loss, no duplication)",
                                entity=ent, missing_in_parallel=missing, extra_in_parallel=extra))
                break
    return out[:1]


FAM = Family("parallel", IMPORTS, "ok_par", CASE_TYPE, gen, impl, encode, oracle,
             nontrivial=lambda c, o: o["status"] == 0 and bool(c["links"]) and len(o["wends"]) >= 2
             and sum(len(p["dels"]) for p in o["parts"]) >= 3,
             parallel=True, describe=lambda c: f"parts={c['n_part']},links={'y' if c['links'] else 'n'},win={'default' if c['window'] is None else 'set'}")

TRUSTED = [
    "Coq 8.16.1 kernel, vm_compute for case evaluation; no native_compute; no axioms",
    "OS thread interleaving of the worker pool / contextvars isolation / GIL: the model runs partitions one after the other (they share no state during a window); a data race on shared Python objects is not expressible",
    "the window-end sequence of WindowedCoordinator.run (current + window_size in integer ns, clamped, final pass at end_time) is recomputed by the harness and handed to the model; min-latency validation (a float comparison) is compared on latencies exactly representable in ns",
    "harness/props/c05.py + engine_script.py (generators, partitioned real-Entity interpreter, observers, encoder)",
]


def run(ctx):
    ctx.prove(FILES, allowed_axioms=(), trusted_base=TRUSTED)
    stats = [run_family(ctx, FAM, ctx.n(250, 5000))]
    merge_stats(ctx, stats, "random scripts split into 2-4 partitions, uni/bidirectional links, latency in {1ns,1ms,0.1,0.25,0.5}, window default / latency / latency/k, events at, 1 ns before and 1 ns after window boundaries, idle partitions, latency violations; non-trivial = linked, >=2 windows, >=3 deliveries")
    ctx.assumptions.append("trace equivalence with the sequential run (per entity, up to same-timestamp permutation) is checked by the implementation-side oracle; proved are: no cross event is ever discarded as past, clocks stay within the window, exchange conserves events, unlinked partitions = separate simulations")
    ctx.finish_obligations()


def replay(data):
    c = data["detail"]["case"]
    o = impl(c)
    f = oracle(c, o)
    print("status", o["status"], o["err"], "time travel:", o["time_travel"])
    print("oracle failures:", f)
    return 1 if f else 0
