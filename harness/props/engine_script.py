"""Scripted simulations shared by the engine properties (C01, C02, C04, C05 ...).

A *script* is a JSON-able description of entities (event type -> behaviour),
pre-run events and the end time.  `run_script` interprets it with REAL
`Entity` subclasses, real generators (incl. `yield from`), real `Event`s, real
`SimFuture`/`any_of`/`all_of` inside a real `Simulation`; `encode_*` turn the
same script into the Gallina term interpreted by coq/Engine/Script.v.

Observation points (no source hooks): the heap's `pop` is wrapped on the
instance to see every popped event; `ScriptEntity.handle_event` and the
generator bodies log what the *entity* sees (clock, received values).
Private attributes read: Simulation._event_heap/_clock/_events_processed/
_events_cancelled, Event._cancelled.
"""
from __future__ import annotations

from hsverif.coq import Ctor, Nat, Raw, SomeV, term

FLOAT_DELAYS = [0.0, 0.0, 1e-9, 2.9e-7, 0.001, 0.29, 0.5, 1.0, 2, 0.1, 0.3,
                1.9e-9, 0.1234567897, 7.5e-10]      # sub-nanosecond parts: the engine truncates, it does not round


def ns_of(d) -> int:
    return int(d * 1_000_000_000)


# --------------------------------------------------------------------------- generation
def gen_emit0(rng, n_ent, n_types, times):
    return dict(dt=rng.choice(times), target=rng.randrange(n_ent), type=rng.randrange(n_types),
                daemon=rng.random() < 0.2)


def gen_emit(rng, n_ent, n_types, times, labels=True, hooks=True):
    e = gen_emit0(rng, n_ent, n_types, times)
    e["label"] = rng.randrange(4) if labels and rng.random() < 0.3 else -1
    e["hooks"] = []
    if hooks and rng.random() < 0.15:
        e["hooks"] = [[gen_emit0(rng, n_ent, n_types, times) for _ in range(rng.randint(0, 2))]
                      for _ in range(rng.randint(1, 2))]
    return e


def gen_eff(rng, n_ent, n_fut):
    k = rng.random()
    if k < 0.45:
        return ["cancel", rng.randrange(4)]
    if k < 0.9:
        return ["resolve", rng.randrange(n_fut), rng.randrange(100)]
    return ["crash", rng.randrange(n_ent), rng.random() < 0.6]


def gen_fexpr(rng, n_fut, depth):
    if depth == 0 or rng.random() < 0.6:
        return ["f", rng.randrange(n_fut)]
    k = rng.randint(2, 3)
    return [rng.choice(["any", "all"]), [gen_fexpr(rng, n_fut, depth - 1) for _ in range(k)]]


def gen_steps(rng, n_ent, n_types, n_fut, times, depth=2, futures=True):
    steps = []
    for _ in range(rng.randint(0, 4)):
        k = rng.random()
        if k < 0.5:
            d = rng.choice(FLOAT_DELAYS)
            effs = [gen_emit(rng, n_ent, n_types, times) for _ in range(rng.choice([0, 0, 1, 2]))]
            steps.append(["yield", d, ns_of(d), effs, rng.choice(["list", "single"]) if len(effs) == 1 else "list"])
        elif k < 0.75 and futures:
            steps.append(["wait", gen_fexpr(rng, n_fut, 2)])
        elif k < 0.9:
            steps.append(["eff", gen_eff(rng, n_ent, n_fut)])
        elif depth > 0:
            steps.append(["sub", gen_steps(rng, n_ent, n_types, n_fut, times, depth - 1, futures)])
    return steps


def gen_script(rng, futures=True, max_pre=12, allow_cycles=True):
    n_ent = rng.randint(1, 5)
    n_types = rng.randint(1, 4)
    n_fut = rng.randint(1, 4)
    pool = sorted({0, *[rng.choice([1, 5, 1000, 500_000_000, 1_000_000_000]) * rng.randint(0, 3) for _ in range(3)]})
    times = pool + [0, 0, 1]
    if rng.random() < 0.15:
        times.append(-rng.choice([1, 1000]))          # emits into the past ("time travel")
    prog = []
    for _ in range(n_ent):
        table = {}
        for t in range(n_types):
            k = rng.random()
            if k < 0.15:
                continue
            if k < 0.6:
                acts = []
                for _ in range(rng.choice([0, 0, 1, 1, 2, 3])):
                    if rng.random() < 0.7:
                        acts.append(["emit", gen_emit(rng, n_ent, n_types, times)])
                    else:
                        acts.append(["eff", gen_eff(rng, n_ent, n_fut)])
                table[t] = ["imm", acts]
            else:
                table[t] = ["gen", gen_steps(rng, n_ent, n_types, n_fut, times, futures=futures),
                            [gen_emit(rng, n_ent, n_types, times) for _ in range(rng.choice([0, 0, 1, 2]))]]
        prog.append(table)
    pre = []
    for _ in range(rng.randint(0, max_pre)):
        e = gen_emit(rng, n_ent, n_types, [0])
        pre.append(dict(time=rng.choice(pool), emit=e, cancel=rng.random() < 0.15))
    endc = rng.random()
    if endc < 0.3:
        end = None
    elif endc < 0.65:
        end = rng.choice(pool)
    else:
        end = rng.choice(pool) + rng.choice([1, 7, 250_000_000])
    order = list(range(len(pre)))
    mode = rng.random()
    if mode < 0.35:
        rng.shuffle(order)                     # one schedule([...]) call, list not in creation order
    pre_mode = "single" if mode >= 0.6 else "batch"
    # a quarter of the scripts start at a non-zero instant; the horizon is then given either as end_time
    # or as duration= (end_time = start_time + duration)
    start = 0
    if rng.random() < 0.25:
        # (10^16 ns = 116 days: float seconds no longer resolve single nanoseconds there)
        start = rng.choice([1_000_000_000, 2_500_000_000, 7, 10_000_000_000_000_000])
        for ps in pre:
            ps["time"] += start
        if end is not None:
            end += start
    ctor = "duration" if (end is not None and rng.random() < 0.4 and int(((end - start) / 1e9) * 1e9) == end - start
                          and end > start) else "end_time"
    if end is None and rng.random() < 0.3:
        # the open horizon given explicitly, as an infinite instant that is EQUAL to Instant.Infinity without being that
        # object (what copy.deepcopy / pickling of a built model produce); round-9 seed C01-17
        ctor = "inf_copy"
    return dict(prog=prog, pre=pre, start=start, end=end, fuel=rng.choice([60, 150, 300]), pre_mode=pre_mode, pre_order=order,
                ctor=ctor)


def horizon_kwargs(script):
    """Simulation(...) keyword arguments for the run horizon of a script."""
    from happysimulator.core.temporal import Instant
    if script.get("ctor") == "duration" and script["end"] is not None:
        return dict(start_time=Instant(script["start"]), duration=(script["end"] - script["start"]) / 1e9)
    if script.get("ctor") == "inf_copy" and script["end"] is None:
        import copy
        return dict(start_time=Instant(script["start"]), end_time=copy.deepcopy(Instant.Infinity))
    return dict(start_time=Instant(script["start"]), end_time=None if script["end"] is None else Instant(script["end"]))


# --------------------------------------------------------------------------- interpretation on the real code
class Watchdog(Exception):
    pass


class World:
    def __init__(self, script):
        self.script = script
        self.entities = []
        self.futures = {}
        self.labels = {}
        self.ulog = []
        self.next_pid = 0
        self.next_hid = 0
        self.rlog = []             # harness-side future log: ["resolve", tick, time, f, v] / ["wait", tick, time, pid, fexpr]
        self.hid_owner = {}        # hook list id -> creation seq of the owning event
        self.hid_count = {}        # hook list id -> number of hooks registered
        self.pid_event = {}        # pid -> creation seq of the event whose handler started it
        self.ctx_daemon = {}       # id(event.context) -> daemon flag of the event that owns the context
        self.created = []          # harness-side record of every Event it created: [seq, created_at_clock, time, daemon, target]
        self.seq_of = {}           # id(event) -> creation sequence number

    def fut(self, i):
        from happysimulator.core.sim_future import SimFuture
        if i not in self.futures:
            self.futures[i] = SimFuture()
        return self.futures[i]


def tname(t):
    return f"t{t}"


def val_json(v):
    if v is None:
        return ["none"]
    if isinstance(v, tuple):
        return ["pair", v[0], val_json(v[1])]
    if isinstance(v, list):
        return ["list", [val_json(x) for x in v]]
    return ["int", int(v)]


# A handler with nothing to emit returns this one module-level list (a common idiom: `return NO_EVENTS`).
# The engine must treat a returned list as read-only; if it appends to it, later returns re-deliver.
NO_EVENTS: list = []


def build_world(script):
    from happysimulator.core.entity import Entity
    from happysimulator.core.event import Event
    from happysimulator.core.sim_future import all_of, any_of
    from happysimulator.core.temporal import Instant

    script = dict({"pre": [], "start": 0, "end": None, "fuel": 100}, **script)
    w = World(script)
    del NO_EVENTS[:]                  # (an engine that appended to it must not leak into the next case)
    w.keep = []
    w.sim_ref = None                  # the Simulation, when the family runs one (handlers may call sim.schedule())
    sim_clock = [None]
    w.sim_clock = sim_clock
    prerun = [True]
    w.prerun = prerun

    def mk_event(now_ns, e, target_override=None):
        hooks = None
        if e.get("hooks"):
            hid = w.next_hid
            w.next_hid += 1
            hooks = []
            for idx, h in enumerate(e["hooks"]):
                def hook(t, idx=idx, h=h, hid=hid):
                    w.ulog.append(["hook", t.nanoseconds, hid, idx])
                    return [mk_event(t.nanoseconds, dict(x, label=-1, hooks=[])) for x in h]
                hooks.append(hook)
        ev = Event(time=Instant(now_ns + e["dt"]), event_type=tname(e["type"]), target=w.entities[e["target"]],
                   daemon=e["daemon"], on_complete=hooks)
        if e.get("label", -1) >= 0:
            w.labels[e["label"]] = ev
        w.seq_of[id(ev)] = len(w.created)
        w.ctx_daemon[id(ev.context)] = bool(e["daemon"])
        if hooks:
            w.hid_owner[hid] = len(w.created)
            w.hid_count[hid] = len(hooks)
        w.keep.append(ev)
        w.created.append([len(w.created), now_ns if not prerun[0] else None, now_ns + e["dt"], e["daemon"], e["target"]])
        return ev

    def do_eff(x):
        if x[0] == "cancel":
            ev = w.labels.get(x[1])
            if ev is not None:
                ev.cancel()
        elif x[0] == "resolve":
            w.rlog.append(["resolve", len(w.rlog), sim_clock[0].now.nanoseconds if sim_clock[0] else 0, x[1], x[2]])
            w.fut(x[1]).resolve(x[2])
        elif x[0] == "crash":
            w.entities[x[1]]._crashed = x[2]

    def eval_f(fe):
        if fe[0] == "f":
            return w.fut(fe[1])
        subs = [eval_f(x) for x in fe[1]]
        return any_of(*subs) if fe[0] == "any" else all_of(*subs)

    class ScriptEntity(Entity):
        def __init__(self, idx, table):
            super().__init__(f"e{idx}")
            self.idx = idx
            self.table = table
            self.count = 0             # public metric: events handled (MetricBreakpoint target)

        def start(self, start_time):
            """Lets a scripted entity be listed under sources= / probes= of a (partitioned) simulation: a
            'source' that schedules no tick of its own and is otherwise the same actor."""
            return []

        def handle_event(self, event):
            t = int(event.event_type[1:])
            self.count += 1
            w.ulog.append(["handle", self.now.nanoseconds, self.idx, t])
            beh = self.table.get(t) or self.table.get(str(t))
            if beh is None:
                return None
            if beh[0] == "imm":
                out = []
                for a in beh[1]:
                    if a[0] == "emit":
                        out.append(mk_event(self.now.nanoseconds, a[1]))
                    else:
                        do_eff(a[1])
                if len(out) >= 2 and w.sim_ref is not None and (self.idx + t) % 3 == 0:
                    # the event created FIRST is injected with sim.schedule() from inside the handler, after the
                    # others were created; the rest is returned: creation order still decides ties
                    w.sim_ref.schedule(out[0])
                    return out[1:]
                if len(out) == 1 and beh[1] and beh[1][0][0] == "emit" and len(beh[1]) == 1:
                    return out[0]            # single Event return form
                if not out and self.idx % 2 == 0:
                    return NO_EVENTS         # shared "no events" constant
                return out
            pid = w.next_pid
            w.next_pid += 1
            w.pid_event[pid] = w.seq_of.get(id(event))
            return self._process(pid, beh[1], beh[2])

        def _steps(self, pid, steps):
            for s in steps:
                if s[0] == "yield":
                    effs = [mk_event(self.now.nanoseconds, e) for e in s[3]]
                    if not effs and s[4] == "list" and self.idx % 2 == 0:
                        got = yield s[1], NO_EVENTS      # `yield delay, NO_EVENTS`: the shared empty list as side effects
                    elif not effs:
                        got = yield s[1]
                    elif s[4] == "single":
                        got = yield s[1], effs[0]
                    else:
                        got = yield s[1], effs
                    w.ulog.append(["resume", self.now.nanoseconds, pid, val_json(got), self.idx])
                elif s[0] == "wait":
                    w.rlog.append(["wait", len(w.rlog), self.now.nanoseconds, pid, s[1]])
                    got = yield eval_f(s[1])
                    w.ulog.append(["resume", self.now.nanoseconds, pid, val_json(got), self.idx])
                elif s[0] == "eff":
                    do_eff(s[1])
                elif s[0] == "sub":
                    yield from self._steps(pid, s[1])

        def _process(self, pid, steps, ret):
            w.ulog.append(["resume", self.now.nanoseconds, pid, ["none"], self.idx])
            yield from self._steps(pid, steps)
            out = [mk_event(self.now.nanoseconds, e) for e in ret]
            w.ulog.append(["finish", self.now.nanoseconds, pid, self.idx])
            if not out and self.idx % 2 == 0:
                return NO_EVENTS
            return out

    for i, table in enumerate(script["prog"]):
        w.entities.append(ScriptEntity(i, table))
    w.mk_event = mk_event
    return w


def schedule_pre(sim, w, script):
    """Create the pre-run events in spec order (creation order), then schedule them one by
    one or as one list, possibly not in creation order; apply pre-run cancellations."""
    evs = [w.mk_event(0, dict(ps["emit"], dt=ps["time"])) for ps in script["pre"]]
    order = script.get("pre_order") or list(range(len(evs)))
    if script.get("pre_mode", "single") == "batch" and evs:
        sim.schedule([evs[i] for i in order])
    else:
        for i in order:
            sim.schedule(evs[i])
    for ev, ps in zip(evs, script["pre"]):
        if ps["cancel"]:
            ev.cancel()
    return evs


def instrument_pops(sim, pops, limit, w=None):
    heap = sim._event_heap
    orig = heap.pop
    clock = sim._clock

    def pop():
        if len(pops) >= getattr(heap, "_verif_limit", limit):
            raise Watchdog()
        ev = orig()
        if w is not None:
            w.keep.append(ev)        # keep alive: id(ev) is used as the object's identity
        disp = "cancelled" if ev._cancelled else ("past" if ev.time < clock.now else "delivered")
        pops.append([ev.time.nanoseconds, int(ev.event_type[1:]), ev.target.idx,
                     1 if type(ev).__name__ == "ProcessContinuation" else 0, disp, ev._sort_index,
                     w.seq_of.get(id(ev)) if w is not None else None, clock.now.nanoseconds,
                     sum(1 for x in heap._heap if not x.daemon) + (0 if ev.daemon else 1),
                     bool(getattr(ev.target, "_crashed", False)), id(ev),
                     (bool(ev.daemon), w.ctx_daemon.get(id(ev.context))) if w is not None else None])
        return ev
    heap.pop = pop
    return orig


def run_script(script, mode="plain", control_script=None):
    """Run on the implementation.  A wall-clock timeout alone is not evidence of a livelock (the first
    run in a fresh worker pays for the imports, and the machine may be starved): the run is repeated
    once with a nine times longer limit, and only a second timeout is reported (status 3)."""
    o = _run_script_once(script, mode, control_script, 20)
    if o["status"] == 3:
        o = _run_script_once(script, mode, control_script, 180)
    return o


def _run_script_once(script, mode, control_script, wall):
    """mode: plain | recorder | tracing | control-idle."""
    from happysimulator.core import event as event_mod
    from happysimulator.core.simulation import Simulation
    from happysimulator.core.temporal import Instant
    from hsverif.util import Timeout, time_limit

    w = build_world(script)
    kwargs = {}
    if mode == "recorder":
        from happysimulator.instrumentation.recorder import InMemoryTraceRecorder
        kwargs["trace_recorder"] = InMemoryTraceRecorder()
    sim = Simulation(entities=list(w.entities), **horizon_kwargs(script), **kwargs)
    w.sim_ref = sim
    schedule_pre(sim, w, script)
    pops = []
    w.sim_clock[0] = sim._clock
    w.prerun[0] = False
    instrument_pops(sim, pops, script["fuel"], w)
    if mode == "control-idle":
        _ = sim.control
    if mode == "tracing":
        event_mod.enable_event_tracing()
    status = 0
    try:
        with time_limit(wall):
            sim.run()
    except Watchdog:
        status = 2
    except Timeout:
        status = 3
    except (RuntimeError, ValueError) as e:
        status = 1
    finally:
        if mode == "tracing":
            event_mod.disable_event_tracing()
    cancelled_ever = [w.seq_of[id(ev)] for ev in w.keep if ev._cancelled]
    return dict(status=status, pops=pops, ulog=w.ulog, created=w.created, cancelled_ever=cancelled_ever, rlog=w.rlog,
                hid_owner={str(k): v for k, v in w.hid_owner.items()}, hid_count={str(k): v for k, v in w.hid_count.items()}, pid_event={str(k): v for k, v in w.pid_event.items()}, clock=sim._clock.now.nanoseconds,
                processed=sim._events_processed, ncancelled=sim._events_cancelled,
                heap=sim._event_heap.size(), primary=sim._event_heap._primary_event_count)


# --------------------------------------------------------------------------- encoding for Coq
def enc_emit0(e):
    return Ctor("mkEmit0", e["dt"], e["target"], e["type"], e["daemon"])


def enc_emit(e):
    return Ctor("mkEmit", enc_emit0(e), e.get("label", -1), [[enc_emit0(x) for x in h] for h in e.get("hooks", [])])


def enc_eff(x):
    if x[0] == "cancel":
        return Ctor("ECancel", x[1])
    if x[0] == "resolve":
        return Ctor("EResolve", x[1], x[2])
    return Ctor("ESetCrashed", x[1], bool(x[2]))


def enc_fexpr(fe):
    if fe[0] == "f":
        return Ctor("FId", fe[1])
    return Ctor("FAny" if fe[0] == "any" else "FAll", [enc_fexpr(x) for x in fe[1]])


def enc_steps(steps):
    out = []
    for s in steps:
        if s[0] == "yield":
            out.append(Ctor("GYield", s[2], [enc_emit(e) for e in s[3]]))
        elif s[0] == "wait":
            out.append(Ctor("GWait", enc_fexpr(s[1])))
        elif s[0] == "eff":
            out.append(Ctor("GEff", enc_eff(s[1])))
        elif s[0] == "sub":
            out.extend(enc_steps(s[1]))        # yield from = inlining
    return out


def enc_prog(prog):
    ents = []
    for table in prog:
        rows = []
        for t, beh in sorted((int(k), v) for k, v in table.items()):
            if beh[0] == "imm":
                acts = [Ctor("AEmit", enc_emit(a[1])) if a[0] == "emit" else Ctor("AEff", enc_eff(a[1])) for a in beh[1]]
                rows.append((t, Ctor("BImm", acts)))
            else:
                rows.append((t, Ctor("BGen", enc_steps(beh[1]), [enc_emit(e) for e in beh[2]])))
        ents.append(rows)
    return ents


def enc_pre(pre):
    return [Ctor("mkPre", ps["time"], enc_emit(ps["emit"]), bool(ps["cancel"])) for ps in pre]


def enc_val(v):
    if v[0] == "none":
        return Ctor("VNone")
    if v[0] == "int":
        return Ctor("VInt", v[1])
    if v[0] == "pair":
        return Ctor("VPair", v[1], enc_val(v[2]))
    return Ctor("VList", [enc_val(x) for x in v[1]])


def enc_ulog(ulog):
    out = []
    for u in ulog:
        if u[0] == "resume":
            out.append(Ctor("UResume", u[1], u[2], enc_val(u[3])))
        elif u[0] == "hook":
            out.append(Ctor("UHook", u[1], u[2], u[3]))
        elif u[0] == "finish":
            out.append(Ctor("UFinish", u[1], u[2]))
        else:
            out.append(Ctor("UHandle", u[1], u[2], u[3]))
    return out


def enc_obs(obs):
    dels = [(p[0], p[1], p[2], p[3]) for p in obs["pops"] if p[4] == "delivered"]
    return Ctor("mkObs", obs["status"], dels, enc_ulog(obs["ulog"]), obs["clock"], obs["processed"],
                obs["ncancelled"], obs["heap"])


def enc_case(script, obs):
    end = None if script["end"] is None else SomeV(script["end"])
    return term((Nat(script["fuel"]), (script["start"], end, enc_prog(script["prog"]), enc_pre(script["pre"]), enc_obs(obs))))


CASE_TYPE = "nat * (Z * option Z * program * list prespec * run_obs)"
IMPORTS = "From HS Require Import Base.Prelude Engine.Engine Engine.Script."


# --------------------------------------------------------------------------- control sessions (C04)
def gen_cmds(rng):
    cmds = []
    if rng.random() < 0.6:
        cmds.append(["pause"])
    for _ in range(rng.randint(0, 2)):
        cmds.append(gen_bp(rng))
    cmds.append(["start"])
    for _ in range(rng.randint(0, 6)):
        k = rng.random()
        if k < 0.4:
            cmds.append(["step", rng.choice([1, 1, 2, 3, 5, 0])])
        elif k < 0.6:
            cmds.append(["resume"])
        elif k < 0.75:
            cmds.append(["pause"])
        elif k < 0.9:
            cmds.append(gen_bp(rng))
        else:
            cmds.append(["clear"])
    for _ in range(4):
        cmds.append(["resume"])
    return cmds


def gen_bp(rng):
    k = rng.random()
    one = rng.random() < 0.5
    if k < 0.35:
        return ["bp", "time", rng.choice([0, 1, 1000, 500_000_000, 1_000_000_000, 2_000_000_000]), one]
    if k < 0.6:
        return ["bp", "count", rng.randint(0, 8), one]
    if k < 0.8:
        return ["bp", "type", rng.randrange(4), one]
    # MetricBreakpoint on an entity's handled-events counter, incl. conditions true at value 0
    return ["bp", "metric", rng.randrange(6), one, rng.randrange(6), rng.choice([0, 0, 1, 2, 3])]


def run_session(script, cmds, hooks=True):
    """Same retry rule as run_script: a per-command wall-clock timeout is reported only if it repeats
    with a twelve times longer limit."""
    o = _run_session_once(script, cmds, hooks, 10)
    if o["status"] == 3:
        o = _run_session_once(script, cmds, hooks, 120)
    return o


def _run_session_once(script, cmds, hooks, wall):
    from happysimulator.core.control.breakpoints import (EventCountBreakpoint, EventTypeBreakpoint, MetricBreakpoint,
                                                         TimeBreakpoint)
    from happysimulator.core.simulation import Simulation
    from happysimulator.core.temporal import Instant
    from hsverif.util import Timeout, time_limit

    w = build_world(script)
    sim = Simulation(entities=list(w.entities), **horizon_kwargs(script))
    w.sim_ref = sim
    schedule_pre(sim, w, script)
    pops = []
    w.sim_clock[0] = sim._clock
    w.prerun[0] = False
    instrument_pops(sim, pops, 10 ** 9, w)
    ctl = sim.control
    hook_log = []
    if hooks:
        ctl.on_event(lambda e: hook_log.append(["event", e.time.nanoseconds, e._sort_index, int(e.event_type[1:]),
                                                 sim._events_processed, [x.count for x in w.entities]]))
        ctl.on_time_advance(lambda t: hook_log.append(["time", t.nanoseconds]))
    started, failed, snaps, done_cmds = False, False, [], []
    for cmd in cmds:
        before = len(pops)
        before_ulog, before_hook = len(w.ulog), len(hook_log)
        try:
            with time_limit(wall):
                if cmd[0] == "pause":
                    ctl.pause()
                elif cmd[0] == "start":
                    if not started and not failed:
                        started = True
                        limit_pops(sim, pops, before + script["fuel"])
                        sim.run()
                elif cmd[0] == "step":
                    if not failed:
                        limit_pops(sim, pops, before + script["fuel"])
                        ctl.step(cmd[1])
                elif cmd[0] == "resume":
                    if not failed:
                        limit_pops(sim, pops, before + script["fuel"])
                        ctl.resume()
                elif cmd[0] == "clear":
                    ctl.clear_breakpoints()
                elif cmd[0] == "bp":
                    if cmd[1] == "time":
                        ctl.add_breakpoint(TimeBreakpoint(time=Instant(cmd[2]), one_shot=cmd[3]))
                    elif cmd[1] == "count":
                        ctl.add_breakpoint(EventCountBreakpoint(count=cmd[2], one_shot=cmd[3]))
                    elif cmd[1] == "metric":
                        ctl.add_breakpoint(MetricBreakpoint(entity_name=f"e{cmd[2]}", attribute="count",
                                                            operator=["gt", "ge", "lt", "le", "eq", "ne"][cmd[4]],
                                                            threshold=cmd[5], one_shot=cmd[3]))
                    else:
                        ctl.add_breakpoint(EventTypeBreakpoint(event_type=tname(cmd[2]), one_shot=cmd[3]))
        except Watchdog:
            del pops[before:], w.ulog[before_ulog:], hook_log[before_hook:]
            break                      # out of budget: the session is cut before this command
        except Timeout:
            return dict(status=3)
        except (RuntimeError, ValueError) as e:
            msg = str(e)
            if not (msg.startswith("Cannot") or msg.startswith("step count")):
                failed = True          # a handler raised inside the run
        done_cmds.append(cmd)
        phase = 3 if failed else (0 if not started else (1 if sim._is_paused else (2 if not sim._is_running else 1)))
        snaps.append([phase, sim._clock.now.nanoseconds, sim._events_processed, sim._event_heap.size(),
                      len(ctl._breakpoints)])
    return dict(status=0, cmds=done_cmds, snaps=snaps, pops=pops, ulog=w.ulog, hook_log=hook_log,
                created=w.created, cancelled_ever=[w.seq_of[id(ev)] for ev in w.keep if id(ev) in w.seq_of and ev._cancelled],
                rlog=w.rlog)


def limit_pops(sim, pops, limit):
    sim._event_heap._verif_limit = limit


def enc_cmd(c):
    if c[0] == "pause":
        return Raw("CmdPause")
    if c[0] == "start":
        return Raw("CmdStart")
    if c[0] == "step":
        return Ctor("CmdStep", c[1])
    if c[0] == "resume":
        return Raw("CmdResume")
    if c[0] == "clear":
        return Raw("CmdClearBps")
    if c[1] == "metric":
        return Ctor("CmdAddBp", Ctor("BMetric", c[2], c[4], c[5], bool(c[3])))
    kind = {"time": "BTime", "count": "BCount", "type": "BType"}[c[1]]
    return Ctor("CmdAddBp", Ctor(kind, c[2], bool(c[3])))


def enc_session_case(script, obs):
    end = None if script["end"] is None else SomeV(script["end"])
    dels = [(p[0], p[1], p[2], p[3]) for p in obs["pops"] if p[4] == "delivered"]
    return term((Nat(script["fuel"] + 1), (script["start"], end, enc_prog(script["prog"]), enc_pre(script["pre"]),
                                           [enc_cmd(c) for c in obs["cmds"]],
                                           ([tuple(s) for s in obs["snaps"]], dels, enc_ulog(obs["ulog"])))))


SESSION_CASE_TYPE = ("nat * (Z * option Z * program * list prespec * list cmd * "
                     "(list (Z * Z * Z * Z * Z) * list obs_delivery * list uentry))")
SESSION_IMPORTS = "From HS Require Import Base.Prelude Engine.Engine Engine.Script Engine.Control Engine.ControlScript."
