"""C12 helper — single-decree Paxos scenarios on the real PaxosNode / Network / Simulation.

A case is a JSON dict:
  n          cluster size (3..5); node i is named "p<i>" (string order = index order)
  retry_ms   PaxosNode.retry_delay in ms
  seed       seed of the `random` module (retry jitter is random.random())
  proposals  [[t_ms, node, value], ...]     client calls propose(value); start_phase1()
  delays     [d_ms, ...] one per message handed to the network, in hand-over order, cycled;
             d < 0 means "lost" (delivered after the end of the run)
  parts      [[t_ms, [group a], [group b], heal_ms], ...] real Network.partition()/heal
  end_ms     end of the run

Every handle_event call of every node is recorded: the input as the handler saw it, the
events it returned, and a snapshot of the node's state afterwards (trace replay tie).
"""
from __future__ import annotations

from hsverif.coq import Ctor, Nat, Raw, SomeV, term
from hsverif.family import Family, merge_stats, run_family

IMPORTS = "From HS Require Import Base.Prelude C12.Model."
LEVEL = "proof"

LOST_S = 10_000.0


def nm(i):
    return f"p{i}"


def idx(name):
    return int(name[1:])


def _bal(b):
    return None if b is None else [b.number, idx(b.node_id)]


def snapshot(node):
    fid = {id(f): i for i, f in enumerate(node._c12_futures)}
    futs = [[k, fid[id(f)]] for k, f in node._proposal_futures.items()]
    p1 = [[k, [[idx(r["from"]), (None if r["accepted_ballot"] is None else [r["accepted_ballot"][0], idx(r["accepted_ballot"][1])]),
                r["accepted_value"]] for r in rs]] for k, rs in node._phase1_responses.items()]
    return dict(
        promised=_bal(node._promised_ballot), acc_b=_bal(node._accepted_ballot), acc_v=node._accepted_value,
        cur=node._current_ballot.number, futs=futs, p1=p1,
        p2=[[k, v] for k, v in node._phase2_responses.items()],
        pvals=[[k, v] for k, v in node._proposed_values.items()],
        decided=node.is_decided, dec_v=node.decided_value,
        resolved=[[i, f.value] for i, f in enumerate(node._c12_futures) if f.is_resolved],
    )


def out_event(ev):
    md = ev.context.get("metadata", {})
    t = ev.event_type
    if t == "PaxosRetry":
        return ["Retry", md["original_ballot"]]
    d = idx(md["destination"])
    if t == "PaxosPrepare":
        return ["Prepare", d, md["ballot_number"], idx(md["ballot_node"])]
    if t == "PaxosPromise":
        ab = None if md["accepted_ballot_number"] is None else [md["accepted_ballot_number"], idx(md["accepted_ballot_node"])]
        return ["Promise", d, md["ballot_number"], idx(md["ballot_node"]), idx(md["from"]), ab, md["accepted_value"]]
    if t == "PaxosNack":
        return ["Nack", d, md["ballot_number"], idx(md["ballot_node"]), md["highest_ballot_number"], idx(md["highest_ballot_node"])]
    if t == "PaxosAccept":
        return ["Accept", d, md["ballot_number"], idx(md["ballot_node"]), md["value"]]
    if t == "PaxosAccepted":
        return ["Accepted", d, md["ballot_number"], idx(md["ballot_node"]), idx(md["from"])]
    if t == "PaxosDecided":
        return ["Decided", d, md["value"]]
    raise ValueError(f"unexpected output event {t}")


def in_event(ev):
    md = ev.context.get("metadata", {})
    t = ev.event_type
    src = idx(md["source"]) if "source" in md else None
    if t == "PaxosPrepare":
        return ["Prepare", src, md["ballot_number"], idx(md["ballot_node"])]
    if t == "PaxosPromise":
        ab = None if md.get("accepted_ballot_number") is None else [md["accepted_ballot_number"], idx(md["accepted_ballot_node"])]
        return ["Promise", md["ballot_number"], idx(md["from"]), ab, md.get("accepted_value")]
    if t == "PaxosNack":
        return ["Nack", md["ballot_number"], md["highest_ballot_number"]]
    if t == "PaxosAccept":
        return ["Accept", src, md["ballot_number"], idx(md["ballot_node"]), md["value"]]
    if t == "PaxosAccepted":
        return ["Accepted", md["ballot_number"]]
    if t == "PaxosDecided":
        return ["Decided", md.get("value")]
    if t == "PaxosRetry":
        return ["Retry", md["original_ballot"]]
    raise ValueError(f"unexpected input event {t}")


def run_paxos(c):
    import random

    from happysimulator.components.consensus.paxos import PaxosNode
    from happysimulator.components.network.link import NetworkLink
    from happysimulator.components.network.network import Network
    from happysimulator.core.event import Event
    from happysimulator.core.simulation import Simulation
    from happysimulator.core.temporal import Duration, Instant
    from happysimulator.distributions.latency_distribution import LatencyDistribution

    random.seed(c["seed"])
    trace = []
    script = {"i": 0}
    delays = c["delays"] or [1]

    class Scripted(LatencyDistribution):
        def __init__(self):
            super().__init__(0.001)

        def get_latency(self, current_time):
            d = delays[script["i"] % len(delays)]
            script["i"] += 1
            return Duration.from_seconds(LOST_S) if d < 0 else Duration(int(d) * 1_000_000)

    class RecNode(PaxosNode):
        def handle_event(self, event):
            inp = in_event(event)
            res = super().handle_event(event)
            outs = [out_event(e) for e in (res or [])]
            trace.append(dict(node=idx(self.name), t=event.time.nanoseconds if hasattr(event.time, "nanoseconds") else None,
                              inp=inp, outs=outs, st=snapshot(self)))
            return res

    n = c["n"]
    net = Network(name="net")
    nodes = [RecNode(name=nm(i), network=net, retry_delay=c["retry_ms"] / 1000.0) for i in range(n)]
    for nd in nodes:
        nd.set_peers(nodes)
        nd._c12_futures = []
    lat = Scripted()
    for i in range(n):
        for j in range(n):
            if i != j:
                net.add_link(nodes[i], nodes[j], NetworkLink(name=f"l{i}_{j}", latency=lat, egress=nodes[j]))
    sim = Simulation(end_time=Instant.from_seconds(c["end_ms"] / 1000.0), entities=[net, *nodes])

    def mk_propose(i, v):
        def fn(event):
            nd = nodes[i]
            f = nd.propose(v)
            nd._c12_futures.append(f)
            # a client whose future is already resolved (node had decided) does not start phase 1
            evs = [] if f.is_resolved else nd.start_phase1()
            trace.append(dict(node=i, t=None, inp=["Propose", v], outs=[out_event(e) for e in evs], st=snapshot(nd)))
            return evs
        return fn

    for k, (t, i, v) in enumerate(c["proposals"]):
        sim.schedule(Event.once(time=Instant.from_seconds(t / 1000.0), event_type=f"Propose{k}", fn=mk_propose(i, v)))
    for k, (t, ga, gb, heal) in enumerate(c.get("parts", [])):
        def cut(event, ga=ga, gb=gb):
            net.partition([nodes[a] for a in ga], [nodes[b] for b in gb])
        def heal_fn(event):
            net.heal_partition()
        sim.schedule(Event.once(time=Instant.from_seconds(t / 1000.0), event_type=f"Cut{k}", fn=cut))
        sim.schedule(Event.once(time=Instant.from_seconds(heal / 1000.0), event_type=f"Heal{k}", fn=heal_fn))
    from hsverif.util import run_bounded
    _, verdict = run_bounded(sim, max_events=100000, wall_s=20.0)
    final = [snapshot(nd) for nd in nodes]
    return dict(trace=trace, final=final, verdict=verdict, sent=script["i"])


def oracle_paxos(c, obs):
    """The C12 statement for single-decree Paxos, on the implementation's observations."""
    out = []
    if obs["verdict"] != "ok":
        return [dict(clause="run ends", verdict=obs["verdict"])]
    proposed = {p[2] for p in c["proposals"]}
    # reported decisions after every handled event: stable, proposed, agreeing
    cur = {}
    for k, s in enumerate(obs["trace"]):
        st = s["st"]
        i = s["node"]
        if i in cur and (not st["decided"] or st["dec_v"] != cur[i]):
            out.append(dict(clause="a reported decision never changes", node=i, step=k, was=cur[i], now=[st["decided"], st["dec_v"]]))
            break
        if st["decided"]:
            if i not in cur and st["dec_v"] not in proposed:
                out.append(dict(clause="decided value was proposed by some client", mechanism="decided-unproposed",
                                node=i, step=k, value=st["dec_v"], proposed=sorted(proposed),
                                what=f"node decided {st['dec_v']!r}, which no client proposed"))
            cur[i] = st["dec_v"]
        for fid, v in st["resolved"]:
            if not st["decided"] or v != st["dec_v"]:
                out.append(dict(clause="a proposer's future resolves with the decided value", node=i, step=k, fid=fid, value=v))
    vals = {repr(v) for v in cur.values()}
    if len(vals) > 1:
        out.append(dict(clause="any two nodes that report a decided value report the same value", mechanism="disagreement",
                        decided={str(i): v for i, v in cur.items()},
                        what=f"nodes decided different values {sorted(vals)}"))
    # liveness on a fault-free network with a single proposer
    if c.get("fault_free") and len(c["proposals"]) >= 1 and len({p[1] for p in c["proposals"]}) == 1:
        for i, st in enumerate(obs["final"]):
            if not st["decided"]:
                out.append(dict(clause="single proposer on a fault-free network: decided at every node", node=i))
                break
    # dedupe by clause
    seen, res = set(), []
    for f in out:
        if f["clause"] not in seen:
            seen.add(f["clause"])
            res.append(f)
    return res


def gen_paxos(rng):
    n = rng.choice([3, 3, 3, 4, 5])
    mode = rng.choice(["single", "duel", "duel", "melee", "melee", "lossy"])
    fault_free = mode == "single"
    nprop = 1 if mode == "single" else (2 if mode == "duel" else rng.randint(2, 4))
    retry = rng.choice([5, 20, 50, 200])
    props = []
    for _ in range(nprop):
        props.append([rng.choice([0, 0, 1, 3, 10, 30, 100]) + 1, rng.randrange(n), rng.randint(1, 3)])
    if mode == "single":
        p = props[0][1]
        props = [[x[0], p, x[2]] for x in props]
    props.sort()
    pal = rng.choice([[1, 2, 3], [1, 1, 1, 2, 40], [1, 2, 3, 5, 8, 13, 60, 200], [1, 5, 30, 150, 700]])
    nd = rng.randint(5, 60)
    delays = []
    for _ in range(nd):
        d = rng.choice(pal)
        if mode == "lossy" and rng.random() < 0.15:
            d = -1
        delays.append(d)
    parts = []
    if mode in ("melee", "lossy") and rng.random() < 0.4:
        t = rng.choice([0, 2, 5, 20, 100])
        members = list(range(n))
        rng.shuffle(members)
        k = rng.randint(1, n - 1)
        parts.append([t, sorted(members[:k]), sorted(members[k:]), t + rng.choice([5, 50, 500])])
    return dict(n=n, retry_ms=retry, seed=rng.randrange(1000), proposals=props, delays=delays, parts=parts,
                end_ms=8000, fault_free=fault_free, mode=mode)


# --------------------------------------------------------------------------- encoding (Paxos)
def _ov(v):
    return None if v is None else SomeV(v)


def _ob(b):
    return None if b is None else SomeV((b[0], b[1]))


def enc_in(i):
    k = i[0]
    if k == "Propose":
        return Ctor("IPropose", i[1])
    if k == "Prepare":
        return Ctor("IPrepare", -1 if i[1] is None else i[1], i[2], i[3])
    if k == "Promise":
        return Ctor("IPromise", i[1], i[2], _ob(i[3]), _ov(i[4]))
    if k == "Nack":
        return Ctor("INack", i[1], i[2])
    if k == "Accept":
        return Ctor("IAccept", -1 if i[1] is None else i[1], i[2], i[3], _ov(i[4]))
    if k == "Accepted":
        return Ctor("IAccepted", i[1])
    if k == "Decided":
        return Ctor("IDecided", _ov(i[1]))
    if k == "Retry":
        return Ctor("IRetry", i[1])
    raise ValueError(k)


def enc_out(o):
    k = o[0]
    if k == "Prepare":
        return Ctor("OPrepare", o[1], o[2], o[3])
    if k == "Promise":
        return Ctor("OPromise", o[1], o[2], o[3], o[4], _ob(o[5]), _ov(o[6]))
    if k == "Nack":
        return Ctor("ONack", *o[1:])
    if k == "Accept":
        return Ctor("OAccept", o[1], o[2], o[3], _ov(o[4]))
    if k == "Accepted":
        return Ctor("OAccepted", *o[1:])
    if k == "Decided":
        return Ctor("ODecided", o[1], _ov(o[2]))
    if k == "Retry":
        return Ctor("ORetry", o[1])
    raise ValueError(k)


def enc_state(st):
    return Ctor("mkO", _ob(st["promised"]), _ob(st["acc_b"]), _ov(st["acc_v"]), st["cur"],
                [(k, f) for k, f in st["futs"]],
                [(k, [(r[0], _ob(r[1]), _ov(r[2])) for r in rs]) for k, rs in st["p1"]],
                [(k, v) for k, v in st["p2"]],
                [(k, _ov(v)) for k, v in st["pvals"]],
                bool(st["decided"]), _ov(st["dec_v"]),
                [(f, _ov(v)) for f, v in st["resolved"]])


def encode_paxos(c, obs):
    steps = [(s["node"], enc_in(s["inp"]), [enc_out(o) for o in s["outs"]], enc_state(s["st"])) for s in obs["trace"]]
    return term((c["n"], steps))


# --------------------------------------------------------------------------- families
def describe_paxos(c):
    return f"paxos n={c['n']} {c.get('mode', 'corpus')} props={len(c['proposals'])}"


def nontrivial_paxos(c, o):
    # at least one nack (competing ballots) or a promise beyond the quorum reached some proposer
    return any(s["inp"][0] in ("Nack", "Retry") for s in o["trace"]) or len(c["proposals"]) > 1


def attribute_paxos(c, o, f):
    return None


FAMILIES = [
    Family("paxos", IMPORTS, "ok_paxos", "Z * list rec_step", gen_paxos, run_paxos, encode_paxos, oracle_paxos,
           nontrivial_paxos, attribute_paxos, parallel=True, describe=describe_paxos),
]

COQ_FILES = ["C12/Model.v", "C12/PaxosNode.v", "C12/Props.v"]

TRUSTED = [
    "Coq 8.16.1 kernel (coqc, vm_compute for case evaluation); no native_compute; no axioms",
    "harness/props/c12.py: scenario generators, recorders (subclass of PaxosNode overriding handle_event), encoders, oracle",
    "trace replay compares private attributes _promised_ballot, _accepted_ballot, _accepted_value, _current_ballot, "
    "_proposal_futures, _phase1_responses, _phase2_responses, _proposed_values (no public accessor) with the model after every handler call",
    "node names p0..p4: string order of names equals integer order of ids (ballot tie-break)",
]


def run(ctx):
    ctx.prove(COQ_FILES, allowed_axioms=(), trusted_base=TRUSTED)
    stats = []
    stats.append(run_family(ctx, FAMILIES[0], ctx.n(250, 6000)))
    merge_stats(ctx, stats, "random schedules (per-message delays, loss, partitions, retry jitter) over 3-5 nodes and 1-4 proposals; "
                "non-trivial = competing ballots (a nack/retry occurred or more than one proposal); distinct by JSON of the input")
    ctx.finish_obligations()


def replay(data):
    fam = {f.name: f for f in FAMILIES}[data["detail"]["family"]]
    c = data["detail"]["case"]
    obs = fam.impl(c)
    fails = fam.oracle(c, obs)
    print("oracle failures:", fails)
    return 1 if fails else 0
