"""C12 helper — single-decree Paxos scenarios on the real PaxosNode / Network / Simulation.

A case is a JSON dict:
  n          cluster size (3..5); node i is named "p<i>" (string order = index order)
  retry_ms   PaxosNode.retry_delay in ms
  seed       seed of the `random` module (retry jitter is random.random())
  proposals  [[t_ms, node, value], ...]     client calls propose(value); start_phase1()
  delays     [d_ms, ...] one per message handed to the network, in hand-over order, cycled;
             d < 0 means "lost" (delivered after the end of the run)
  parts      [[t_ms, [group a], [group b], heal_ms], ...] real Network.partition()/heal
  end_ms     end of the run

Every handle_event call of every node is recorded: the input as the handler saw it, the
events it returned, and a snapshot of the node's state afterwards (trace replay tie).
"""
from __future__ import annotations

from hsverif.coq import Ctor, Nat, Raw, SomeV, term
from hsverif.family import Family, merge_stats, run_family

IMPORTS = "From HS Require Import Base.Prelude C12.Model."
LEVEL = "proof"

import threading

_IMPL_LOCK = threading.RLock()


def locked(fn):
    """Implementation drivers seed and use the global `random` module: run one at a time."""
    import functools

    @functools.wraps(fn)
    def w(c):
        with _IMPL_LOCK:
            return fn(c)
    return w


def run_sim_bounded(sim, max_events=100000, wall_s=20.0):
    """hsverif.util.run_bounded, usable from worker threads too (the wall-clock limit needs
    signals and is only armed in the main thread; the event-count watchdog always is)."""
    from hsverif.util import FrozenClock, run_bounded
    if threading.current_thread() is threading.main_thread():
        return run_bounded(sim, max_events=max_events, wall_s=wall_s)
    heap = sim._event_heap
    orig_pop = heap.pop
    st = {"t": None, "same": 0, "total": 0}

    def pop():
        ev = orig_pop()
        st["total"] += 1
        if ev.time == st["t"]:
            st["same"] += 1
            if st["same"] > 5000:
                raise FrozenClock("at t=")
        else:
            st["t"], st["same"] = ev.time, 0
        if st["total"] > max_events:
            raise FrozenClock("total")
        return ev

    heap.pop = pop
    try:
        return sim.run(), "ok"
    except FrozenClock as e:
        return None, "frozen-clock" if "at t=" in str(e) else "too-many-events"
    finally:
        heap.pop = orig_pop

LOST_S = 10_000.0


def nm(i):
    return f"p{i}"


def idx(name):
    return int(name[1:])


def _bal(b):
    return None if b is None else [b.number, idx(b.node_id)]


def snapshot(node):
    fid = {id(f): i for i, f in enumerate(node._c12_futures)}
    futs = [[k, fid[id(f)]] for k, f in node._proposal_futures.items()]
    p1 = [[k, [[idx(r["from"]), (None if r["accepted_ballot"] is None else [r["accepted_ballot"][0], idx(r["accepted_ballot"][1])]),
                r["accepted_value"]] for r in rs]] for k, rs in node._phase1_responses.items()]
    return dict(
        promised=_bal(node._promised_ballot), acc_b=_bal(node._accepted_ballot), acc_v=node._accepted_value,
        cur=node._current_ballot.number, futs=futs, p1=p1,
        p2=[[k, v] for k, v in node._phase2_responses.items()],
        pvals=[[k, v] for k, v in node._proposed_values.items()],
        decided=node.is_decided, dec_v=node.decided_value,
        resolved=[[i, f.value] for i, f in enumerate(node._c12_futures) if f.is_resolved],
    )


def out_event(ev):
    md = ev.context.get("metadata", {})
    t = ev.event_type
    if t == "PaxosRetry":
        return ["Retry", md["original_ballot"]]
    d = idx(md["destination"])
    if t == "PaxosPrepare":
        return ["Prepare", d, md["ballot_number"], idx(md["ballot_node"])]
    if t == "PaxosPromise":
        ab = None if md["accepted_ballot_number"] is None else [md["accepted_ballot_number"], idx(md["accepted_ballot_node"])]
        return ["Promise", d, md["ballot_number"], idx(md["ballot_node"]), idx(md["from"]), ab, md["accepted_value"]]
    if t == "PaxosNack":
        return ["Nack", d, md["ballot_number"], idx(md["ballot_node"]), md["highest_ballot_number"], idx(md["highest_ballot_node"])]
    if t == "PaxosAccept":
        return ["Accept", d, md["ballot_number"], idx(md["ballot_node"]), md["value"]]
    if t == "PaxosAccepted":
        return ["Accepted", d, md["ballot_number"], idx(md["ballot_node"]), idx(md["from"])]
    if t == "PaxosDecided":
        return ["Decided", d, md["value"]]
    raise ValueError(f"unexpected output event {t}")


def in_event(ev):
    md = ev.context.get("metadata", {})
    t = ev.event_type
    src = idx(md["source"]) if "source" in md else None
    if t == "PaxosPrepare":
        return ["Prepare", src, md["ballot_number"], idx(md["ballot_node"])]
    if t == "PaxosPromise":
        ab = None if md.get("accepted_ballot_number") is None else [md["accepted_ballot_number"], idx(md["accepted_ballot_node"])]
        return ["Promise", md["ballot_number"], idx(md["from"]), ab, md.get("accepted_value")]
    if t == "PaxosNack":
        return ["Nack", md["ballot_number"], md["highest_ballot_number"]]
    if t == "PaxosAccept":
        return ["Accept", src, md["ballot_number"], idx(md["ballot_node"]), md["value"]]
    if t == "PaxosAccepted":
        return ["Accepted", md["ballot_number"]]
    if t == "PaxosDecided":
        return ["Decided", md.get("value")]
    if t == "PaxosRetry":
        return ["Retry", md["original_ballot"]]
    raise ValueError(f"unexpected input event {t}")


@locked
def run_paxos(c):
    import random

    from happysimulator.components.consensus.paxos import PaxosNode
    from happysimulator.components.network.link import NetworkLink
    from happysimulator.components.network.network import Network
    from happysimulator.core.event import Event
    from happysimulator.core.simulation import Simulation
    from happysimulator.core.temporal import Duration, Instant
    from happysimulator.distributions.latency_distribution import LatencyDistribution

    random.seed(c["seed"])
    trace = []
    script = {"i": 0}
    delays = c["delays"] or [1]

    class Scripted(LatencyDistribution):
        def __init__(self):
            super().__init__(0.001)

        def get_latency(self, current_time):
            d = delays[script["i"] % len(delays)]
            script["i"] += 1
            return Duration.from_seconds(LOST_S) if d < 0 else Duration(int(d) * 1_000_000)

    class RecNode(PaxosNode):
        def handle_event(self, event):
            inp = in_event(event)
            res = super().handle_event(event)
            outs = [out_event(e) for e in (res or [])]
            trace.append(dict(node=idx(self.name), t=event.time.nanoseconds if hasattr(event.time, "nanoseconds") else None,
                              inp=inp, outs=outs, st=snapshot(self)))
            return res

    n = c["n"]
    net = Network(name="net")
    nodes = [RecNode(name=nm(i), network=net, retry_delay=c["retry_ms"] / 1000.0) for i in range(n)]
    for nd in nodes:
        nd.set_peers(nodes)
        nd._c12_futures = []
    lat = Scripted()
    for i in range(n):
        for j in range(n):
            if i != j:
                net.add_link(nodes[i], nodes[j], NetworkLink(name=f"l{i}_{j}", latency=lat, egress=nodes[j]))
    sim = Simulation(end_time=Instant.from_seconds(c["end_ms"] / 1000.0), entities=[net, *nodes])

    def mk_propose(i, v):
        def fn(event):
            nd = nodes[i]
            f = nd.propose(v)
            nd._c12_futures.append(f)
            # a client whose future is already resolved (node had decided) does not start phase 1
            evs = [] if f.is_resolved else nd.start_phase1()
            trace.append(dict(node=i, t=None, inp=["Propose", v], outs=[out_event(e) for e in evs], st=snapshot(nd)))
            return evs
        return fn

    for k, (t, i, v) in enumerate(c["proposals"]):
        sim.schedule(Event.once(time=Instant.from_seconds(t / 1000.0), event_type=f"Propose{k}", fn=mk_propose(i, v)))
    for k, (t, ga, gb, heal) in enumerate(c.get("parts", [])):
        def cut(event, ga=ga, gb=gb):
            net.partition([nodes[a] for a in ga], [nodes[b] for b in gb])
        def heal_fn(event):
            net.heal_partition()
        sim.schedule(Event.once(time=Instant.from_seconds(t / 1000.0), event_type=f"Cut{k}", fn=cut))
        sim.schedule(Event.once(time=Instant.from_seconds(heal / 1000.0), event_type=f"Heal{k}", fn=heal_fn))
    _, verdict = run_sim_bounded(sim, max_events=100000, wall_s=20.0)
    final = [snapshot(nd) for nd in nodes]
    return dict(trace=trace, final=final, verdict=verdict, sent=script["i"])


def oracle_paxos(c, obs):
    """The C12 statement for single-decree Paxos, on the implementation's observations."""
    out = []
    if obs["verdict"] != "ok":
        return [dict(clause="run ends", verdict=obs["verdict"])]
    proposed = {p[2] for p in c["proposals"]}
    # reported decisions after every handled event: stable, proposed, agreeing
    cur = {}
    for k, s in enumerate(obs["trace"]):
        st = s["st"]
        i = s["node"]
        if i in cur and (not st["decided"] or st["dec_v"] != cur[i]):
            out.append(dict(clause="a reported decision never changes", node=i, step=k, was=cur[i], now=[st["decided"], st["dec_v"]]))
            break
        if st["decided"]:
            if i not in cur and st["dec_v"] not in proposed:
                out.append(dict(clause="decided value was proposed by some client", mechanism="decided-unproposed",
                                node=i, step=k, value=st["dec_v"], proposed=sorted(proposed),
                                what=f"node decided {st['dec_v']!r}, which no client proposed"))
            cur[i] = st["dec_v"]
        for kk, rs in st["p1"]:
            if len({r[0] for r in rs}) != len(rs):
                out.append(dict(clause="phase-1 responses of a ballot come from distinct senders (c12_paxos_distinct_responders)",
                                node=i, step=k, ballot=kk, senders=[r[0] for r in rs]))
        for fid, v in st["resolved"]:
            if not st["decided"] or v != st["dec_v"]:
                out.append(dict(clause="a proposer's future resolves with the decided value", node=i, step=k, fid=fid, value=v))
    # implementation-side check of c12_paxos_decided_is_chosen: a value reported as decided is a CHOSEN value
    # (some ballot under which a majority of nodes accepted exactly that value)
    votes, announced = set(), set()
    maj = c["n"] // 2 + 1
    for k, s in enumerate(obs["trace"]):
        st = s["st"]
        if st["acc_b"] is not None:
            votes.add((s["node"], tuple(st["acc_b"]), st["acc_v"]))
        for o in s["outs"]:
            if o[0] == "Decided" and repr(o[2]) not in announced:
                announced.add(repr(o[2]))
                ballots = {b for (_, b, v) in votes if v == o[2]}
                if not any(len({a for (a, b2, v) in votes if b2 == b and v == o[2]}) >= maj for b in ballots):
                    out.append(dict(clause="a decided value was accepted by a majority under one ballot (chosen)", node=s["node"], step=k, value=o[2]))
    vals = {repr(v) for v in cur.values()}
    if len(vals) > 1:
        out.append(dict(clause="any two nodes that report a decided value report the same value", mechanism="disagreement",
                        decided={str(i): v for i, v in cur.items()},
                        what=f"nodes decided different values {sorted(vals)}"))
    # liveness on a fault-free network with a single proposer
    if c.get("fault_free") and len(c["proposals"]) >= 1 and len({p[1] for p in c["proposals"]}) == 1:
        for i, st in enumerate(obs["final"]):
            if not st["decided"]:
                out.append(dict(clause="single proposer on a fault-free network: decided at every node", node=i))
                break
    # dedupe by clause
    seen, res = set(), []
    for f in out:
        if f["clause"] not in seen:
            seen.add(f["clause"])
            res.append(f)
    return res


def gen_paxos_ladder(rng):
    """Several proposers with distinct values on a very lossy network: ballots complete only
    partially, so that a later proposer's quorum of promises reports DIFFERENT accepted ballots
    with different values (the case in which the highest-accepted-ballot rule matters)."""
    n = rng.choice([4, 5, 5])
    k = rng.randint(3, 4)
    nodes = rng.sample(range(n), min(k, n))
    t = 1
    props = []
    for j, nd in enumerate(nodes):
        props.append([t, nd, j + 1])
        t += rng.choice([3, 10, 25, 60])
    loss = rng.choice([0.25, 0.35, 0.45])
    pal = rng.choice([[1, 2, 3], [1, 2, 5, 9], [1, 4, 12, 30]])
    delays = [(-1 if rng.random() < loss else rng.choice(pal)) for _ in range(rng.randint(30, 80))]
    return dict(n=n, retry_ms=rng.choice([5, 20, 50]), seed=rng.randrange(1000), proposals=props, delays=delays, parts=[],
                end_ms=3000, fault_free=False, mode="ladder")


def gen_paxos_classic(rng):
    """The textbook schedule: value x accepted by one node under ballot b1, value y accepted under a
    higher ballot b2 (sometimes chosen), then a third ballot whose quorum of promises reports both."""
    a, c3 = rng.choice([(0, 1), (0, 2), (1, 2)])
    vals = rng.sample([1, 2, 3], 3)
    j = lambda: rng.choice([1, 1, 2, 3])
    lost = -1
    # send order: P a->*, P a->*, Promise, A, A | P c->*, P c->*, Promise, A, A, Accepted, D, D | ...
    delays = [j(), j(), j(), lost, lost, j(), j(), j(), rng.choice([lost, j()]), j(), j(), rng.choice([lost, j()]), j()]
    # which Prepare is lost depends on the roles: lose the first proposer's Prepare to the second proposer and back
    order_a = [x for x in range(3) if x != a]
    order_c = [x for x in range(3) if x != c3]
    delays[order_a.index(c3)] = lost
    delays[5 + order_c.index(a)] = lost
    delays += [j() for _ in range(50)]
    t2 = rng.choice([15, 20, 40])
    return dict(n=3, retry_ms=rng.choice([50, 500]), seed=rng.randrange(1000),
                proposals=[[1, a, vals[0]], [t2, c3, vals[1]], [2 * t2, rng.choice([a, a, 3 - a - c3]), vals[2]]],
                delays=delays, parts=[], end_ms=3000, fault_free=False, mode="classic")


def gen_paxos(rng):
    r = rng.random()
    if r < 0.15:
        return gen_paxos_classic(rng)
    if r < 0.4:
        return gen_paxos_ladder(rng)
    n = rng.choice([3, 3, 3, 4, 5])
    mode = rng.choice(["single", "duel", "duel", "melee", "melee", "lossy"])
    fault_free = mode == "single"
    nprop = 1 if mode == "single" else (2 if mode == "duel" else rng.randint(2, 4))
    retry = rng.choice([5, 20, 50, 200])
    props = []
    for _ in range(nprop):
        props.append([rng.choice([0, 0, 1, 3, 10, 30, 100]) + 1, rng.randrange(n), rng.randint(1, 3)])
    if mode == "single":
        p = props[0][1]
        props = [[x[0], p, x[2]] for x in props]
    props.sort()
    pal = rng.choice([[1, 2, 3], [1, 1, 1, 2, 40], [1, 2, 3, 5, 8, 13, 60, 200], [1, 5, 30, 150, 700]])
    nd = rng.randint(5, 60)
    delays = []
    for _ in range(nd):
        d = rng.choice(pal)
        if mode == "lossy" and rng.random() < 0.15:
            d = -1
        delays.append(d)
    parts = []
    if mode in ("melee", "lossy") and rng.random() < 0.4:
        t = rng.choice([0, 2, 5, 20, 100])
        members = list(range(n))
        rng.shuffle(members)
        k = rng.randint(1, n - 1)
        parts.append([t, sorted(members[:k]), sorted(members[k:]), t + rng.choice([5, 50, 500])])
    return dict(n=n, retry_ms=retry, seed=rng.randrange(1000), proposals=props, delays=delays, parts=parts,
                end_ms=8000, fault_free=fault_free, mode=mode)


# --------------------------------------------------------------------------- encoding (Paxos)
def _ov(v):
    return Raw("NZ") if v is None else Ctor("SZ", v)


def _ob(b):
    return Raw("NB") if b is None else Ctor("SB", b[0], b[1])


def enc_in(i):
    k = i[0]
    if k == "Propose":
        return Ctor("IPropose", i[1])
    if k == "Prepare":
        return Ctor("IPrepare", -1 if i[1] is None else i[1], i[2], i[3])
    if k == "Promise":
        return Ctor("IPromise", i[1], i[2], _ob(i[3]), _ov(i[4]))
    if k == "Nack":
        return Ctor("INack", i[1], i[2])
    if k == "Accept":
        return Ctor("IAccept", -1 if i[1] is None else i[1], i[2], i[3], _ov(i[4]))
    if k == "Accepted":
        return Ctor("IAccepted", i[1])
    if k == "Decided":
        return Ctor("IDecided", _ov(i[1]))
    if k == "Retry":
        return Ctor("IRetry", i[1])
    raise ValueError(k)


def enc_out(o):
    k = o[0]
    if k == "Prepare":
        return Ctor("OPrepare", o[1], o[2], o[3])
    if k == "Promise":
        return Ctor("OPromise", o[1], o[2], o[3], o[4], _ob(o[5]), _ov(o[6]))
    if k == "Nack":
        return Ctor("ONack", *o[1:])
    if k == "Accept":
        return Ctor("OAccept", o[1], o[2], o[3], _ov(o[4]))
    if k == "Accepted":
        return Ctor("OAccepted", *o[1:])
    if k == "Decided":
        return Ctor("ODecided", o[1], _ov(o[2]))
    if k == "Retry":
        return Ctor("ORetry", o[1])
    raise ValueError(k)


def enc_state(st):
    return Ctor("mkO", _ob(st["promised"]), _ob(st["acc_b"]), _ov(st["acc_v"]), st["cur"],
                [Ctor("ZZ", k, f) for k, f in st["futs"]],
                [Ctor("P1E", k, [Ctor("RSP", r[0], _ob(r[1]), _ov(r[2])) for r in rs]) for k, rs in st["p1"]],
                [Ctor("ZZ", k, v) for k, v in st["p2"]],
                [Ctor("ZOZ", k, _ov(v)) for k, v in st["pvals"]],
                bool(st["decided"]), _ov(st["dec_v"]),
                [Ctor("ZOZ", f, _ov(v)) for f, v in st["resolved"]])


def encode_paxos(c, obs):
    steps = [Ctor("RS", s["node"], enc_in(s["inp"]), [enc_out(o) for o in s["outs"]], enc_state(s["st"])) for s in obs["trace"]]
    return "(" + term(c["n"]) + ", " + term(steps) + ")"


# --------------------------------------------------------------------------- distributed lock
def lk(i):
    return f"L{i}"


def cl(i):
    return f"c{i}"


def gen_lock(rng):
    nl, nc = rng.randint(1, 3), rng.randint(2, 4)
    ops = []
    t = 0
    for _ in range(rng.randint(3, 40)):
        t += rng.choice([0, 1, 1, 2, 5, 20])
        k = rng.random()
        L, C = rng.randrange(nl), rng.randrange(nc)
        if k < 0.35:
            ops.append([t, "acq", L, C])
        elif k < 0.45:
            ops.append([t, "evacq", L, C])
        elif k < 0.6:
            ops.append([t, "try", L, C])
        elif k < 0.85:
            ops.append([t, "rel", L, "cur" if rng.random() < 0.7 else rng.randint(0, 8)])
        else:
            ops.append([t, "evrel", L, "cur" if rng.random() < 0.7 else rng.randint(0, 8)])
    return dict(maxw=rng.choice([0, 0, 1, 2]), lease_ms=rng.choice([3, 10, 30, 100000]), ops=ops,
                schedule_expiry=rng.random() < 0.8)


@locked
def run_lock(c):
    from happysimulator.components.consensus.distributed_lock import DistributedLock
    from happysimulator.core.event import Event
    from happysimulator.core.simulation import Simulation
    from happysimulator.core.temporal import Instant

    trace = []

    def g2l(g):
        return None if g is None else [int(g.lock_name[1:]), g.fencing_token, int(g.holder[1:])]

    class RecLock(DistributedLock):
        def __init__(self, *a, **k):
            super().__init__(*a, **k)
            self.futs = []

        def snap(self):
            fid = {id(f): i for i, f in enumerate(self.futs)}
            st = self.stats
            return dict(nt=self._next_token,
                        locks=[[int(n[1:]), None if s.holder is None else int(s.holder[1:]), s.fencing_token,
                                [[int(r[1:]), fid[id(f)]] for r, f in s.waiters]] for n, s in self._locks.items()],
                        resolved=[[i, g2l(f.value)] for i, f in enumerate(self.futs) if f.is_resolved],
                        ctr=[st.total_acquires, st.total_releases, st.total_expirations, st.total_rejections],
                        active=st.active_locks, tw=st.total_waiters)

        def acquire(self, lock_name, requester):
            f = super().acquire(lock_name, requester)
            self.futs.append(f)
            trace.append(dict(op=["acq", int(lock_name[1:]), int(requester[1:])], res=["fut", len(self.futs) - 1], st=self.snap()))
            return f

        def try_acquire(self, lock_name, requester):
            g = super().try_acquire(lock_name, requester)
            trace.append(dict(op=["try", int(lock_name[1:]), int(requester[1:])], res=["grant", g2l(g)], st=self.snap()))
            return g

        def release(self, lock_name, fencing_token):
            b = super().release(lock_name, fencing_token)
            trace.append(dict(op=["rel", int(lock_name[1:]), fencing_token], res=["bool", b], st=self.snap()))
            return b

        def _handle_lease_expiry(self, event):
            md = event.context.get("metadata", {})
            r = super()._handle_lease_expiry(event)
            trace.append(dict(op=["exp", int(md["lock_name"][1:]), md["fencing_token"]], res=["none"], st=self.snap()))
            return r

    lock = RecLock("lock", lease_duration=c["lease_ms"] / 1000.0, max_waiters=c["maxw"])
    sim = Simulation(end_time=Instant.from_seconds(500.0), entities=[lock])
    scheduled = set()

    def pending():
        ev = getattr(lock, "_pending_expiry", None)
        if c["schedule_expiry"] and ev is not None and id(ev) not in scheduled:
            scheduled.add(id(ev))
            return [ev]
        return []

    def mk(op):
        def fn(event):
            _, kind, L, x = op
            out = []
            if kind == "acq":
                lock.acquire(lk(L), cl(x))
            elif kind == "try":
                lock.try_acquire(lk(L), cl(x))
            elif kind in ("rel", "evrel"):
                tok = x
                if x == "cur":
                    tok = lock._locks[lk(L)].fencing_token if lk(L) in lock._locks else 0
                if kind == "rel":
                    lock.release(lk(L), tok)
                else:
                    out.append(Event(time=lock.now, event_type="LockReleaseRequest", target=lock,
                                     context={"metadata": {"lock_name": lk(L), "fencing_token": tok}}))
            elif kind == "evacq":
                out.append(Event(time=lock.now, event_type="LockAcquireRequest", target=lock,
                                 context={"metadata": {"lock_name": lk(L), "requester": cl(x)}}))
            return out + pending()
        return fn

    for k, op in enumerate(c["ops"]):
        sim.schedule(Event.once(time=Instant.from_seconds(op[0] / 1000.0), event_type=f"op{k}", fn=mk(op)))
    # expiry events created by waiter grants inside release/expiry are picked up by a poller
    def poll(event):
        return pending()
    for k in range(0, (c["ops"][-1][0] if c["ops"] else 0) + 50):
        sim.schedule(Event.once(time=Instant.from_seconds((k + 0.5) / 1000.0), event_type="poll", fn=poll))
    _, verdict = run_sim_bounded(sim, wall_s=20.0)
    return dict(trace=trace, verdict=verdict)


def oracle_lock(c, obs):
    if obs["verdict"] != "ok":
        return [dict(clause="run ends", verdict=obs["verdict"])]
    out = []
    seen_tokens = {}          # token -> (lock, holder)
    order = []                # tokens in order of first appearance
    last_nt = 1
    for k, s in enumerate(obs["trace"]):
        grants = []
        if s["res"][0] == "grant" and s["res"][1] is not None:
            grants.append(s["res"][1])
        grants += [g for _, g in s["st"]["resolved"] if g is not None]
        grants += [[L, t, h] for L, h, t, _ in s["st"]["locks"] if h is not None]
        for L, t, h in grants:
            if t in seen_tokens:
                if seen_tokens[t] != (L, h):
                    out.append(dict(clause="a fencing token identifies one grant", step=k, token=t, a=seen_tokens[t], b=[L, h]))
            else:
                if order and t <= order[-1]:
                    out.append(dict(clause="fencing tokens strictly increase across grants", step=k, token=t, previous=order[-1]))
                seen_tokens[t] = (L, h)
                order.append(t)
        if s["st"]["nt"] < last_nt:
            out.append(dict(clause="fencing tokens strictly increase across grants", step=k, what="_next_token decreased"))
        last_nt = s["st"]["nt"]
        # the current holder of a lock holds the newest token granted for that lock
        for L, h, t, ws in s["st"]["locks"]:
            if h is not None:
                newer = [x for x in order if x > t and seen_tokens[x][0] == L]
                if newer:
                    out.append(dict(clause="holder's token is the newest token of its lock", step=k, lock=L, token=t, newer=newer))
            if h is not None and any(r == h for r, _ in ws) and False:
                pass
    seen, res = set(), []
    for f in out:
        if f["clause"] not in seen:
            seen.add(f["clause"])
            res.append(f)
    return res


def encode_lock(c, obs):
    def g(x):
        return None if x is None else SomeV((x[0], x[1], x[2]))
    steps = []
    for s in obs["trace"]:
        o = s["op"]
        op = Ctor({"acq": "LAcquire", "try": "LTry", "rel": "LRelease", "exp": "LExpire"}[o[0]], o[1], o[2])
        r = s["res"]
        res = (Ctor("RFuture", r[1]) if r[0] == "fut" else Ctor("RGrant", g(r[1])) if r[0] == "grant"
               else Ctor("RBool", bool(r[1])) if r[0] == "bool" else Ctor("RNone"))
        st = s["st"]
        ob = (st["nt"], [(L, (None if h is None else SomeV(h), t, [(a, b) for a, b in ws])) for L, h, t, ws in st["locks"]],
              [(f, g(x)) for f, x in st["resolved"]], tuple(st["ctr"]))
        steps.append((op, res, ob))
    return term((c["maxw"], steps))


# --------------------------------------------------------------------------- Multi-Paxos / Flexible Paxos
def mnm(i):
    return f"m{i}"


def gen_multi(rng):
    n = rng.choice([3, 3, 4, 5])
    flex = rng.random() < 0.5
    if flex:
        pairs = [(a, b) for a in range(1, n + 1) for b in range(1, n + 1) if a + b > n]
        q1, q2 = rng.choice(pairs)
    else:
        q1 = q2 = n // 2 + 1
    mode = rng.choice(["stable", "stable", "takeover", "takeover", "chaos"])
    fault_free = mode == "stable"
    ops = []
    leader = rng.randrange(n)
    ops.append([1, "start", leader, 0])
    cmd = 1
    t = 1
    for _ in range(rng.randint(1, 6)):
        t += rng.choice([0, 1, 5, 20, 60])
        k = rng.random()
        if mode != "stable" and k < 0.3:
            ops.append([t, "start", rng.randrange(n), 0])
        else:
            who = leader if (mode == "stable" or rng.random() < 0.6) else rng.randrange(n)
            ops.append([t, "submit", who, cmd])
            cmd += 1
    if mode == "stable" and rng.random() < 0.5:
        # a command queued before the leader is established
        ops.insert(0, [0, "submit", leader, cmd])
    pal = rng.choice([[1, 2, 3], [1, 1, 2, 40], [1, 3, 8, 30, 90]])
    delays = [(-1 if (mode == "chaos" and rng.random() < 0.12) else rng.choice(pal)) for _ in range(rng.randint(5, 40))]
    parts = []
    if mode == "chaos" and rng.random() < 0.5:
        members = list(range(n))
        rng.shuffle(members)
        k = rng.randint(1, n - 1)
        tt = rng.choice([2, 10, 40])
        parts.append([tt, sorted(members[:k]), sorted(members[k:]), tt + rng.choice([10, 80])])
    return dict(n=n, flex=flex, q1=q1, q2=q2, hb_ms=rng.choice([25, 60, 150]), ops=ops, delays=delays, parts=parts,
                end_ms=rng.choice([200, 400]), fault_free=fault_free, mode=mode)


def msnap(node, futs):
    fid = {id(f): i for i, f in enumerate(futs)}
    return dict(
        log=[[e.term, e.command["value"]] for e in node.log.entries_after(0)], commit=node.log.commit_index,
        applied=node._last_applied, bal=[node._current_ballot.number, int(node._current_ballot.node_id[1:])],
        leader=None if node.leader is None else int(node.leader[1:]), isl=node.is_leader,
        acks=[[k, v] for k, v in node._slot_acks.items()],
        pend=[[c["value"], fid[id(f)]] for c, f in node._pending_commands],
        p1=[[k, len(v)] for k, v in node._phase1_responses.items()],
        futs=[[k, fid[id(f)]] for k, f in node._slot_futures.items()],
        res=[[i, f.value[0]] for i, f in enumerate(futs) if f.is_resolved],
        app=list(node._c12_applied), committed=node.stats.commands_committed)


def m_out(ev, prefix):
    md = ev.context.get("metadata", {})
    t = ev.event_type[len(prefix):]
    if md.get("self_heartbeat"):
        return ["Tick", md["ballot_number"], int(md["ballot_node"][1:]), md["commit_index"]]
    d = int(md["destination"][1:])
    if t == "Prepare":
        return ["Prepare", d, md["ballot_number"], int(md["ballot_node"][1:])]
    if t == "Promise":
        return ["Promise", d, md["ballot_number"], int(md["ballot_node"][1:]), int(md["from"][1:])]
    if t == "Nack":
        return ["Nack", d, md["ballot_number"], int(md["ballot_node"][1:])]
    if t == "Accept":
        return ["Accept", d, md["ballot_number"], int(md["ballot_node"][1:]), md["slot"], md["command"]["value"], md["commit_index"]]
    if t == "Accepted":
        return ["Accepted", d, md["ballot_number"], md["slot"], int(md["from"][1:])]
    if t == "Heartbeat":
        return ["Heartbeat", d, md["ballot_number"], int(md["ballot_node"][1:]), md["commit_index"]]
    raise ValueError(f"unexpected output {ev.event_type}")


def m_in(ev, prefix):
    md = ev.context.get("metadata", {})
    t = ev.event_type[len(prefix):]
    src = int(md["source"][1:]) if "source" in md else -1
    if t == "Prepare":
        return ["Prepare", src, md["ballot_number"], int(md["ballot_node"][1:])]
    if t == "Promise":
        return ["Promise", md["ballot_number"]]
    if t == "Nack":
        return ["Nack", md["ballot_number"], int(md["ballot_node"][1:])]
    if t == "Accept":
        return ["Accept", src, md["ballot_number"], int(md["ballot_node"][1:]), md["slot"], md["command"]["value"], md["commit_index"]]
    if t == "Accepted":
        return ["Accepted", md["slot"]]
    if t == "Heartbeat":
        return ["Heartbeat", md["ballot_number"], int(md["ballot_node"][1:]), md["commit_index"], bool(md.get("self_heartbeat"))]
    raise ValueError(f"unexpected input {ev.event_type}")


@locked
def run_multi(c):
    import random

    from happysimulator.components.consensus.flexible_paxos import FlexiblePaxosNode
    from happysimulator.components.consensus.multi_paxos import MultiPaxosNode
    from happysimulator.components.consensus.raft_state_machine import KVStateMachine
    from happysimulator.components.network.link import NetworkLink
    from happysimulator.components.network.network import Network
    from happysimulator.core.event import Event
    from happysimulator.core.simulation import Simulation
    from happysimulator.core.temporal import Duration, Instant
    from happysimulator.distributions.latency_distribution import LatencyDistribution

    random.seed(7)
    trace = []
    script = {"i": 0}
    delays = c["delays"] or [1]
    base = FlexiblePaxosNode if c["flex"] else MultiPaxosNode
    prefix = "FlexPaxos" if c["flex"] else "MultiPaxos"

    class Scripted(LatencyDistribution):
        def __init__(self):
            super().__init__(0.001)

        def get_latency(self, current_time):
            d = delays[script["i"] % len(delays)]
            script["i"] += 1
            return Duration.from_seconds(LOST_S) if d < 0 else Duration(int(d) * 1_000_000)

    class SM(KVStateMachine):
        def __init__(self, owner):
            super().__init__()
            self.owner = owner

        def apply(self, command):
            nd = self.owner[0]
            # index of the entry being applied = _last_applied is updated right after apply(); record (order, command)
            nd._c12_applied.append([len(nd._c12_applied) + 1, command["value"]])
            return super().apply(command)

    class RecNode(base):
        def handle_event(self, event):
            inp = m_in(event, prefix)
            res = super().handle_event(event)
            outs = [m_out(e, prefix) for e in (res or [])]
            trace.append(dict(node=int(self.name[1:]), inp=inp, outs=outs, st=msnap(self, self._c12_futs)))
            return res

    n = c["n"]
    net = Network(name="net")
    nodes = []
    for i in range(n):
        owner = [None]
        kw = dict(phase1_quorum=c["q1"], phase2_quorum=c["q2"]) if c["flex"] else {}
        # FlexiblePaxosNode validates Q1+Q2>N against its peer list: give it the final size through set_peers below
        if c["flex"]:
            nd = RecNode.__new__(RecNode)
            owner[0] = nd
            nd._c12_applied, nd._c12_futs = [], []
            base.__init__(nd, name=mnm(i), network=net, peers=[object()] * 0, state_machine=SM(owner),
                          heartbeat_interval=c["hb_ms"] / 1000.0,
                          phase1_quorum=max(c["q1"], 1), phase2_quorum=max(c["q2"], 1)) if c["q1"] + c["q2"] > 1 else None
        else:
            nd = RecNode.__new__(RecNode)
            owner[0] = nd
            nd._c12_applied, nd._c12_futs = [], []
            base.__init__(nd, name=mnm(i), network=net, state_machine=SM(owner), heartbeat_interval=c["hb_ms"] / 1000.0)
        nodes.append(nd)
    for nd in nodes:
        nd.set_peers(nodes)
    lat = Scripted()
    for i in range(n):
        for j in range(n):
            if i != j:
                net.add_link(nodes[i], nodes[j], NetworkLink(name=f"l{i}_{j}", latency=lat, egress=nodes[j]))
    sim = Simulation(end_time=Instant.from_seconds(c["end_ms"] / 1000.0), entities=[net, *nodes])

    def mk(op):
        _, kind, i, cmd = op

        def fn(event):
            nd = nodes[i]
            if kind == "start":
                evs = nd.start()
                trace.append(dict(node=i, inp=["Start"], outs=[m_out(e, prefix) for e in evs], st=msnap(nd, nd._c12_futs)))
                return evs
            f = nd.submit({"op": "set", "key": "k", "value": cmd})
            nd._c12_futs.append(f)
            trace.append(dict(node=i, inp=["Submit", cmd], outs=[], st=msnap(nd, nd._c12_futs)))
            return []
        return fn

    for k, op in enumerate(c["ops"]):
        sim.schedule(Event.once(time=Instant.from_seconds(op[0] / 1000.0), event_type=f"op{k}", fn=mk(op)))
    for k, (t, ga, gb, heal) in enumerate(c.get("parts", [])):
        def cut(event, ga=ga, gb=gb):
            net.partition([nodes[a] for a in ga], [nodes[b] for b in gb])

        def heal_fn(event):
            net.heal_partition()
        sim.schedule(Event.once(time=Instant.from_seconds(t / 1000.0), event_type=f"Cut{k}", fn=cut))
        sim.schedule(Event.once(time=Instant.from_seconds(heal / 1000.0), event_type=f"Heal{k}", fn=heal_fn))
    _, verdict = run_sim_bounded(sim, max_events=100000, wall_s=20.0)
    return dict(trace=trace, final=[msnap(nd, nd._c12_futs) for nd in nodes], verdict=verdict)


def oracle_multi(c, obs):
    if obs["verdict"] != "ok":
        return [dict(clause="run ends", verdict=obs["verdict"])]
    out = []
    submitted = {op[3] for op in c["ops"] if op[1] == "submit"}
    comp = "flexible_paxos" if c["flex"] else "multi_paxos"
    # what each node has reported as decided for each slot, after every handled event
    reported = {}     # (node, slot) -> command, first report
    by_slot = {}      # slot -> {command: node}
    for k, s in enumerate(obs["trace"]):
        st, i = s["st"], s["node"]
        for slot in range(1, st["commit"] + 1):
            if slot > len(st["log"]):
                continue
            cmdv = st["log"][slot - 1][1]
            if (i, slot) in reported and reported[(i, slot)] != cmdv:
                out.append(dict(clause="a reported decision never changes", mechanism="slot-overwritten", component=comp,
                                node=i, slot=slot, was=reported[(i, slot)], now=cmdv, step=k,
                                what=f"{comp}: the command a node reports as committed for a slot changed"))
            reported.setdefault((i, slot), cmdv)
            by_slot.setdefault(slot, {}).setdefault(cmdv, i)
            if cmdv not in submitted:
                out.append(dict(clause="decided value was proposed by some client", node=i, slot=slot, value=cmdv))
        # applied strictly in index order without gaps
        if [a[0] for a in st["app"]] != list(range(1, len(st["app"]) + 1)) or st["applied"] != len(st["app"]):
            out.append(dict(clause="commands are applied in slot order without gaps", node=i, step=k, app=st["app"], applied=st["applied"]))
    for slot, m in by_slot.items():
        if len(m) > 1:
            out.append(dict(clause="any two nodes that report a decided value for the same slot report the same value",
                            mechanism="slot-disagreement", component=comp, slot=slot, values={str(v): n for v, n in m.items()},
                            what=f"{comp}: two nodes report different committed commands for the same slot"))
    if c.get("fault_free") and not c["flex"]:
        prev = {}
        for s in obs["trace"]:
            i = s["node"]
            if s["inp"][0] == "Heartbeat" and s["inp"][4] and prev.get(i) and not s["st"]["isl"]:
                out.append(dict(clause="a command submitted to an established leader is eventually decided and applied at every node",
                                mechanism="own-tick-demotes", component=comp, node=i,
                                what="multi_paxos: the established leader steps down when it handles its own heartbeat tick"))
                break
            prev[i] = s["st"]["isl"]
    if c.get("fault_free"):
        # a command submitted to an established leader is eventually decided and applied at every node
        established = None
        for s in obs["trace"]:
            if s["st"]["isl"] and established is None:
                established = s["node"]
        late = [op for op in c["ops"] if op[1] == "submit" and op[0] >= 60 and op[2] == established]
        for op in late:
            if not all(any(a[1] == op[3] for a in f["app"]) for f in obs["final"]):
                out.append(dict(clause="a command submitted to an established leader is eventually decided and applied at every node",
                                mechanism="submit-not-replicated", component=comp, command=op[3],
                                what=f"{comp}: submit() on an established leader appends to the local log and sends nothing; the command is never replicated"))
                break
    seen, res = set(), []
    for f in out:
        key = (f["clause"], f.get("mechanism"))
        if key not in seen:
            seen.add(key)
            res.append(f)
    return res


def multi_mechanisms(c, obs):
    """Mechanism predicates evaluated on the recorded trace (inputs and post-states of the handlers)."""
    loglen = {}
    led = set()
    misplaced = False
    for s in obs["trace"]:
        i, st = s["node"], s["st"]
        if s["inp"][0] == "Accept" and s["outs"] and s["outs"][0][0] == "Accepted":
            if s["inp"][4] > loglen.get(i, 0) + 1:
                misplaced = True       # entry for slot k appended at index len+1 < k
        loglen[i] = len(st["log"])
        if st["isl"]:
            led.add((tuple(st["bal"]), i))
    return dict(takeover=len(led) > 1, misplaced=misplaced)


def attribute_multi(c, obs, f):
    m = f.get("mechanism")
    if m in ("slot-disagreement", "slot-overwritten"):
        mech = multi_mechanisms(c, obs)
        if mech["takeover"]:
            return "C12-mpaxos-takeover-overwrites-slot"
        if mech["misplaced"]:
            return "C12-mpaxos-accept-appended-at-wrong-slot"
        return None
    if m == "submit-not-replicated":
        return "C12-mpaxos-submit-not-replicated"
    if m == "own-tick-demotes" and not c["flex"]:
        return "C12-multipaxos-own-tick-demotes-leader"
    return None


def encode_multi(c, obs):
    def zz(l):
        return [Ctor("ZZ", a, b) for a, b in l]

    def ein(i):
        k = i[0]
        if k == "Start":
            return Raw("MStart")
        if k == "Submit":
            return Ctor("MSubmit", i[1])
        if k == "Heartbeat":
            return Ctor("MHeartbeat", i[1], i[2], i[3], bool(i[4]))
        return Ctor("M" + k, *i[1:])

    def eout(o):
        return Ctor("OM" + o[0], *o[1:])

    def est(st):
        return Ctor("mkMO", zz(st["log"]), st["commit"], st["applied"], Ctor("ZZ", *st["bal"]),
                    None if st["leader"] is None else Ctor("SZ", st["leader"]), bool(st["isl"]),
                    zz(st["acks"]), zz(st["pend"]), zz(st["p1"]), zz(st["futs"]), zz(st["res"]), zz(st["app"]))
    steps = [Ctor("MRS", s["node"], ein(s["inp"]), [eout(o) for o in s["outs"]], est(s["st"])) for s in obs["trace"]]
    return "(" + ", ".join([term(c["n"]), term(c["q1"]), term(c["q2"]), term(bool(c["flex"])), term(steps)]) + ")"


# --------------------------------------------------------------------------- leader election
TICK_NS = 7_812_500          # 1/128 s: float seconds on this grid are exact


def en(i):
    return f"e{i}"


def gen_election(rng):
    ids = sorted(rng.sample(range(10), rng.randint(2, 5)))
    order = list(ids)
    rng.shuffle(order)                      # dict insertion order of the members map
    strat = rng.choice([0, 0, 1, 1, 2])
    tmo = rng.choice([16, 64, 256])
    hb = rng.choice([8, 32, 64])
    starts = [[rng.choice([0, 1, 3, 10]), i] for i in ids if rng.random() < 0.8] or [[0, ids[0]]]
    pal = rng.choice([[1, 2, 3], [1, 1, 2, 40], [1, 5, 30, 150]])
    delays = [(-1 if rng.random() < 0.08 else rng.choice(pal)) for _ in range(rng.randint(5, 40))]
    parts = []
    if rng.random() < 0.3:
        m = list(ids)
        rng.shuffle(m)
        k = rng.randint(1, len(m) - 1)
        tt = rng.choice([0, 20, 100, 300])
        parts.append([tt, sorted(m[:k]), sorted(m[k:]), tt + rng.choice([50, 300, 600])])
    return dict(members=order, strat=strat, tmo=tmo, hb=hb, starts=starts, delays=delays, parts=parts,
                end=rng.choice([300, 600]), seed=rng.randrange(1000))


@locked
def run_election(c):
    import random

    from happysimulator.components.consensus.election_strategies import BullyStrategy, RandomizedStrategy, RingStrategy
    from happysimulator.components.consensus.leader_election import LeaderElection
    from happysimulator.components.network.link import NetworkLink
    from happysimulator.components.network.network import Network
    from happysimulator.core.event import Event
    from happysimulator.core.simulation import Simulation
    from happysimulator.core.temporal import Duration, Instant
    from happysimulator.distributions.latency_distribution import LatencyDistribution

    random.seed(c["seed"])
    trace = []
    script = {"i": 0}
    delays = c["delays"] or [1]

    class Scripted(LatencyDistribution):
        def __init__(self):
            super().__init__(0.001)

        def get_latency(self, current_time):
            d = delays[script["i"] % len(delays)]
            script["i"] += 1
            return Duration.from_seconds(LOST_S) if d < 0 else Duration(int(d) * TICK_NS)

    def ticks(inst):
        ns = inst.nanoseconds
        assert ns % TICK_NS == 0, ns
        return ns // TICK_NS

    def emsg(t, md):
        if t == "ElectionChallenge":
            return ["Challenge", int(md["challenger"][1:]), md["term"]]
        if t == "ElectionSuppress":
            return ["Suppress", int(md["from"][1:])]
        if t == "ElectionVictory":
            return ["Victory", int(md["leader"][1:]), md["term"]]
        if t == "ElectionToken":
            return ["Token", int(md["initiator"][1:]), [int(x[1:]) for x in md["candidates"]], md["term"]]
        if t == "ElectionBallot":
            return ["Ballot", int(md["from"][1:]), md["ballot"], md["term"]]
        if t == "ElectionBallotResponse":
            return ["BallotResp", int(md["from"][1:]), md["ballot"], md["term"]]
        raise ValueError(t)

    def eout(ev):
        md = ev.context.get("metadata", {})
        if ev.event_type == "ElectionTimeoutCheck":
            return ["Timer", ticks(ev.time)]
        d = int(md["destination"][1:])
        if ev.event_type == "LeaderHeartbeat":
            return ["Heartbeat", d, int(md["leader"][1:]), md["term"]]
        return ["Msg", d, emsg(ev.event_type, md)]

    def snap(nd):
        st = nd.stats
        last_ns = round(nd._last_leader_heartbeat * 1e9)
        assert last_ns % TICK_NS == 0
        return [None if nd.current_leader is None else int(nd.current_leader[1:]), nd.current_term,
                nd._election_in_progress, last_ns // TICK_NS, [st.elections_started, st.elections_won, st.elections_participated]]

    class RecNode(LeaderElection):
        def handle_event(self, event):
            md = event.context.get("metadata", {})
            now = ticks(self.now)
            state = random.getstate()
            res = super().handle_event(event)
            outs = [eout(e) for e in (res or [])]
            # the draw the strategy made (if any) is visible in the Ballot / BallotResponse it produced
            rnd = 0
            for o in outs:
                if o[0] == "Msg" and o[2][0] in ("Ballot", "BallotResp") and o[2][1] == int(self.name[1:]):
                    rnd = o[2][2]
            if event.event_type == "ElectionTimeoutCheck":
                inp = ["Timeout", now, rnd]
            elif event.event_type == "LeaderHeartbeat":
                inp = ["Heartbeat", now, int(md["leader"][1:]), md.get("term", 0)]
            else:
                inp = ["Msg", now, rnd, emsg(event.event_type, md)]
            trace.append(dict(node=int(self.name[1:]), inp=inp, outs=outs, st=snap(self)))
            return res

    strat = [BullyStrategy, RingStrategy, lambda: RandomizedStrategy(ballot_range=50)][c["strat"]]
    net = Network(name="net")
    nodes = {i: RecNode(name=en(i), network=net, strategy=strat(), election_timeout=c["tmo"] / 128.0,
                        heartbeat_interval=c["hb"] / 128.0) for i in c["members"]}
    for nd in nodes.values():
        for j in c["members"]:
            nd.add_member(nodes[j])
    lat = Scripted()
    for i in nodes:
        for j in nodes:
            if i != j:
                net.add_link(nodes[i], nodes[j], NetworkLink(name=f"l{i}_{j}", latency=lat, egress=nodes[j]))
    sim = Simulation(end_time=Instant(c["end"] * TICK_NS), entities=[net, *nodes.values()])
    for k, (t, i) in enumerate(c["starts"]):
        def fn(event, i=i):
            evs = nodes[i].start()
            trace.append(dict(node=i, inp=["Start", ticks(nodes[i].now)], outs=[eout(e) for e in evs], st=snap(nodes[i])))
            return evs
        sim.schedule(Event.once(time=Instant(t * TICK_NS), event_type=f"start{k}", fn=fn))
    for k, (t, ga, gb, heal) in enumerate(c.get("parts", [])):
        def cut(event, ga=ga, gb=gb):
            net.partition([nodes[a] for a in ga], [nodes[b] for b in gb])

        def heal_fn(event):
            net.heal_partition()
        sim.schedule(Event.once(time=Instant(t * TICK_NS), event_type=f"Cut{k}", fn=cut))
        sim.schedule(Event.once(time=Instant(heal * TICK_NS), event_type=f"Heal{k}", fn=heal_fn))
    _, verdict = run_sim_bounded(sim, max_events=100000, wall_s=20.0)
    return dict(trace=trace, verdict=verdict)


def oracle_election(c, obs):
    if obs["verdict"] != "ok":
        return [dict(clause="run ends", verdict=obs["verdict"])]
    by_term = {}
    for k, s in enumerate(obs["trace"]):
        leader, term = s["st"][0], s["st"][1]
        if leader is None:
            continue
        by_term.setdefault(term, {}).setdefault(leader, (s["node"], k))
    for term, m in by_term.items():
        if len(m) > 1:
            return [dict(clause="a leader-election component never reports two different leaders for the same term",
                         term=term, leaders={str(l): v for l, v in m.items()})]
    return []


def encode_election(c, obs):
    def em(m):
        if m[0] == "Token":
            return Ctor("KToken", m[1], list(m[2]), m[3])
        return Ctor("K" + m[0], *m[1:])

    def ein(i):
        if i[0] == "Start":
            return Ctor("EStart", i[1])
        if i[0] == "Timeout":
            return Ctor("ETimeout", i[1], i[2])
        if i[0] == "Heartbeat":
            return Ctor("EHeartbeat", i[1], i[2], i[3])
        return Ctor("EMsg", i[1], i[2], em(i[3]))

    def eo(o):
        if o[0] == "Timer":
            return Ctor("OETimer", o[1])
        if o[0] == "Heartbeat":
            return Ctor("OEHeartbeat", o[1], o[2], o[3])
        return Ctor("OEMsg", o[1], em(o[2]))

    def est(st):
        return (None if st[0] is None else Ctor("SZ", st[0]), st[1], bool(st[2]), st[3], tuple(st[4]))
    steps = [Ctor("ERS", s["node"], ein(s["inp"]), [eo(o) for o in s["outs"]], est(s["st"])) for s in obs["trace"]]
    return "(" + ", ".join([term(list(c["members"])), term(c["strat"]), term(c["tmo"]), term(c["hb"]), term(steps)]) + ")"


# --------------------------------------------------------------------------- families
def describe_paxos(c):
    return f"paxos n={c['n']} {c.get('mode', 'corpus')} props={len(c['proposals'])}"


def nontrivial_paxos(c, o):
    # at least one nack (competing ballots) or a promise beyond the quorum reached some proposer
    return any(s["inp"][0] in ("Nack", "Retry") for s in o["trace"]) or len(c["proposals"]) > 1


def attribute_paxos(c, o, f):
    return None


FAMILIES = [
    Family("paxos", IMPORTS, "ok_paxos", "Z * list rec_step", gen_paxos, run_paxos, encode_paxos, oracle_paxos,
           nontrivial_paxos, attribute_paxos, describe=describe_paxos),
    Family("lock", "From HS Require Import Base.Prelude C12.Model C12.LockModel.", "ok_lock", "Z * list (lop * lres * lobs)",
           gen_lock, run_lock, encode_lock, oracle_lock,
           lambda c, o: any(s["st"]["tw"] > 0 for s in o["trace"]),
           describe=lambda c: f"lock maxw={c['maxw']} lease={c['lease_ms']}"),
    Family("multi", "From HS Require Import Base.Prelude C12.Model C12.MultiModel.", "ok_multi", "Z * Z * Z * bool * list mrec",
           gen_multi, run_multi, encode_multi, oracle_multi,
           lambda c, o: sum(1 for s in o["trace"] if s["inp"][0] == "Start") > 1 or any(s["inp"][0] == "Nack" for s in o["trace"]),
           attribute_multi, describe=lambda c: f"{'flex' if c['flex'] else 'multi'} n={c['n']} q=({c['q1']},{c['q2']}) {c['mode']}"),
    Family("election", "From HS Require Import Base.Prelude C12.Model C12.ElectionModel.", "ok_election",
           "list Z * Z * Z * Z * list erec", gen_election, run_election, encode_election, oracle_election,
           lambda c, o: any(s["st"][0] is not None for s in o["trace"]),
           describe=lambda c: f"election {['bully', 'ring', 'randomized'][c['strat']]} n={len(c['members'])}"),
]

COQ_FILES = ["C12/Model.v", "C12/PaxosNode.v", "C12/PaxosSys.v", "C12/PaxosAgree.v", "C12/PaxosFull.v", "C12/PaxosDecide.v", "C12/LockModel.v", "C12/Lock.v", "C12/MultiModel.v", "C12/Multi.v", "C12/ElectionModel.v", "C12/Election.v",
             "Base/PyLib.v", "Gen/PaxosGen.v", "C12/GenTie.v", "C12/Props.v"]

TRUSTED = [
    "translator harness/translate/py2coq.py + declared types (py2coq_targets.py PaxosGen): the comparison @dataclass(order=True) generates for "
    "Ballot is regenerated from the class body of consensus/paxos.py on every run and proved to be the model's ballot order (C12/GenTie.v); "
    "trusted: dataclass semantics (lexicographic on compare fields in declaration order), string node ids read as integers",
    "Coq 8.16.1 kernel (coqc, vm_compute for refutation witnesses and case evaluation); no native_compute; no axioms (all 21 theorems of C12/Props.v closed under the global context)",
    "harness/props/c12.py: scenario generators, recorders (subclass of PaxosNode overriding handle_event), encoders, oracle",
    "trace replay compares private attributes _promised_ballot, _accepted_ballot, _accepted_value, _current_ballot, "
    "_proposal_futures, _phase1_responses, _phase2_responses, _proposed_values (no public accessor) with the model after every handler call",
    "node names p0..p4: string order of names equals integer order of ids (ballot tie-break)",
]


class _CtxProxy:
    """Per-job view of the check context with its own PRNG, so that families can run
    concurrently (each job = one coqc process) and still be reproducible from VERIF_SEED."""

    def __init__(self, ctx, seed):
        import random
        object.__setattr__(self, "_ctx", ctx)
        object.__setattr__(self, "rng", random.Random(seed))

    def __getattr__(self, k):
        return getattr(self._ctx, k)


def run_jobs(ctx, jobs, chunk, workers=6):
    """jobs: [(family, n)].  Each family is split into chunks of at most `chunk` cases; the
    first chunk keeps the family name (and therefore runs the corpus), the others get a suffix."""
    import dataclasses
    from concurrent.futures import ThreadPoolExecutor
    todo = []
    for fam, n in jobs:
        k = 0
        while n > 0:
            m = min(chunk, n)
            f = fam if k == 0 else dataclasses.replace(fam, name=f"{fam.name}_{k}")
            todo.append((f, m, ctx.rng.randrange(1 << 30)))
            n -= m
            k += 1
    with ThreadPoolExecutor(max_workers=workers) as ex:
        return list(ex.map(lambda j: run_family(_CtxProxy(ctx, j[2]), j[0], j[1]), todo))


def run(ctx):
    from props import pygen
    ok, info = pygen.regenerate("PaxosGen")       # Ballot's dataclass order translated from $HS_REPO by py2coq
    ctx.coverage["regenerated"] = info
    ctx.prove(COQ_FILES, allowed_axioms=(), trusted_base=TRUSTED)
    if not ok and ctx.pending_obligation_violation:
        ctx.pending_obligation_violation["translator"] = info.get("error")
    fams = {f.name: f for f in FAMILIES}
    stats = run_jobs(ctx, [(fams["paxos"], ctx.n(200, 6000)), (fams["lock"], ctx.n(60, 600)),
                           (fams["multi"], ctx.n(100, 3000)), (fams["election"], ctx.n(30, 800))], ctx.n(34, 100), workers=8)
    merge_stats(ctx, stats, "paxos: random / lossy / partitioned / 'ladder' / 'classic' schedules (per-message delays, loss, partitions, retry jitter) over 3-5 nodes "
                "and 1-4 proposals, non-trivial = competing ballots (nack/retry or >1 proposal); lock: 3-40 API calls and events over 1-3 locks, "
                "non-trivial = some waiter queued; multi: Multi-/Flexible Paxos with all intersecting (q1,q2), stable/takeover/chaos modes, "
                "non-trivial = more than one Start or a nack; election: Bully/Ring/Randomized over 2-5 members with loss and partitions, "
                "non-trivial = a leader was reported; distinct by JSON of the input")
    ctx.assumptions += [
        "single-decree Paxos liveness (single proposer, fault-free network => decided at every node) is checked by the oracle on the implementation only",
        "Multi-/Flexible Paxos per-slot agreement and leader liveness are refuted on the faithful model (4 open findings); only apply-in-order and commit<=log are proved for them",
        "leader-election theorem assumes one common member map at all nodes; lock and election models take times/draws as inputs",
        "client usage modelled: propose(v) followed by start_phase1() unless the returned future is already resolved; MultiPaxosForward events are not modelled (nothing sends them)",
    ]
    ctx.finish_obligations()


def replay(data):
    fam = {f.name: f for f in FAMILIES}[data["detail"]["family"].split("_")[0]]
    c = data["detail"]["case"]
    obs = fam.impl(c)
    fails = fam.oracle(c, obs)
    print("oracle failures:", fails)
    return 1 if fails else 0
