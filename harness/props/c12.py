"""C12 helper — single-decree Paxos scenarios on the real PaxosNode / Network / Simulation.

A case is a JSON dict:
  n          cluster size (3..5); node i is named "p<i>" (string order = index order)
  retry_ms   PaxosNode.retry_delay in ms
  seed       seed of the `random` module (retry jitter is random.random())
  proposals  [[t_ms, node, value], ...]     client calls propose(value); start_phase1()
  delays     [d_ms, ...] one per message handed to the network, in hand-over order, cycled;
             d < 0 means "lost" (delivered after the end of the run)
  parts      [[t_ms, [group a], [group b], heal_ms], ...] real Network.partition()/heal
  end_ms     end of the run

Every handle_event call of every node is recorded: the input as the handler saw it, the
events it returned, and a snapshot of the node's state afterwards (trace replay tie).
"""
from __future__ import annotations

from hsverif.coq import Ctor, Nat, Raw, SomeV, term
from hsverif.family import Family, merge_stats, run_family

IMPORTS = "From HS Require Import Base.Prelude C12.Model."
LEVEL = "proof"

LOST_S = 10_000.0


def nm(i):
    return f"p{i}"


def idx(name):
    return int(name[1:])


def _bal(b):
    return None if b is None else [b.number, idx(b.node_id)]


def snapshot(node):
    fid = {id(f): i for i, f in enumerate(node._c12_futures)}
    futs = [[k, fid[id(f)]] for k, f in node._proposal_futures.items()]
    p1 = [[k, [[idx(r["from"]), (None if r["accepted_ballot"] is None else [r["accepted_ballot"][0], idx(r["accepted_ballot"][1])]),
                r["accepted_value"]] for r in rs]] for k, rs in node._phase1_responses.items()]
    return dict(
        promised=_bal(node._promised_ballot), acc_b=_bal(node._accepted_ballot), acc_v=node._accepted_value,
        cur=node._current_ballot.number, futs=futs, p1=p1,
        p2=[[k, v] for k, v in node._phase2_responses.items()],
        pvals=[[k, v] for k, v in node._proposed_values.items()],
        decided=node.is_decided, dec_v=node.decided_value,
        resolved=[[i, f.value] for i, f in enumerate(node._c12_futures) if f.is_resolved],
    )


def out_event(ev):
    md = ev.context.get("metadata", {})
    t = ev.event_type
    if t == "PaxosRetry":
        return ["Retry", md["original_ballot"]]
    d = idx(md["destination"])
    if t == "PaxosPrepare":
        return ["Prepare", d, md["ballot_number"], idx(md["ballot_node"])]
    if t == "PaxosPromise":
        ab = None if md["accepted_ballot_number"] is None else [md["accepted_ballot_number"], idx(md["accepted_ballot_node"])]
        return ["Promise", d, md["ballot_number"], idx(md["ballot_node"]), idx(md["from"]), ab, md["accepted_value"]]
    if t == "PaxosNack":
        return ["Nack", d, md["ballot_number"], idx(md["ballot_node"]), md["highest_ballot_number"], idx(md["highest_ballot_node"])]
    if t == "PaxosAccept":
        return ["Accept", d, md["ballot_number"], idx(md["ballot_node"]), md["value"]]
    if t == "PaxosAccepted":
        return ["Accepted", d, md["ballot_number"], idx(md["ballot_node"]), idx(md["from"])]
    if t == "PaxosDecided":
        return ["Decided", d, md["value"]]
    raise ValueError(f"unexpected output event {t}")


def in_event(ev):
    md = ev.context.get("metadata", {})
    t = ev.event_type
    src = idx(md["source"]) if "source" in md else None
    if t == "PaxosPrepare":
        return ["Prepare", src, md["ballot_number"], idx(md["ballot_node"])]
    if t == "PaxosPromise":
        ab = None if md.get("accepted_ballot_number") is None else [md["accepted_ballot_number"], idx(md["accepted_ballot_node"])]
        return ["Promise", md["ballot_number"], idx(md["from"]), ab, md.get("accepted_value")]
    if t == "PaxosNack":
        return ["Nack", md["ballot_number"], md["highest_ballot_number"]]
    if t == "PaxosAccept":
        return ["Accept", src, md["ballot_number"], idx(md["ballot_node"]), md["value"]]
    if t == "PaxosAccepted":
        return ["Accepted", md["ballot_number"]]
    if t == "PaxosDecided":
        return ["Decided", md.get("value")]
    if t == "PaxosRetry":
        return ["Retry", md["original_ballot"]]
    raise ValueError(f"unexpected input event {t}")


def run_paxos(c):
    import random

    from happysimulator.components.consensus.paxos import PaxosNode
    from happysimulator.components.network.link import NetworkLink
    from happysimulator.components.network.network import Network
    from happysimulator.core.event import Event
    from happysimulator.core.simulation import Simulation
    from happysimulator.core.temporal import Duration, Instant
    from happysimulator.distributions.latency_distribution import LatencyDistribution

    random.seed(c["seed"])
    trace = []
    script = {"i": 0}
    delays = c["delays"] or [1]

    class Scripted(LatencyDistribution):
        def __init__(self):
            super().__init__(0.001)

        def get_latency(self, current_time):
            d = delays[script["i"] % len(delays)]
            script["i"] += 1
            return Duration.from_seconds(LOST_S) if d < 0 else Duration(int(d) * 1_000_000)

    class RecNode(PaxosNode):
        def handle_event(self, event):
            inp = in_event(event)
            res = super().handle_event(event)
            outs = [out_event(e) for e in (res or [])]
            trace.append(dict(node=idx(self.name), t=event.time.nanoseconds if hasattr(event.time, "nanoseconds") else None,
                              inp=inp, outs=outs, st=snapshot(self)))
            return res

    n = c["n"]
    net = Network(name="net")
    nodes = [RecNode(name=nm(i), network=net, retry_delay=c["retry_ms"] / 1000.0) for i in range(n)]
    for nd in nodes:
        nd.set_peers(nodes)
        nd._c12_futures = []
    lat = Scripted()
    for i in range(n):
        for j in range(n):
            if i != j:
                net.add_link(nodes[i], nodes[j], NetworkLink(name=f"l{i}_{j}", latency=lat, egress=nodes[j]))
    sim = Simulation(end_time=Instant.from_seconds(c["end_ms"] / 1000.0), entities=[net, *nodes])

    def mk_propose(i, v):
        def fn(event):
            nd = nodes[i]
            f = nd.propose(v)
            nd._c12_futures.append(f)
            # a client whose future is already resolved (node had decided) does not start phase 1
            evs = [] if f.is_resolved else nd.start_phase1()
            trace.append(dict(node=i, t=None, inp=["Propose", v], outs=[out_event(e) for e in evs], st=snapshot(nd)))
            return evs
        return fn

    for k, (t, i, v) in enumerate(c["proposals"]):
        sim.schedule(Event.once(time=Instant.from_seconds(t / 1000.0), event_type=f"Propose{k}", fn=mk_propose(i, v)))
    for k, (t, ga, gb, heal) in enumerate(c.get("parts", [])):
        def cut(event, ga=ga, gb=gb):
            net.partition([nodes[a] for a in ga], [nodes[b] for b in gb])
        def heal_fn(event):
            net.heal_partition()
        sim.schedule(Event.once(time=Instant.from_seconds(t / 1000.0), event_type=f"Cut{k}", fn=cut))
        sim.schedule(Event.once(time=Instant.from_seconds(heal / 1000.0), event_type=f"Heal{k}", fn=heal_fn))
    from hsverif.util import run_bounded
    _, verdict = run_bounded(sim, max_events=100000, wall_s=20.0)
    final = [snapshot(nd) for nd in nodes]
    return dict(trace=trace, final=final, verdict=verdict, sent=script["i"])


def oracle_paxos(c, obs):
    """The C12 statement for single-decree Paxos, on the implementation's observations."""
    out = []
    if obs["verdict"] != "ok":
        return [dict(clause="run ends", verdict=obs["verdict"])]
    proposed = {p[2] for p in c["proposals"]}
    # reported decisions after every handled event: stable, proposed, agreeing
    cur = {}
    for k, s in enumerate(obs["trace"]):
        st = s["st"]
        i = s["node"]
        if i in cur and (not st["decided"] or st["dec_v"] != cur[i]):
            out.append(dict(clause="a reported decision never changes", node=i, step=k, was=cur[i], now=[st["decided"], st["dec_v"]]))
            break
        if st["decided"]:
            if i not in cur and st["dec_v"] not in proposed:
                out.append(dict(clause="decided value was proposed by some client", mechanism="decided-unproposed",
                                node=i, step=k, value=st["dec_v"], proposed=sorted(proposed),
                                what=f"node decided {st['dec_v']!r}, which no client proposed"))
            cur[i] = st["dec_v"]
        for fid, v in st["resolved"]:
            if not st["decided"] or v != st["dec_v"]:
                out.append(dict(clause="a proposer's future resolves with the decided value", node=i, step=k, fid=fid, value=v))
    vals = {repr(v) for v in cur.values()}
    if len(vals) > 1:
        out.append(dict(clause="any two nodes that report a decided value report the same value", mechanism="disagreement",
                        decided={str(i): v for i, v in cur.items()},
                        what=f"nodes decided different values {sorted(vals)}"))
    # liveness on a fault-free network with a single proposer
    if c.get("fault_free") and len(c["proposals"]) >= 1 and len({p[1] for p in c["proposals"]}) == 1:
        for i, st in enumerate(obs["final"]):
            if not st["decided"]:
                out.append(dict(clause="single proposer on a fault-free network: decided at every node", node=i))
                break
    # dedupe by clause
    seen, res = set(), []
    for f in out:
        if f["clause"] not in seen:
            seen.add(f["clause"])
            res.append(f)
    return res


def gen_paxos(rng):
    n = rng.choice([3, 3, 3, 4, 5])
    mode = rng.choice(["single", "duel", "duel", "melee", "melee", "lossy"])
    fault_free = mode == "single"
    nprop = 1 if mode == "single" else (2 if mode == "duel" else rng.randint(2, 4))
    retry = rng.choice([5, 20, 50, 200])
    props = []
    for _ in range(nprop):
        props.append([rng.choice([0, 0, 1, 3, 10, 30, 100]) + 1, rng.randrange(n), rng.randint(1, 3)])
    if mode == "single":
        p = props[0][1]
        props = [[x[0], p, x[2]] for x in props]
    props.sort()
    pal = rng.choice([[1, 2, 3], [1, 1, 1, 2, 40], [1, 2, 3, 5, 8, 13, 60, 200], [1, 5, 30, 150, 700]])
    nd = rng.randint(5, 60)
    delays = []
    for _ in range(nd):
        d = rng.choice(pal)
        if mode == "lossy" and rng.random() < 0.15:
            d = -1
        delays.append(d)
    parts = []
    if mode in ("melee", "lossy") and rng.random() < 0.4:
        t = rng.choice([0, 2, 5, 20, 100])
        members = list(range(n))
        rng.shuffle(members)
        k = rng.randint(1, n - 1)
        parts.append([t, sorted(members[:k]), sorted(members[k:]), t + rng.choice([5, 50, 500])])
    return dict(n=n, retry_ms=retry, seed=rng.randrange(1000), proposals=props, delays=delays, parts=parts,
                end_ms=8000, fault_free=fault_free, mode=mode)


# --------------------------------------------------------------------------- encoding (Paxos)
def _ov(v):
    return None if v is None else SomeV(v)


def _ob(b):
    return None if b is None else SomeV((b[0], b[1]))


def enc_in(i):
    k = i[0]
    if k == "Propose":
        return Ctor("IPropose", i[1])
    if k == "Prepare":
        return Ctor("IPrepare", -1 if i[1] is None else i[1], i[2], i[3])
    if k == "Promise":
        return Ctor("IPromise", i[1], i[2], _ob(i[3]), _ov(i[4]))
    if k == "Nack":
        return Ctor("INack", i[1], i[2])
    if k == "Accept":
        return Ctor("IAccept", -1 if i[1] is None else i[1], i[2], i[3], _ov(i[4]))
    if k == "Accepted":
        return Ctor("IAccepted", i[1])
    if k == "Decided":
        return Ctor("IDecided", _ov(i[1]))
    if k == "Retry":
        return Ctor("IRetry", i[1])
    raise ValueError(k)


def enc_out(o):
    k = o[0]
    if k == "Prepare":
        return Ctor("OPrepare", o[1], o[2], o[3])
    if k == "Promise":
        return Ctor("OPromise", o[1], o[2], o[3], o[4], _ob(o[5]), _ov(o[6]))
    if k == "Nack":
        return Ctor("ONack", *o[1:])
    if k == "Accept":
        return Ctor("OAccept", o[1], o[2], o[3], _ov(o[4]))
    if k == "Accepted":
        return Ctor("OAccepted", *o[1:])
    if k == "Decided":
        return Ctor("ODecided", o[1], _ov(o[2]))
    if k == "Retry":
        return Ctor("ORetry", o[1])
    raise ValueError(k)


def enc_state(st):
    return Ctor("mkO", _ob(st["promised"]), _ob(st["acc_b"]), _ov(st["acc_v"]), st["cur"],
                [(k, f) for k, f in st["futs"]],
                [(k, [(r[0], _ob(r[1]), _ov(r[2])) for r in rs]) for k, rs in st["p1"]],
                [(k, v) for k, v in st["p2"]],
                [(k, _ov(v)) for k, v in st["pvals"]],
                bool(st["decided"]), _ov(st["dec_v"]),
                [(f, _ov(v)) for f, v in st["resolved"]])


def encode_paxos(c, obs):
    steps = [(s["node"], enc_in(s["inp"]), [enc_out(o) for o in s["outs"]], enc_state(s["st"])) for s in obs["trace"]]
    return term((c["n"], steps))


# --------------------------------------------------------------------------- distributed lock
def lk(i):
    return f"L{i}"


def cl(i):
    return f"c{i}"


def gen_lock(rng):
    nl, nc = rng.randint(1, 3), rng.randint(2, 4)
    ops = []
    t = 0
    for _ in range(rng.randint(3, 40)):
        t += rng.choice([0, 1, 1, 2, 5, 20])
        k = rng.random()
        L, C = rng.randrange(nl), rng.randrange(nc)
        if k < 0.35:
            ops.append([t, "acq", L, C])
        elif k < 0.45:
            ops.append([t, "evacq", L, C])
        elif k < 0.6:
            ops.append([t, "try", L, C])
        elif k < 0.85:
            ops.append([t, "rel", L, "cur" if rng.random() < 0.7 else rng.randint(0, 8)])
        else:
            ops.append([t, "evrel", L, "cur" if rng.random() < 0.7 else rng.randint(0, 8)])
    return dict(maxw=rng.choice([0, 0, 1, 2]), lease_ms=rng.choice([3, 10, 30, 100000]), ops=ops,
                schedule_expiry=rng.random() < 0.8)


def run_lock(c):
    from happysimulator.components.consensus.distributed_lock import DistributedLock
    from happysimulator.core.event import Event
    from happysimulator.core.simulation import Simulation
    from happysimulator.core.temporal import Instant

    trace = []

    def g2l(g):
        return None if g is None else [int(g.lock_name[1:]), g.fencing_token, int(g.holder[1:])]

    class RecLock(DistributedLock):
        def __init__(self, *a, **k):
            super().__init__(*a, **k)
            self.futs = []

        def snap(self):
            fid = {id(f): i for i, f in enumerate(self.futs)}
            st = self.stats
            return dict(nt=self._next_token,
                        locks=[[int(n[1:]), None if s.holder is None else int(s.holder[1:]), s.fencing_token,
                                [[int(r[1:]), fid[id(f)]] for r, f in s.waiters]] for n, s in self._locks.items()],
                        resolved=[[i, g2l(f.value)] for i, f in enumerate(self.futs) if f.is_resolved],
                        ctr=[st.total_acquires, st.total_releases, st.total_expirations, st.total_rejections],
                        active=st.active_locks, tw=st.total_waiters)

        def acquire(self, lock_name, requester):
            f = super().acquire(lock_name, requester)
            self.futs.append(f)
            trace.append(dict(op=["acq", int(lock_name[1:]), int(requester[1:])], res=["fut", len(self.futs) - 1], st=self.snap()))
            return f

        def try_acquire(self, lock_name, requester):
            g = super().try_acquire(lock_name, requester)
            trace.append(dict(op=["try", int(lock_name[1:]), int(requester[1:])], res=["grant", g2l(g)], st=self.snap()))
            return g

        def release(self, lock_name, fencing_token):
            b = super().release(lock_name, fencing_token)
            trace.append(dict(op=["rel", int(lock_name[1:]), fencing_token], res=["bool", b], st=self.snap()))
            return b

        def _handle_lease_expiry(self, event):
            md = event.context.get("metadata", {})
            r = super()._handle_lease_expiry(event)
            trace.append(dict(op=["exp", int(md["lock_name"][1:]), md["fencing_token"]], res=["none"], st=self.snap()))
            return r

    lock = RecLock("lock", lease_duration=c["lease_ms"] / 1000.0, max_waiters=c["maxw"])
    sim = Simulation(end_time=Instant.from_seconds(500.0), entities=[lock])
    scheduled = set()

    def pending():
        ev = getattr(lock, "_pending_expiry", None)
        if c["schedule_expiry"] and ev is not None and id(ev) not in scheduled:
            scheduled.add(id(ev))
            return [ev]
        return []

    def mk(op):
        def fn(event):
            _, kind, L, x = op
            out = []
            if kind == "acq":
                lock.acquire(lk(L), cl(x))
            elif kind == "try":
                lock.try_acquire(lk(L), cl(x))
            elif kind in ("rel", "evrel"):
                tok = x
                if x == "cur":
                    tok = lock._locks[lk(L)].fencing_token if lk(L) in lock._locks else 0
                if kind == "rel":
                    lock.release(lk(L), tok)
                else:
                    out.append(Event(time=lock.now, event_type="LockReleaseRequest", target=lock,
                                     context={"metadata": {"lock_name": lk(L), "fencing_token": tok}}))
            elif kind == "evacq":
                out.append(Event(time=lock.now, event_type="LockAcquireRequest", target=lock,
                                 context={"metadata": {"lock_name": lk(L), "requester": cl(x)}}))
            return out + pending()
        return fn

    for k, op in enumerate(c["ops"]):
        sim.schedule(Event.once(time=Instant.from_seconds(op[0] / 1000.0), event_type=f"op{k}", fn=mk(op)))
    # expiry events created by waiter grants inside release/expiry are picked up by a poller
    def poll(event):
        return pending()
    for k in range(0, (c["ops"][-1][0] if c["ops"] else 0) + 50):
        sim.schedule(Event.once(time=Instant.from_seconds((k + 0.5) / 1000.0), event_type="poll", fn=poll))
    from hsverif.util import run_bounded
    _, verdict = run_bounded(sim, wall_s=20.0)
    return dict(trace=trace, verdict=verdict)


def oracle_lock(c, obs):
    if obs["verdict"] != "ok":
        return [dict(clause="run ends", verdict=obs["verdict"])]
    out = []
    seen_tokens = {}          # token -> (lock, holder)
    order = []                # tokens in order of first appearance
    last_nt = 1
    for k, s in enumerate(obs["trace"]):
        grants = []
        if s["res"][0] == "grant" and s["res"][1] is not None:
            grants.append(s["res"][1])
        grants += [g for _, g in s["st"]["resolved"] if g is not None]
        grants += [[L, t, h] for L, h, t, _ in s["st"]["locks"] if h is not None]
        for L, t, h in grants:
            if t in seen_tokens:
                if seen_tokens[t] != (L, h):
                    out.append(dict(clause="a fencing token identifies one grant", step=k, token=t, a=seen_tokens[t], b=[L, h]))
            else:
                if order and t <= order[-1]:
                    out.append(dict(clause="fencing tokens strictly increase across grants", step=k, token=t, previous=order[-1]))
                seen_tokens[t] = (L, h)
                order.append(t)
        if s["st"]["nt"] < last_nt:
            out.append(dict(clause="fencing tokens strictly increase across grants", step=k, what="_next_token decreased"))
        last_nt = s["st"]["nt"]
        # the current holder of a lock holds the newest token granted for that lock
        for L, h, t, ws in s["st"]["locks"]:
            if h is not None:
                newer = [x for x in order if x > t and seen_tokens[x][0] == L]
                if newer:
                    out.append(dict(clause="holder's token is the newest token of its lock", step=k, lock=L, token=t, newer=newer))
            if h is not None and any(r == h for r, _ in ws) and False:
                pass
    seen, res = set(), []
    for f in out:
        if f["clause"] not in seen:
            seen.add(f["clause"])
            res.append(f)
    return res


def encode_lock(c, obs):
    def g(x):
        return None if x is None else SomeV((x[0], x[1], x[2]))
    steps = []
    for s in obs["trace"]:
        o = s["op"]
        op = Ctor({"acq": "LAcquire", "try": "LTry", "rel": "LRelease", "exp": "LExpire"}[o[0]], o[1], o[2])
        r = s["res"]
        res = (Ctor("RFuture", r[1]) if r[0] == "fut" else Ctor("RGrant", g(r[1])) if r[0] == "grant"
               else Ctor("RBool", bool(r[1])) if r[0] == "bool" else Ctor("RNone"))
        st = s["st"]
        ob = (st["nt"], [(L, (None if h is None else SomeV(h), t, [(a, b) for a, b in ws])) for L, h, t, ws in st["locks"]],
              [(f, g(x)) for f, x in st["resolved"]], tuple(st["ctr"]))
        steps.append((op, res, ob))
    return term((c["maxw"], steps))


# --------------------------------------------------------------------------- families
def describe_paxos(c):
    return f"paxos n={c['n']} {c.get('mode', 'corpus')} props={len(c['proposals'])}"


def nontrivial_paxos(c, o):
    # at least one nack (competing ballots) or a promise beyond the quorum reached some proposer
    return any(s["inp"][0] in ("Nack", "Retry") for s in o["trace"]) or len(c["proposals"]) > 1


def attribute_paxos(c, o, f):
    return None


FAMILIES = [
    Family("paxos", IMPORTS, "ok_paxos", "Z * list rec_step", gen_paxos, run_paxos, encode_paxos, oracle_paxos,
           nontrivial_paxos, attribute_paxos, parallel=True, describe=describe_paxos),
    Family("lock", "From HS Require Import Base.Prelude C12.Model C12.LockModel.", "ok_lock", "Z * list (lop * lres * lobs)",
           gen_lock, run_lock, encode_lock, oracle_lock,
           lambda c, o: any(s["st"]["tw"] > 0 for s in o["trace"]), parallel=True,
           describe=lambda c: f"lock maxw={c['maxw']} lease={c['lease_ms']}"),
]

COQ_FILES = ["C12/Model.v", "C12/PaxosNode.v", "C12/PaxosSys.v", "C12/LockModel.v", "C12/Lock.v", "C12/Props.v"]

TRUSTED = [
    "Coq 8.16.1 kernel (coqc, vm_compute for case evaluation); no native_compute; no axioms",
    "harness/props/c12.py: scenario generators, recorders (subclass of PaxosNode overriding handle_event), encoders, oracle",
    "trace replay compares private attributes _promised_ballot, _accepted_ballot, _accepted_value, _current_ballot, "
    "_proposal_futures, _phase1_responses, _phase2_responses, _proposed_values (no public accessor) with the model after every handler call",
    "node names p0..p4: string order of names equals integer order of ids (ballot tie-break)",
]


def run(ctx):
    ctx.prove(COQ_FILES, allowed_axioms=(), trusted_base=TRUSTED)
    stats = []
    fams = {f.name: f for f in FAMILIES}
    stats.append(run_family(ctx, fams["paxos"], ctx.n(250, 6000)))
    stats.append(run_family(ctx, fams["lock"], ctx.n(100, 1500)))
    merge_stats(ctx, stats, "random schedules (per-message delays, loss, partitions, retry jitter) over 3-5 nodes and 1-4 proposals; "
                "non-trivial = competing ballots (a nack/retry occurred or more than one proposal); distinct by JSON of the input")
    ctx.finish_obligations()


def replay(data):
    fam = {f.name: f for f in FAMILIES}[data["detail"]["family"]]
    c = data["detail"]["case"]
    obs = fam.impl(c)
    fails = fam.oracle(c, obs)
    print("oracle failures:", fails)
    return 1 if fails else 0
