"""C03 — the same model and seeds give the same run, every time and in every process.

Obligations: the regenerated list of environment-dependence sites (builtin
hash/id, uuid, wall clock, os.urandom, process-global RNG, iteration over sets)
is fully classified (C03/Props.v).
Differential execution (supports the tie and is the failing-input search): every
scenario of harness/scenarios/library.py is run in fresh interpreters with
PYTHONHASHSEED in {0, 1, 4242} and once after unrelated simulations in the same
interpreter; delivery digests (time ns, event type, target) and statistics
digests must be identical.  Each recorded finding has a micro-witness that is
re-run on every check.
"""
from __future__ import annotations

import json
import os
import subprocess
from concurrent.futures import ThreadPoolExecutor

from props import sitegen

LEVEL = "proof"
FILES = ["Base/Sites.v", "C03/SiteClass.v", "Gen/EnvSites.v", "Engine/Engine.v", "Engine/Script.v", "Engine/Shift.v", "Engine/ShiftRun.v", "C03/Props.v"]
ENVS = [("0", 0), ("1", 0), ("4242", 3), ("0", -1)]     # (PYTHONHASHSEED, prior activity: n unrelated simulations / -1: the same model once before)

TRUSTED = [
    "Coq 8.16.1 kernel, vm_compute (finite classification), no axioms",
    "harness/translate/sites.py: syntactic site extractor, incomplete by nature (aliasing, sets passed as parameters); the differential runs exist to catch what it misses",
    "C03/SiteClass.v: hand-maintained classification table (a reviewer must read it)",
    "every executable model of this development (C01-C20) is a function of its declared inputs only; that the implementation agrees with them is what the other checks' correspondence establishes",
]

# finding id -> python snippet whose stdout must not depend on PYTHONHASHSEED (it does, on the pinned tree)
WITNESSES = {
    "C03-random-eviction-set-order": (
        "from happysimulator.components.datastore.eviction_policies import RandomEviction\n"
        "import inspect\n"
        "p = RandomEviction(seed=7) if 'seed' in inspect.signature(RandomEviction.__init__).parameters else RandomEviction()\n"
        "[p.on_insert(k) for k in ['alpha','beta','gamma','delta','eps','zeta']]\n"
        "print([p.evict() for _ in range(3)])\n"),
    "C03-cms-builtin-hash": (
        "from happysimulator.sketching.count_min_sketch import CountMinSketch\n"
        "c = CountMinSketch(width=4, depth=2)\n"
        "[c.add(w) for w in ['a','b','c','d','e','f','g','a','a']]\n"
        "print([c.estimate(w) for w in ['a','b','c','z']])\n"),
    "C03-dirty-key-set-order": (
        "from happysimulator.components.datastore.write_policies import WriteBack\n"
        "w = WriteBack()\n"
        "[w._dirty_keys.add(k) for k in ['alpha','beta','gamma','delta','eps']]\n"
        "print(w.get_keys_to_flush())\n"),
}


def env_for(hashseed):
    e = dict(os.environ)
    e["PYTHONHASHSEED"] = hashseed
    return e


def run_case(args):
    name, seed, variant, hashseed, prior = args
    try:
        p = subprocess.run(["/venv/bin/python", "-W", "ignore", "-m", "scenarios.runner", name, str(seed), str(variant), str(prior)],
                           capture_output=True, text=True, timeout=240, env=env_for(hashseed), cwd="/verif/harness")
        line = p.stdout.strip().splitlines()[-1] if p.stdout.strip() else ""
        r = json.loads(line)
        return {k: r[k] for k in ("name", "seed", "variant", "verdict", "events", "digest", "stats_digest", "first")} | dict(env=[hashseed, prior])
    except Exception as e:  # noqa: BLE001
        return dict(name=name, seed=seed, variant=variant, verdict=f"runner-error:{type(e).__name__}", events=0, digest=None,
                    stats_digest=None, first=[], env=[hashseed, prior])


def run_witness(fid, hashseed):
    p = subprocess.run(["/venv/bin/python", "-W", "ignore", "-c", WITNESSES[fid]], capture_output=True, text=True, timeout=60,
                       env=env_for(hashseed), cwd="/verif/harness")
    return p.stdout.strip() if p.returncode == 0 else f"ERROR {p.stderr[-200:]}"


def run(ctx):
    sites, nfiles = sitegen.regenerate()
    ctx.prove(FILES, allowed_axioms=(), trusted_base=TRUSTED)
    # micro-witnesses of the recorded findings (open: still failing -> KNOWN-FINDING; fixed: a
    # regression, i.e. the output depends on PYTHONHASHSEED again -> VIOLATION)
    status = {f["id"]: f for f in ctx.findings}
    for fid, snippet in WITNESSES.items():
        outs = {hs: run_witness(fid, hs) for hs in ("0", "1", "2")}
        differs = len(set(outs.values())) > 1 and not any(o.startswith("ERROR") for o in outs.values())
        f = status.get(fid)
        if differs and f is not None and f["status"] == "open":
            ctx.known(fid, f["what"])
        elif differs:
            ctx.violation("oracle", dict(family="witness", case=dict(witness=fid, snippet=snippet),
                                         failure=dict(clause="same model and seeds give the same run regardless of PYTHONHASHSEED", outputs=outs)))
        elif f is not None and f["status"] == "open":
            ctx.notes.append(f"finding {fid}: witness no longer differs across PYTHONHASHSEED (stale entry?): {outs}")
    # findings identified by a source site: still present in the regenerated list -> KNOWN-FINDING
    for f in ctx.findings:
        if f["status"] == "open" and f.get("site"):
            if any(list(s[:3]) == f["site"] for s in sites["env_sites"]):
                ctx.known(f["id"], f["what"])
            else:
                ctx.notes.append(f"finding {f['id']}: its site is no longer in the source tree (stale entry?)")
    # the same model and seed in a worker process (ParallelRunner.run_replicas / run_sweep) and in this process
    try:
        pr = subprocess.run(["/venv/bin/python", "-W", "ignore", "-m", "scenarios.replica_models"], capture_output=True, text=True,
                            timeout=600, env=env_for("0"), cwd="/verif/harness")
        rep = json.loads(pr.stdout.strip().splitlines()[-1])
    except Exception as e:  # noqa: BLE001
        rep = None
        ctx.violation("harness-error", dict(what="scenarios.replica_models did not run", error=f"{type(e).__name__}: {e}"[:300]), no_failing_input=True)
    for r in rep or []:
        for how in ("replicas", "sweep"):
            bad = [i for i, (a, b) in enumerate(zip(r["in_process"], r[how])) if a != b]
            if bad or len(r[how]) != len(r["in_process"]):
                ctx.violation("oracle", dict(family="replicas", case=dict(model="scenarios.replica_models.build_router_sim", base_seed=r["base_seed"], via=how),
                                             failure=dict(clause="the same model and seed give the same run in a worker process as in this process",
                                                          seeds=[r["base_seed"] + i for i in bad], in_process=[r["in_process"][i] for i in bad][:2],
                                                          worker=[r[how][i] for i in bad][:2])))
    ctx.coverage["replica_runs"] = sum(2 * len(r["in_process"]) for r in rep or [])
    from scenarios import runner
    names = sorted(runner.builders())
    if ctx.quick:
        # one variant per scenario, rotating with the scenario index and the seed; the scenarios listed as
        # cases of a known finding are always run with that variant too
        cases = [(n, ctx.seed, (i + ctx.seed) % 3) for i, n in enumerate(names)]
        for f in ctx.findings:
            for c in f.get("cases", []):
                nm, _, v = c.partition(":")
                if nm in names and (nm, ctx.seed, int(v or 0)) not in cases:
                    cases.append((nm, ctx.seed, int(v or 0)))
    else:
        cases = [(n, ctx.seed, v) for n in names for v in range(5)]
    # "the same seeds" includes seed 0 (a falsy value: `if seed:` instead of `if seed is not None:` falls back to
    # OS entropy): the scenarios that hand their seed unchanged to a library constructor are also run with it
    # (all of them in the thorough tier)
    RAW_SEED = ["datastore_kv_database", "datastore_cached_store_eviction", "datastore_sharded_store",
                "behavior_population_market", "sketching_collectors", "faults_schedule_pipeline"]
    for i, n in enumerate(names):
        if n in RAW_SEED or not ctx.quick:
            for v in (range(3) if n in RAW_SEED else [i % 3]):
                if (n, 0, v) not in cases:
                    cases.append((n, 0, v))
    envs = [ENVS[0], ENVS[2], ENVS[3]] if ctx.quick else ENVS
    jobs = [(n, s, v, hs, prior) for (n, s, v) in cases for (hs, prior) in envs]
    with ThreadPoolExecutor(max_workers=14) as ex:
        results = list(ex.map(run_case, jobs))
    by_case = {}
    for r in results:
        by_case.setdefault((r["name"], r["seed"], r["variant"]), []).append(r)
    known_cases = {c: f["id"] for f in ctx.findings if f["status"] == "open" for c in f.get("cases", [])}
    differing, validated, nontrivial, inconclusive = 0, 0, 0, []
    for key, rs in sorted(by_case.items()):
        # a run cut short by the runner's own wall-clock budget (or by the subprocess timeout) says nothing about
        # determinism: where it was cut depends on machine load, so the case is counted as not decided
        if any(r["verdict"] in ("wall-timeout", "runner-error:TimeoutExpired") for r in rs):
            inconclusive.append(f"{key[0]}:{key[2]}")
            continue
        if any(r["verdict"].startswith("runner-error") for r in rs):
            ctx.violation("harness-error", dict(case=key, results=rs), no_failing_input=True)
            continue
        if rs[0]["events"] >= 20:
            nontrivial += 1
        dig = {(r["digest"], r["stats_digest"], r["verdict"]) for r in rs}
        if len(dig) == 1:
            validated += 1
            continue
        differing += 1
        fid = known_cases.get(f"{key[0]}:{key[2]}") or known_cases.get(key[0])
        what = dict(clause="same model and seeds give identical deliveries and statistics regardless of PYTHONHASHSEED and of earlier simulations in the interpreter",
                    runs=[dict(env=r["env"], digest=r["digest"][:16] if r["digest"] else None, stats=r["stats_digest"][:16] if r["stats_digest"] else None,
                               verdict=r["verdict"], first=r["first"][:3]) for r in rs])
        if fid and ctx.known(fid, f"scenario {key[0]} variant {key[2]} differs across environments"):
            continue
        ctx.violation("oracle", dict(family="scenario", case=dict(name=key[0], seed=key[1], variant=key[2]), failure=what))
    ctx.coverage.update(
        evaluations=len(results), distinct_nontrivial=nontrivial, traces_validated_against_impl=validated,
        rule="every scenario x variant run in fresh interpreters (quick: PYTHONHASHSEED 0, 4242-after-3-unrelated-simulations, and 0-after-the-same-model-built-and-run-once-before; thorough adds PYTHONHASHSEED 1); digests of (time, type, target) deliveries and of component statistics must agree; non-trivial = >= 20 events",
        samples=[dict(case=list(k), digests=[r["digest"][:12] if r["digest"] else None for r in v]) for k, v in list(sorted(by_case.items()))[:3]],
        scenarios=len(names), environments=envs, differing_cases=differing, cases_not_decided_wall_budget=inconclusive, source_files_scanned=nfiles,
        env_sites=len(sites["env_sites"]), env_site_kinds={k: sum(1 for s in sites["env_sites"] if s[2] == k) for k in sorted({s[2] for s in sites["env_sites"]})},
    )
    ctx.finish_obligations()


def replay(data):
    c = data["detail"]["case"]
    if "model" in c:
        pr = subprocess.run(["/venv/bin/python", "-W", "ignore", "-m", "scenarios.replica_models"], capture_output=True, text=True,
                            timeout=600, env=env_for("0"), cwd="/verif/harness")
        rep = json.loads(pr.stdout.strip().splitlines()[-1])
        bad = [(r["base_seed"], how) for r in rep for how in ("replicas", "sweep") if r[how] != r["in_process"]]
        print("differing:", bad)
        return 1 if bad else 0
    if "witness" in c:
        outs = {hs: run_witness(c["witness"], hs) for hs in ("0", "1", "2")}
        print(outs)
        return 1 if len(set(outs.values())) > 1 else 0
    rs = [run_case((c["name"], c["seed"], c["variant"], hs, prior)) for hs, prior in ENVS]
    for r in rs:
        print(r["env"], r["verdict"], r["digest"], r["stats_digest"])
    return 1 if len({(r["digest"], r["stats_digest"]) for r in rs}) > 1 else 0
