"""C13 — SWIM membership + phi-accrual detector.

Tie to /repo (per-handler trace replay): every generated cluster scenario runs
real MembershipProtocol nodes, a real Network with one NetworkLink per
direction and a real Simulation.  Each node records every handle_event call:
the input as the handler saw it, the events it returned, the Event objects it
cancelled, and a snapshot of its state afterwards.  The model C13/Model.v
replays the recorded inputs inside Coq (ok_cluster) and must reproduce outputs
and state after every step.  random.shuffle results and is_available() (float
phi) are oracle inputs recorded from the run.

The property oracle (independent of the model) evaluates the four clauses of
C13 on the implementation's observations.

Private attributes read: MembershipProtocol._members/_pending_updates/
_probe_order/_probe_index/_pending_acks/_incarnation, MemberInfo.detector.
_heartbeat_count, PhiAccrualDetector._intervals, Event._cancelled,
Entity._crashed (set to stop a member).
"""
from __future__ import annotations

import copy
import math
from fractions import Fraction

from hsverif.coq import Ctor, Nat, Raw, SomeV, term
from hsverif.family import Family, merge_stats, run_family

IMPORTS = "From HS Require Import Base.Prelude C13.Model."
IMPORTS_PHI = "From Coq Require Import QArith.\nFrom HS Require Import Base.Prelude C13.PhiModel."
LEVEL = "proof"

KIND = {"suspect": 0, "dead": 1, "alive": 2}
STATE = {"ALIVE": 0, "SUSPECT": 1, "DEAD": 2}


# --------------------------------------------------------------------------- generator
def gen_cluster(rng):
    mode = rng.choice(["healthy", "healthy", "crash", "crash", "slow", "adversarial"])
    n = rng.randint(2, 5)
    p = rng.choice([0.25, 0.5, 1.0, 1.0, 2.0, 0.3])
    susp = p * rng.choice([0.2, 0.5, 1.0, 2.5, 5.0])
    k = rng.randint(0, 3)
    thr = rng.choice([0.5, 1.0, 4.0, 8.0, 16.0])
    ticks = rng.randint(4, 14)
    if mode == "crash":
        ticks = 2 * n + rng.randint(6, 10)
    frac = rng.choice([0.0, 0.01, 0.1, 0.2, 0.24])          # max one-way delay / probe interval (< 1/4)
    c = dict(mode=mode, n=n, p=p, susp=susp, k=k, thr=thr, dur=round(p * ticks + p * 0.3, 6), dfrac=frac,
             seed=rng.randrange(1 << 30), slow=0.0, crash=None, inject=[])
    if mode == "crash":
        c["crash"] = [rng.randrange(n), round(rng.choice([0.0, 0.0, rng.uniform(0, 3 * p), rng.uniform(0, 6 * p)]), 6)]
        c["dur"] = round(c["crash"][1] + p * (2 * n + 3) + susp * rng.choice([0, 1]) + p * rng.randint(2, 6), 6)
    if mode == "slow":
        c["slow"] = rng.choice([0.1, 0.3, 0.6])             # probability that a message takes 0.3..3 probe intervals
        if rng.random() < 0.4:
            c["crash"] = [rng.randrange(n), round(rng.uniform(0, 4 * p), 6)]
    if mode == "adversarial":
        c["slow"] = rng.choice([0.0, 0.3])
        names = list(range(n)) + [99, None]
        for _ in range(rng.randint(3, 14)):
            t = round(rng.uniform(0.0, c["dur"]), 6)
            node = rng.randrange(n)
            typ = rng.choice(["MembershipPing", "MembershipAck", "MembershipIndirectAck", "MembershipIndirectPing",
                              "MembershipSuspicionTimeout", "Bogus", "MembershipPing", "MembershipAck"])
            ups = [[rng.choice(names[:-1]), rng.choice(["suspect", "dead", "alive", "alive", "zombie"]), rng.randint(0, 3)]
                   for _ in range(rng.randint(0, 3))]
            c["inject"].append([t, node, typ, rng.choice(names), ups])
    return c


# --------------------------------------------------------------------------- implementation driver
def _nm(i):
    return None if i is None else f"m{i}"


def _ix(name):
    if name is None:
        return None
    if isinstance(name, str) and name.startswith("m") and name[1:].isdigit():
        return int(name[1:])
    return 99


def _recorder(M, rng):
    """Recording stand-ins: the `random` module seen by membership.py, and a MembershipProtocol
    subclass that logs every handle_event call (input, returned events, cancellations, state)."""
    from happysimulator.core.event import Event

    class RecRandom:
        """Stands in for the `random` module inside membership.py: records every shuffle."""
        last = None

        def shuffle(self, lst):
            rng.shuffle(lst)
            RecRandom.last = [_ix(x) for x in lst]

        def __getattr__(self, k):
            return getattr(rng, k)

    msg_delays = []
    glob = dict(order=[], next_msg=0, delay={})     # global handler order, message delays by id

    class RecNode(M.MembershipProtocol):
        def __init__(self, *a, **kw):
            super().__init__(*a, **kw)
            self.steps = []
            self.timers = []          # cancellable Event objects in creation order
            self.tid = {}
            self.cancel_seen = set()
            self.ts2ns = {}
            self.phi_samples = []     # (peer, hb_count, now_ns, phi)
            self.views = []           # (now_ns, [(peer, state, inc)])

        def snapshot(self):
            ms = []
            for name, info in self._members.items():
                lh = info.detector.last_heartbeat
                ms.append([_ix(name), STATE[info.state.name], info.incarnation,
                           None if lh is None else self.ts2ns[lh], info.detector._heartbeat_count])
            return dict(
                members=ms, inc=self._incarnation,
                pend=[[_ix(u.get("member")), KIND.get(u.get("state"), 3), u.get("incarnation", 0)] for u in self._pending_updates],
                order=[_ix(x) for x in self._probe_order], pidx=self._probe_index,
                packs=[[_ix(k), self.tid[id(ev)]] for k, ev in self._pending_acks.items()],
                next_id=len(self.timers),
                stats=[self._probes_sent, self._indirect_probes_sent, self._acks_received, self._updates_disseminated])

        def handle_event(self, event):
            now = self.now.nanoseconds
            now_s = self.now.to_seconds()
            self.ts2ns[now_s] = now
            md = event.context.get("metadata", {})
            et = event.event_type
            ups = [[_ix(u.get("member")), KIND.get(u.get("state"), 3), u.get("incarnation", 0)] for u in md.get("updates", [])]
            if "sent_ns" in md and md.get("destination") == self.name and et in ("MembershipPing", "MembershipAck"):
                msg_delays.append(now - md["sent_ns"])
                glob["delay"][md["msg_id"]] = now - md["sent_ns"]
            glob["order"].append([_ix(self.name), len(self.steps)])
            if et == "MembershipProbeTick":
                inp = ["tick", [bool(info.detector.is_available(now_s)) for info in self._members.values()]]
            elif et == "MembershipPing":
                inp = ["ping", _ix(md.get("from")), ups]
            elif et in ("MembershipAck", "MembershipIndirectAck"):
                inp = ["ack", _ix(md.get("from")), ups]
            elif et == "MembershipIndirectPing":
                inp = ["indirect", _ix(md.get("probe_target"))]
            elif et == "MembershipSuspicionTimeout":
                inp = ["susp", _ix(md.get("suspect"))]
            else:
                inp = ["other"]
            RecRandom.last = None
            res = super().handle_event(event)
            if res is None:
                res = []
            elif isinstance(res, Event):
                res = [res]
            outs = []
            for ev in res:
                m2 = ev.context.get("metadata", {})
                if ev.target is self:
                    if ev.event_type == "MembershipProbeTick":
                        outs.append(["timer", 0, -1, ev.time.nanoseconds, 0])
                    else:
                        self.tid[id(ev)] = len(self.timers)
                        self.timers.append(ev)
                        if ev.event_type == "MembershipIndirectPing":
                            outs.append(["timer", 1, self.tid[id(ev)], ev.time.nanoseconds, _ix(m2.get("probe_target"))])
                        else:
                            outs.append(["timer", 2, self.tid[id(ev)], ev.time.nanoseconds, _ix(m2.get("suspect"))])
                else:
                    m2["sent_ns"] = now
                    m2["msg_id"] = glob["next_msg"]
                    glob["next_msg"] += 1
                    outs.append(["send", _ix(m2.get("destination")), ev.event_type == "MembershipAck", _ix(m2.get("from")),
                                 _ix(m2.get("indirect_for")), _ix(m2.get("ack_for")), m2.get("incarnation"),
                                 [[_ix(u.get("member")), KIND.get(u.get("state"), 3), u.get("incarnation", 0)] for u in m2.get("updates", [])],
                                 m2["msg_id"]])
            for i, ev in enumerate(self.timers):
                if ev._cancelled and i not in self.cancel_seen:
                    self.cancel_seen.add(i)
                    outs.append(["cancel", i])
            if inp[0] in ("tick", "indirect"):
                inp.append(RecRandom.last or [])
            self.steps.append([now, inp, outs, self.snapshot()])
            self.views.append([now, [[_ix(nm), STATE[i.state.name], i.incarnation] for nm, i in self._members.items()]])
            for nm, info in self._members.items():
                ph = info.detector.phi(now_s)
                self.phi_samples.append([_ix(nm), info.detector._heartbeat_count, now, ph if math.isfinite(ph) else 1e308])
            return res

    RecNode.glob = glob
    return RecRandom, RecNode, msg_delays


def impl_cluster(case):
    import random as _random

    from happysimulator.components.consensus import membership as M
    from happysimulator.components.network.link import NetworkLink
    from happysimulator.components.network.network import Network
    from happysimulator.core.entity import Entity
    from happysimulator.core.event import Event
    from happysimulator.core.simulation import Simulation
    from happysimulator.core.temporal import Duration, Instant
    from happysimulator.distributions.latency_distribution import LatencyDistribution
    from hsverif.util import run_bounded

    n, p = case["n"], case["p"]
    rng = _random.Random(case["seed"])
    _random.seed(case["seed"] ^ 0x5A5A)

    class ScriptLatency(LatencyDistribution):
        def __init__(self):
            super().__init__(0.0)

        def get_latency(self, current_time):
            if case["slow"] and rng.random() < case["slow"]:
                return Duration.from_seconds(p * rng.choice([0.3, 0.5, 0.75, 1.0, 2.0, 3.0]))
            return Duration.from_seconds(p * case["dfrac"] * rng.choice([0.0, 0.25, 0.5, 1.0, 1.0]))

    RecRandom, RecNode, msg_delays = _recorder(M, rng)

    class Crasher(Entity):
        def __init__(self, victim):
            super().__init__("crasher")
            self.victim = victim

        def handle_event(self, event):
            self.victim._crashed = True
            RecNode.glob["order"].append(["crash", _ix(self.victim.name)])
            return None

    saved = M.random
    M.random = RecRandom()
    try:
        net = Network(name="net")
        nodes = [RecNode(f"m{i}", net, probe_interval=p, suspicion_timeout=case["susp"],
                         indirect_probe_count=case["k"], phi_threshold=case["thr"]) for i in range(n)]
        for a in nodes:
            for b in nodes:
                if a is not b:
                    a.add_member(b)
        for i, a in enumerate(nodes):
            for b in nodes[i + 1:]:
                net.add_bidirectional_link(a, b, NetworkLink(name=f"l{i}_{b.name}", latency=ScriptLatency()))
        ents = [net, *nodes]
        crasher = None
        if case["crash"]:
            crasher = Crasher(nodes[case["crash"][0]])
            ents.append(crasher)
        sim = Simulation(duration=case["dur"], entities=ents)
        orders = []
        for nd in nodes:
            evs = nd.start()
            orders.append([_ix(x) for x in nd._probe_order])
            for e in evs:
                sim.schedule(e)
        if crasher:
            sim.schedule(Event(time=Instant.from_seconds(case["crash"][1]), event_type="Crash", target=crasher))
        for t, node, typ, frm, ups in case["inject"]:
            md = {"updates": [{"member": _nm(m) if m != 99 else "zz", "state": s, "incarnation": i} for m, s, i in ups]}
            who = "zz" if frm == 99 else _nm(frm)
            if typ in ("MembershipPing", "MembershipAck", "MembershipIndirectAck"):
                if who is not None:
                    md["from"] = who
            elif typ == "MembershipIndirectPing":
                md = {"probe_target": who} if who is not None else {}
            elif typ == "MembershipSuspicionTimeout":
                md = {"suspect": who} if who is not None else {}
            sim.schedule(Event(time=Instant.from_seconds(t), event_type=typ, target=nodes[node], daemon=True,
                               context={"metadata": md}))
        _, verdict = run_bounded(sim, wall_s=30.0)
        zero = Instant.from_seconds(0.0)
        return dict(
            verdict=verdict,
            cfg=[[i, (zero + p).nanoseconds, (zero + p * 0.5).nanoseconds, (zero + case["susp"]).nanoseconds,
                  case["k"], 0.0 < case["thr"]] for i in range(n)],
            names=[[j for j in range(n) if j != i] for i in range(n)],
            orders=orders,
            steps=[nd.steps for nd in nodes],
            views=[nd.views for nd in nodes],
            phi=[nd.phi_samples for nd in nodes],
            max_delay=max(msg_delays, default=0),
            glob=dict(order=RecNode.glob["order"], delay={str(k): v for k, v in RecNode.glob["delay"].items()}),
            crash_ns=Instant.from_seconds(case["crash"][1]).nanoseconds if case["crash"] else None,
        )
    finally:
        M.random = saved


# --------------------------------------------------------------------------- encoder
def _opt(x):
    return None if x is None else SomeV(x)


def _tz(v):
    """A time in ns as a short Gallina term (T6 k = k*10^6, T3 k = k*10^3; Model.v)."""
    if v is None:
        return None
    if v and v % 1_000_000 == 0:
        return Raw(f"(T6 {v // 1_000_000})")
    if v and v % 1000 == 0:
        return Raw(f"(T3 {v // 1000})")
    return v


def _upds(us):
    return [Ctor("mkUpd", m if m is not None else -1, k, i if isinstance(i, int) else -7) for m, k, i in us]


def _input(inp):
    k = inp[0]
    if k == "tick":
        return Ctor("ITick", inp[1], inp[2])
    if k == "ping":
        return Ctor("IPing", _opt(inp[1]), _upds(inp[2]))
    if k == "ack":
        return Ctor("IAck", _opt(inp[1]), _upds(inp[2]))
    if k == "indirect":
        return Ctor("IIndirect", _opt(inp[1]), inp[2])
    if k == "susp":
        return Ctor("ISusp", _opt(inp[1]))
    return Ctor("IOther")


def _output(o):
    if o[0] == "send":
        return Ctor("OSend", o[1], o[2], o[3], _opt(o[4]), _opt(o[5]), o[6], _upds(o[7]))
    if o[0] == "timer":
        return Ctor("OTimer", Ctor(["TTick", "TIndirect", "TSusp"][o[1]]), o[2], _tz(o[3]), o[4])
    return Ctor("OCancel", o[1])


def _state(s):
    ms = [Ctor("mkMember", m[0], Ctor(["Alive", "Suspect", "Dead"][m[1]]), m[2], _opt(_tz(m[3])), m[4]) for m in s["members"]]
    return Ctor("mkNode", ms, s["inc"], _upds(s["pend"]), s["order"], s["pidx"], [tuple(x) for x in s["packs"]],
                s["next_id"], *s["stats"])


def _cfg(x):
    return Ctor("mkCfg", x[0], _tz(x[1]), _tz(x[2]), _tz(x[3]), x[4], x[5])


def encode_cluster(c, o):
    nodes = []
    for i in range(c["n"]):
        cfg = _cfg(o["cfg"][i])
        steps = [(_tz(now), _input(inp), [_output(x) for x in outs], _state(post)) for now, inp, outs, post in o["steps"][i]]
        nodes.append((cfg, o["names"][i], o["orders"][i], steps))
    return term(nodes)


# --------------------------------------------------------------------------- property oracle
def detection_bound_ns(c, o):
    """Crash at c: every live member must report the victim non-ALIVE from c + bound on.
    bound = one tick alignment + a full (possibly reshuffled) double round of probes
    + ack timeout + message delay slack."""
    _, probe, half, _susp, _, _ = o["cfg"][0]
    return (2 * (c["n"] - 1) + 1) * probe + half + 2 * o["max_delay"] + probe // 10


def _oracle_views(a, views, phi):
    """Clauses that hold for every input stream of a node: DEAD -> ALIVE needs a higher
    incarnation; phi never decreases while no heartbeat arrives."""
    out = []
    dead_inc = {}
    for now, view in views:
        for peer, st, inc in view:
            if st == 2:
                dead_inc[peer] = max(inc, dead_inc.get(peer, inc))
            elif st == 0 and peer in dead_inc:
                if not inc > dead_inc[peer]:
                    out.append(dict(clause="a member reported DEAD is not reported ALIVE again without a higher incarnation",
                                    node=a, peer=peer, t_ns=now, mechanism="dead-revived"))
                dead_inc.pop(peer)
    last = {}
    for peer, hb, now, ph in phi:
        prev = last.get(peer)
        if prev and prev[0] == hb and now >= prev[1] and ph < prev[2]:
            out.append(dict(clause="phi never decreases while no heartbeat arrives", node=a, peer=peer,
                            t_ns=now, phi=ph, before=prev[2], mechanism="phi-decreased"))
            break
        last[peer] = (hb, now, ph)
    return out


def oracle_cluster(c, o):
    out = []
    if o["verdict"] != "ok":
        return [dict(clause="simulation terminates", verdict=o["verdict"])]
    n = c["n"]
    _, probe, half, _susp, _, _ = o["cfg"][0]
    victim = c["crash"][0] if c["crash"] else None
    healthy_links = c["mode"] in ("healthy", "crash") and 2 * o["max_delay"] < half
    # (1) accuracy: no live member is ever marked DEAD by a live member on a healthy network
    if healthy_links:
        for a in range(n):
            if a == victim:
                continue
            for now, view in o["views"][a]:
                bad = [peer for peer, st, _ in view if st == 2 and peer != victim]
                if bad:
                    out.append(dict(clause="no live member is marked DEAD on a healthy network", node=a, peer=bad[0],
                                    t_ns=now, mechanism="false-dead"))
                    break
    # (2) detection: the stopped member is not reported ALIVE after the bound, and stays so
    if c["mode"] == "crash" and healthy_links:
        deadline = o["crash_ns"] + detection_bound_ns(c, o)
        for a in range(n):
            if a == victim:
                continue
            late = [(now, view) for now, view in o["views"][a] if now >= deadline]
            for now, view in late:
                st = [s for peer, s, _ in view if peer == victim][0]
                if st == 0:
                    out.append(dict(clause="a stopped member is not reported ALIVE after a bounded number of probe rounds",
                                    node=a, victim=victim, t_ns=now, deadline_ns=deadline, mechanism="undetected-stop"))
                    break
    for a in range(n):
        out += _oracle_views(a, o["views"][a], o["phi"][a])
    return out[:4]


def nontrivial_cluster(c, o):
    if c["mode"] == "crash":
        # the run is long enough to look past the detection deadline on some live node
        dl = o["crash_ns"] + detection_bound_ns(c, o)
        return any(v and v[-1][0] >= dl for i, v in enumerate(o["views"]) if i != c["crash"][0])
    if c["mode"] == "healthy":
        return sum(len(s) for s in o["steps"]) >= 6 * c["n"]
    return any(st == 2 for v in o["views"] for _, view in v for _, st, _ in view) or \
        any(x[1][0] in ("indirect", "susp") for s in o["steps"] for x in s)


# --------------------------------------------------------------------------- the run as a path of Net.wstep
def gen_world(rng):
    while True:
        c = gen_cluster(rng)
        if c["mode"] in ("healthy", "slow") and not c["crash"]:
            return c


def encode_world(c, o):
    """The handler calls of all nodes in the order the engine made them, each with the observed
    delays of the messages it sent: checked inside Coq to be a path of the cluster relation
    Net.wstep (C13/NetCheck.v ok_world, sound by ok_world_sound)."""
    gs = []
    end = max((st[-1][0] for st in o["steps"] if st), default=0)
    dmax = o["max_delay"]
    for node, k in o["glob"]["order"]:
        if node == "crash":
            gs.append(Ctor("CCrash", k))
            continue
        now, inp, outs, _post = o["steps"][node][k]
        # a message still in flight when the run ended arrives after everything that was observed
        delays = [o["glob"]["delay"].get(str(x[8]), end - now + 1) for x in outs if x[0] == "send"]
        dmax = max([dmax] + delays)
        g = (node, _tz(now), _input(inp), [_tz(x) for x in delays])
        gs.append(Ctor("CG", g) if c["crash"] else g)
    cfgs = [_cfg(x) for x in o["cfg"]]
    return term((cfgs, dmax, c["n"], o["cfg"][0][1], o["orders"], gs))


def gen_cworld(rng):
    while True:
        c = gen_cluster(rng)
        if c["mode"] in ("crash", "slow") and c["crash"]:
            return c


# --------------------------------------------------------------------------- direct drive of one node
def gen_node(rng):
    """One MembershipProtocol driven handler by handler with arbitrary (also forged, reordered,
    malformed) inputs over a tiny name / incarnation space."""
    npeers = rng.randint(1, 4)
    names = list(range(1, npeers + 1))
    anyname = names + names + [99, None]
    p = rng.choice([0.25, 0.5, 1.0])
    c = dict(npeers=npeers, p=p, susp=p * rng.choice([0.5, 2.0]), k=rng.randint(0, 3), thr=rng.choice([0.0, 0.5, 1.0, 8.0]),
             seed=rng.randrange(1 << 30), ops=[])
    t = 0
    for _ in range(rng.randint(5, 60)):
        t += rng.choice([0, 0, 1, 125_000_000, 250_000_000, 1_000_000_000, 5_000_000_000])
        r = rng.random()
        ups = [[rng.choice(names + [99]), rng.choice(["suspect", "dead", "alive", "alive", "zombie"]), rng.randint(0, 3)]
               for _ in range(rng.choice([0, 0, 1, 1, 2, 3]))]
        if r < 0.25:
            c["ops"].append([t, "MembershipProbeTick", None, []])
        elif r < 0.45:
            c["ops"].append([t, "MembershipPing", rng.choice(anyname), ups])
        elif r < 0.65:
            c["ops"].append([t, rng.choice(["MembershipAck", "MembershipIndirectAck"]), rng.choice(anyname), ups])
        elif r < 0.8:
            c["ops"].append([t, "MembershipIndirectPing", rng.choice(anyname), []])
        elif r < 0.95:
            c["ops"].append([t, "MembershipSuspicionTimeout", rng.choice(anyname), []])
        else:
            c["ops"].append([t, "Bogus", None, []])
    return c


def impl_node(case):
    import random as _random

    from happysimulator.components.consensus import membership as M
    from happysimulator.components.network.network import Network
    from happysimulator.core.clock import Clock
    from happysimulator.core.entity import Entity
    from happysimulator.core.event import Event
    from happysimulator.core.temporal import Instant

    rng = _random.Random(case["seed"])
    RecRandom, RecNode, _ = _recorder(M, rng)

    class Peer(Entity):
        def handle_event(self, event):
            return None

    saved = M.random
    M.random = RecRandom()
    try:
        clock = Clock(Instant.from_seconds(0.0))
        net = Network(name="net")
        node = RecNode("m0", net, probe_interval=case["p"], suspicion_timeout=case["susp"],
                       indirect_probe_count=case["k"], phi_threshold=case["thr"])
        peers = [Peer(f"m{i}") for i in range(1, case["npeers"] + 1)]
        for e in [net, node, *peers]:
            e.set_clock(clock)
        for pe in peers:
            node.add_member(pe)
        node.start()
        order = [_ix(x) for x in node._probe_order]
        zero = Instant.from_seconds(0.0)
        for t, typ, who, ups in case["ops"]:
            now = Instant(t)
            clock.update(now)
            md = {}
            name = "zz" if who == 99 else _nm(who)
            if typ in ("MembershipPing", "MembershipAck", "MembershipIndirectAck"):
                md["updates"] = [{"member": "zz" if m == 99 else _nm(m), "state": s_, "incarnation": i} for m, s_, i in ups]
                if name is not None:
                    md["from"] = name
            elif typ == "MembershipIndirectPing" and name is not None:
                md["probe_target"] = name
            elif typ == "MembershipSuspicionTimeout" and name is not None:
                md["suspect"] = name
            node.handle_event(Event(time=now, event_type=typ, target=node, daemon=True, context={"metadata": md}))
        p = case["p"]
        return dict(cfg=[0, (zero + p).nanoseconds, (zero + p * 0.5).nanoseconds, (zero + case["susp"]).nanoseconds,
                         case["k"], 0.0 < case["thr"]],
                    names=list(range(1, case["npeers"] + 1)), order=order, steps=node.steps, views=node.views,
                    phi=node.phi_samples)
    finally:
        M.random = saved


def encode_node(c, o):
    steps = [(_tz(now), _input(inp), [_output(x) for x in outs], _state(post)) for now, inp, outs, post in o["steps"]]
    return term((_cfg(o["cfg"]), o["names"], o["order"], steps))


def oracle_node(c, o):
    return _oracle_views(0, o["views"], o["phi"])


# --------------------------------------------------------------------------- phi detector family
def gen_phi(rng):
    mx = rng.choice([1, 2, 3, 5, 8])
    ini = rng.choice([None, 0, 32, 64, 128])         # units of 1/64 s
    ms = rng.choice([1, 6, 64])                      # min_std, units 1/64 s (6/64 ~ 0.1)
    t = rng.randint(0, 200)
    ops = []
    for _ in range(rng.randint(1, 30)):
        r = rng.random()
        if r < 0.45:
            t += rng.choice([0, 1, 16, 32, 64, 64, 65, 128, rng.randint(0, 400)])
            # reads at the very instant of the heartbeat, before and after it (the window may be saturated,
            # so that the heartbeat replaces a sample without changing the sample count)
            if rng.random() < 0.3:
                ops.append(["q", t])
            ops.append(["hb", t])
            if rng.random() < 0.3:
                ops.append(["q", t])
        elif r < 0.5:
            ops.append(["hb", max(0, t - rng.randint(0, 64))])      # time going backwards
            t = ops[-1][1]
        else:
            ops.append(["q", t + rng.choice([-10, 0, 1, 32, 64, 65, 100, 128, 256, rng.randint(0, 3000)])])
    return dict(max=mx, ini=ini, min_std=ms, ops=ops)


LOG10_2 = math.log10(2.0)


def impl_phi(case):
    from happysimulator.components.consensus.phi_accrual_detector import PhiAccrualDetector
    d = PhiAccrualDetector(threshold=8.0, max_sample_size=case["max"], min_std=case["min_std"] / 64.0,
                           initial_interval=None if case["ini"] is None else case["ini"] / 64.0)
    obs, grid = [], []
    for op, t in case["ops"]:
        ts = t / 64.0
        cls = -1
        if op == "hb":
            d.heartbeat(ts)
        else:
            ph = d.phi(ts)
            cls = 0 if ph < LOG10_2 - 1e-9 else (2 if ph <= LOG10_2 + 1e-9 else 3)
            # monotonicity probe on a fine increasing grid after the last heartbeat
            # (on a copy: the probe reads must not disturb whatever the detector remembers between the case's own reads)
            base = d.last_heartbeat if d.last_heartbeat is not None else 0.0
            probe = copy.deepcopy(d)
            vals = [probe.phi(base + j / 16.0) for j in range(0, 400)]
            grid.append([v if math.isfinite(v) else 1e308 for v in vals])
        ivs = [list(Fraction(x).as_integer_ratio()) for x in d._intervals]
        lh = d.last_heartbeat
        obs.append([ivs, None if lh is None else list(Fraction(lh).as_integer_ratio()), d._heartbeat_count, cls])
    return dict(obs=obs, grid=grid)


def _q(fr):
    return Raw(f"({fr[0]} # {fr[1]})")


def encode_phi(c, o):
    ops = []
    for (op, t), (ivs, lh, cnt, cls) in zip(c["ops"], o["obs"]):
        q = _q([t, 64])
        ops.append((Ctor("DHeartbeat" if op == "hb" else "DQuery", q),
                    (([_q(x) for x in ivs], None if lh is None else SomeV(_q(lh))), cnt, cls)))
    ini = None if c["ini"] is None else SomeV(_q([c["ini"], 64]))
    return term((Nat(c["max"]), _q([c["min_std"], 64]), ini, ops))


def oracle_phi(c, o):
    for g in o["grid"]:
        for a, b in zip(g, g[1:]):
            if b < a:
                return [dict(clause="phi never decreases while no heartbeat arrives", before=a, after=b, mechanism="phi-decreased")]
    return []



# --------------------------------------------------------------------------- bootstrap order (oracle only)
def gen_bootstrap(rng):
    n = rng.choice([2, 3, 3, 4, 5])
    return dict(n=n, p=rng.choice([0.5, 1.0]), seed=rng.randrange(1000), crash=round(rng.uniform(6.0, 12.0), 3),
                start_first=[rng.random() < 0.6 for _ in range(n)], victim=rng.randrange(n))


def impl_bootstrap(c):
    """Plain MembershipProtocol nodes on a fast loss-free network; every node is either introduced to its peers and
    then started, or started first and introduced afterwards (all at time 0); one member is cut off for good."""
    import random as _r
    from happysimulator.components.consensus.membership import MembershipProtocol, MemberState
    from happysimulator.components.network.link import NetworkLink
    from happysimulator.components.network.network import Network
    from happysimulator.core.event import Event
    from happysimulator.core.simulation import Simulation
    from happysimulator.core.temporal import Instant
    from happysimulator.distributions.constant import ConstantLatency
    from hsverif.util import run_bounded
    _r.seed(c["seed"])
    n, p = c["n"], c["p"]
    net = Network(name="net")
    nodes = [MembershipProtocol(f"m{i}", net, probe_interval=p, suspicion_timeout=3.0 * p, phi_threshold=8.0) for i in range(n)]
    for i, a in enumerate(nodes):
        for b in nodes[i + 1:]:
            net.add_bidirectional_link(a, b, NetworkLink(name=f"l{i}_{b.name}", latency=ConstantLatency(0.002)))
    crash_at = c["crash"] * p
    rounds = 2 * (n - 1) + 1
    check_at = crash_at + (rounds + 1) * p + 3.0 * p
    sim = Simulation(duration=check_at + 4 * p, entities=[net, *nodes])
    pending = []
    for i, nd in enumerate(nodes):
        if c["start_first"][i]:
            pending += nd.start()
    for a in nodes:
        for b in nodes:
            if a is not b:
                a.add_member(b)
    for i, nd in enumerate(nodes):
        if not c["start_first"][i]:
            pending += nd.start()
    for e in pending:
        sim.schedule(e)
    victim = nodes[c["victim"]]
    survivors = [x for x in nodes if x is not victim]
    views = {}
    sim.schedule(Event.once(time=Instant.from_seconds(crash_at), event_type="CutOff", fn=lambda e: net.partition([victim], survivors)))
    sim.schedule(Event.once(time=Instant.from_seconds(check_at), event_type="Look",
                            fn=lambda e: views.update({x.name: x.get_member_state(victim.name).name for x in survivors})))
    _, verdict = run_bounded(sim, wall_s=30.0)
    final = {x.name: {y.name: x.get_member_state(y.name).name for y in nodes if y is not x} for x in survivors}
    return dict(verdict=verdict, at_check=views, final=final, victim=victim.name, probes={x.name: x.stats.probes_sent for x in survivors})


def oracle_bootstrap(c, o):
    if o["verdict"] != "ok":
        return [dict(clause=f"bootstrap run ended with {o['verdict']}")]
    for name, st in sorted(o["at_check"].items()):
        if st == "ALIVE":
            return [dict(clause="a member that stops responding for good stops being reported ALIVE by every live member within a bounded number of probe rounds",
                         mechanism="probe-loop-not-running" if o["probes"].get(name, 0) == 0 else "still-alive", observer=name, victim=o["victim"],
                         probes_sent=o["probes"].get(name))]
    for name, view in sorted(o["final"].items()):
        for other, st in sorted(view.items()):
            if other != o["victim"] and st == "DEAD":
                return [dict(clause="a member that keeps answering within the ack timeout is never declared DEAD", observer=name, member=other)]
    return []


FAM_BOOT = Family("bootstrap", "", "", "", gen_bootstrap, impl_bootstrap, lambda c, o: "", oracle_bootstrap,
                  nontrivial=lambda c, o: any(c["start_first"]))

# --------------------------------------------------------------------------- families
FAMILIES = [
    Family("cluster", IMPORTS, "ok_cluster", "list (cfg * list Z * list Z * list obs_step)", gen_cluster, impl_cluster,
           encode_cluster, oracle_cluster, nontrivial_cluster, parallel=True,
           describe=lambda c: f"{c['mode']},n={c['n']}"),
    Family("node", IMPORTS, "ok_node", "cfg * list Z * list Z * list obs_step", gen_node, impl_node,
           encode_node, oracle_node, lambda c, o: any(m[1] == 2 for st in o["steps"] for m in st[3]["members"]),
           describe=lambda c: f"peers={c['npeers']}"),
    Family("world", "From HS Require Import Base.Prelude C13.Model C13.Net C13.NetCheck.", "ok_world",
           "list cfg * Z * Z * Z * list (list Z) * list gstep", gen_world, impl_cluster, encode_world,
           lambda c, o: [], lambda c, o: c["mode"] == "slow", parallel=True, describe=lambda c: f"{c['mode']},n={c['n']}"),
    Family("cworld", "From HS Require Import Base.Prelude C13.Model C13.Net C13.NetCheck C13.NetCrashCheck.", "ok_cworld",
           "list cfg * Z * Z * Z * list (list Z) * list cgstep", gen_cworld, impl_cluster, encode_world,
           lambda c, o: [], lambda c, o: True, parallel=True, describe=lambda c: f"{c['mode']},n={c['n']}"),
    Family("phi", IMPORTS_PHI, "ok_phi", "nat * Q * option Q * list (dop * dobs)", gen_phi, impl_phi,
           encode_phi, oracle_phi, lambda c, o: any(x[3] == 3 for x in o["obs"])),
]

TRUSTED = [
    "Coq 8.16.1 kernel (coqc, vm_compute for case evaluation); no native_compute",
    "correspondence harness harness/props/c13.py (scenario generator, per-handler recorder, in-Coq replay ok_cluster / ok_phi)",
    "math.erfc / math.log10 / math.sqrt (libm): Section variables of C13/PhiModel.v with the order properties of the mathematical functions as hypotheses; float rounding of phi is not modelled",
    "cluster relations C13/Net.v / C13/NetCrash.v stand for the engine + Network (least timestamp first, cancelled events skipped, message = one event at now+delay); every recorded run of the world/cworld families is checked inside Coq to be a path of them (ok_world / ok_cworld, proved sound), runs not generated are covered by the engine property C01",
]
FILES = ["C13/Model.v", "C13/PhiModel.v", "C13/Net.v", "C13/NetCheck.v", "C13/NodeProofs.v", "C13/PhiProofs.v", "C13/NetProofs.v",
         "C13/NetCheckProofs.v", "C13/ProbeOrder.v", "C13/NetCrash.v", "C13/NetCrashCheck.v", "C13/Examples.v", "C13/Props.v"]


def _coq_cases_sharded(ctx):
    """Cluster cases are large terms (a state snapshot per handler call): evaluate them in
    small shards, in parallel (same hsverif.coq.eval_cases, other shard size)."""
    from hsverif import coq

    def f(tag, imports, ok_fn, case_type, cases):
        shard = {"cluster": 4, "world": 4, "cworld": 4, "node": 25}.get(tag, 400) * (1 if ctx.quick else 2)
        return coq.eval_cases(f"{ctx.pid}_{tag}", imports, ok_fn, case_type, cases, shard=shard, workers=14)
    return f


def run(ctx):
    ctx.coq_cases = _coq_cases_sharded(ctx)
    ctx.prove(FILES, allowed_axioms=(), trusted_base=TRUSTED)
    stats = []
    for fam in FAMILIES:
        # a case takes ~30 ms: worker processes (import of the package in each) only pay off for thorough
        fam.parallel = fam.parallel and not ctx.quick
    for fam, n in ((FAMILIES[0], ctx.n(24, 300)), (FAMILIES[1], ctx.n(100, 1500)), (FAMILIES[2], ctx.n(16, 150)), (FAMILIES[3], ctx.n(14, 120)), (FAMILIES[4], ctx.n(100, 2500))):
        stats.append(run_family(ctx, fam, n))
        ctx.log(f"family {fam.name}: {stats[-1]['cases']} cases, {stats[-1]['mismatches']} mismatches, "
                f"{stats[-1]['oracle_failures']} oracle failures")
    from hsverif.family import run_oracle_only
    ctx.coverage["oracle_only_families"] = [run_oracle_only(ctx, FAM_BOOT, ctx.n(30, 300))]
    merge_stats(ctx, stats, "cluster: random scenario (2-5 nodes; healthy / one stopped member / slow links / injected forged events); "
                            "non-trivial = long enough to pass the detection deadline (crash), >= 6 handler calls per node (healthy), "
                            "reaches the indirect/suspicion/DEAD paths (slow, adversarial); phi: query with elapsed > mean; distinct by JSON of the input")
    ctx.finish_obligations()
    ctx.assumptions += [
        "bounded-rounds detection is proved in pieces (c13_probed_within_two_rounds, c13_timeout_suspects, c13_silent_stays_non_alive, c13_tick_phi_suspects); their composition into 'non-ALIVE by crash + (2(n-1)+1) probe intervals + ack timeout' is checked by the oracle on every generated run with a stopped member, not proved",
        "phi theorems are over exact rationals with erfc/log10/sqrt as hypotheses-constrained section variables; the float implementation's monotonicity is checked by the oracle (grid of 400 instants per query, every handler call of every run)",
        "accuracy theorems assume 2*d < ack timeout (int(probe_interval*0.5*1e9) ns) and a symmetric full-knowledge start configuration (what add_member for every peer + start() produce)",
    ]


def replay(data):
    fam = {f.name: f for f in FAMILIES}[data["detail"]["family"]]
    c = data["detail"]["case"]
    obs = fam.impl(c)
    fails = fam.oracle(c, obs)
    print("oracle failures:", fails)
    return 1 if fails else 0
