"""Regenerate coq/Gen/{EnvSites,StaleSites}.v from $HS_REPO on every run (only
rewritten when the content changes, so that unchanged trees do not recompile)."""
from __future__ import annotations

import os
import sys

sys.path.insert(0, os.path.join(os.path.dirname(__file__), "..", "translate"))
import sites as S  # noqa: E402


def regenerate():
    repo = os.environ.get("HS_REPO", "/repo")
    sites, nfiles = S.extract(repo)
    out = {}
    for fn, name, kinds in (("EnvSites.v", "env_sites", S.C03_KINDS), ("StaleSites.v", "stale_sites", S.C07_KINDS)):
        sel = [s for s in sites if s[2] in kinds]
        txt = S.emit_coq(sel, name)
        p = os.path.join("/verif/coq/Gen", fn)
        os.makedirs(os.path.dirname(p), exist_ok=True)
        if not os.path.exists(p) or open(p).read() != txt:
            tmp = p + f".{os.getpid()}.tmp"
            open(tmp, "w").write(txt)
            os.replace(tmp, p)
        out[name] = sel
    return out, nfiles
