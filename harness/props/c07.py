"""C07 — no library component emits an event into the past or spins at a frozen clock.

Obligations: the regenerated stale-clock / spin site list is fully classified
(C07/Props.v) + the engine theorems (only events emitted into the past are ever
discarded; the clock never moves backwards).
Exploration (the library-wide quantifier): every scenario of
harness/scenarios/library.py (one or more per component family, several
constructor configurations, non-zero latencies, contention) is run under the push
monitor / frozen-clock watchdog / time-travel-warning counter of
harness/scenarios/runner.py.
"""
from __future__ import annotations

import json
import os
from concurrent.futures import ProcessPoolExecutor

from props import sitegen

LEVEL = "proof"
FILES = ["Base/Sites.v", "C07/SiteClass.v", "Gen/StaleSites.v", "Engine/Engine.v", "Engine/Script.v",
         "Engine/EngineProofs.v", "Engine/ScriptProofs.v", "C07/Props.v"]

TRUSTED = [
    "Coq 8.16.1 kernel, vm_compute (finite classification), no axioms",
    "harness/translate/sites.py: syntactic, incomplete by nature (aliasing, helper functions building events); the monitored runs exist to catch what it misses",
    "C07/SiteClass.v: hand-maintained classification table (a reviewer must read it)",
    "harness/scenarios/library.py + runner.py: scenario corpus and monitors (exploration, not proof)",
]


def _run_one(args):
    from scenarios import runner
    name, seed, variant = args
    try:
        return runner.run(name, seed, variant)
    except Exception as e:  # noqa: BLE001  (scenario construction failed)
        return dict(name=name, seed=seed, variant=variant, verdict=f"build-error:{type(e).__name__}:{str(e)[:160]}",
                    events=0, past_pushes=0, time_travel_warnings=0, max_same_instant=0, frozen=None, past_samples=[], tt_samples=[])


def failure_of(r):
    if r["verdict"] == "frozen-clock":
        return dict(clause="a finite workload never causes an unbounded number of deliveries at a single simulated instant",
                    mechanism="frozen-clock", at=r["frozen"])
    if r["past_pushes"] > 0 or r["time_travel_warnings"] > 0:
        return dict(clause="each event a component emits carries a timestamp no earlier than the instant at which it is emitted",
                    mechanism="push-into-past", samples=r["past_samples"], warnings=r["tt_samples"], count=r["past_pushes"])
    return None


def run(ctx):
    sites, nfiles = sitegen.regenerate()
    ctx.prove(FILES, allowed_axioms=(), trusted_base=TRUSTED)
    from scenarios import runner
    names = sorted(runner.builders())
    variants = range(3) if ctx.quick else range(8)
    seeds = [ctx.seed] if ctx.quick else [ctx.seed, ctx.seed + 1, ctx.seed + 2]
    cases = [(n, s, v) for n in names for v in variants for s in seeds]
    with ProcessPoolExecutor(max_workers=14) as ex:
        results = list(ex.map(_run_one, cases, chunksize=4))
    known_cases = {}
    for f in ctx.findings:
        for c in f.get("cases", []):
            known_cases[(c, f.get("mechanism_key"))] = f["id"]
    verdicts, fails, nontrivial = {}, 0, set()
    for r in results:
        verdicts[r["verdict"].split(":")[0]] = verdicts.get(r["verdict"].split(":")[0], 0) + 1
        if r["events"] >= 20:
            nontrivial.add((r["name"], r["variant"], r["seed"]))
        f = failure_of(r)
        if f is None:
            continue
        fails += 1
        fid = known_cases.get((r["name"], f["mechanism"]))
        if fid and ctx.known(fid, f"{r['name']}: {f['mechanism']}"):
            continue
        ctx.violation("oracle", dict(family="scenario", case=dict(name=r["name"], seed=r["seed"], variant=r["variant"]), failure=f))
    build_errors = [r for r in results if r["verdict"].startswith(("build-error", "raised"))]
    ctx.coverage.update(
        evaluations=len(results), distinct_nontrivial=len(nontrivial),
        rule="every scenario of harness/scenarios/library.py x constructor variants x seeds, run under the push monitor, the frozen-clock watchdog and the time-travel-warning counter; non-trivial = >= 20 events delivered",
        samples=[{k: r[k] for k in ("name", "seed", "variant", "verdict", "events", "max_same_instant", "past_pushes", "time_travel_warnings")} for r in results[:3]],
        scenarios=len(names), verdicts=verdicts, monitored_failures=fails,
        source_files_scanned=nfiles, stale_sites=[list(s) for s in sites["stale_sites"]],
        scenarios_that_raised=[(r["name"], r["variant"], r["verdict"][:100]) for r in build_errors][:20],
    )
    ctx.assumptions += [
        "families without a per-component theorem are covered by monitored runs only (exploration); which components are under a theorem: see the evidence of C08-C19",
        "a scenario whose construction or run raises is reported in the evidence (scenarios_that_raised) and is not counted as a C07 failure",
    ]
    ctx.finish_obligations()


def replay(data):
    c = data["detail"]["case"]
    r = _run_one((c["name"], c["seed"], c["variant"]))
    print(json.dumps({k: v for k, v in r.items() if k != "stats"}, indent=1))
    return 1 if failure_of(r) else 0
