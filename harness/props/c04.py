"""C04 — observing, pausing or stepping a run does not change it.

Families:
* modes: a generated script is run plain / with a trace recorder / with event
  tracing / with the control surface attached but idle; every mode is compared
  with the same model run (coq/Engine) inside Coq, and (oracle) with the plain
  run of the implementation.  For stateless scripts the run is also reset() and
  re-run (oracle only).
* session: a generated control session (pause, start, step(n), resume,
  Time/EventCount/EventType breakpoints one-shot or not, clear) drives the real
  SimulationControl; phase, clock, events processed, heap size and breakpoint
  count after every command, the full delivery log and the entity-side log are
  compared with coq/Engine/Control.v inside Coq.  Oracle: final logs equal the
  uninterrupted plain run; step(n) delivered exactly n; on_event fired once per
  delivery.
"""
from __future__ import annotations

import json

from hsverif.family import Family, merge_stats, run_family
from props import engine_script as es

LEVEL = "proof"
FILES = ["Engine/Engine.v", "Engine/Script.v", "Engine/EngineProofs.v", "Engine/ScriptProofs.v",
         "Engine/Control.v", "Engine/ControlProofs.v", "Engine/ControlScript.v", "C04/Lemmas.v",
         "Base/PyLib.v", "Gen/BreakpointGen.v", "C04/GenTie.v", "C04/Props.v"]
MODES = ["plain", "recorder", "tracing", "control-idle"]


def gen_modes(rng):
    c = es.gen_script(rng, futures=rng.random() < 0.4)
    c["mode"] = rng.choice(MODES)
    return c


def stateless(c):
    txt = json.dumps(c["prog"])
    if '"gen"' in txt or '"eff"' in txt:
        return False
    return all(not ps["cancel"] and not ps["emit"]["hooks"] for ps in c["pre"]) and \
        all(not a[1].get("hooks") and a[1].get("label", -1) < 0 for t in c["prog"] for b in t.values() for a in b[1] if a[0] == "emit")


def view(o):
    # after a watchdog stop or a raising handler the fast loop has not written its counters back
    tail = (o["clock"], o["processed"]) if o["status"] == 0 else None
    return [[p[0], p[1], p[2], p[3]] for p in o["pops"] if p[4] == "delivered"], o["ulog"], tail


def impl_modes(c):
    o = es.run_script(c, mode=c["mode"])
    plain = es.run_script(c, mode="plain")
    o["same_as_plain"] = view(o) == view(plain) and o["status"] == plain["status"]
    o["reset_same"] = None
    if stateless(c) and o["status"] == 0 and plain["status"] == 0:
        o["reset_same"] = reset_replay(c)
    o["reset_source_same"] = reset_with_source(c) if len(json.dumps(c["pre"])) % 3 == 0 else None
    o["inrun"] = inrun_control(c) if len(json.dumps(c["pre"])) % 3 == 1 else None
    o["held"] = held_events_control(c) if len(json.dumps(c["pre"])) % 3 == 2 else None
    return o


def reset_replay(c):
    """run; reset; run a few deliveries and stop (pause + step); reset; run.  The first and the last run must deliver
    the same sequence - also when the horizon is open (auto-termination) and the reset came in the middle of a run."""
    from happysimulator.core.simulation import Simulation
    from happysimulator.core.temporal import Instant
    w = es.build_world(c)
    sim = Simulation(entities=list(w.entities), **es.horizon_kwargs(c))
    for ps in c["pre"]:
        sim.schedule(w.mk_event(0, dict(ps["emit"], dt=ps["time"])))
    w.prerun[0] = False
    _ = sim.control
    pops1 = []
    es.instrument_pops(sim, pops1, 5000, w)
    try:
        sim.run()
        first = [p[:4] for p in pops1 if p[4] == "delivered"]
        n1 = len(w.ulog)
        sim.control.reset()
    except es.Watchdog:
        return None
    k = len(first) // 2
    if k >= 1:
        try:
            es.instrument_pops(sim, [], 5000, w)
            sim.control.pause()
            sim.run()
            sim.control.step(k)
            sim.control.reset()
            del w.ulog[n1:]
        except es.Watchdog:
            return [False, first[:6], "watchdog in the partial re-run"]
    pops2 = []
    es.instrument_pops(sim, pops2, 5000, w)
    try:
        sim.run()
    except es.Watchdog:
        return [False, first[:6], "watchdog: the run after reset() does not terminate"]
    second = [p[:4] for p in pops2 if p[4] == "delivered"]
    return [first == second and w.ulog[:n1] == w.ulog[n1:], first[:6], second[:6]]


def reset_with_source(c):
    """reset()+run() with real Sources (and a probe-like daemon source) whose first ticks tie
    with pre-run scheduled events: the second run must repeat the first delivery sequence."""
    import random as _r
    from happysimulator.core.entity import Entity
    from happysimulator.core.event import Event
    from happysimulator.core.simulation import Simulation
    from happysimulator.core.temporal import Instant
    from happysimulator.load.source import Source
    rng = _r.Random(len(json.dumps(c["pre"])) * 7919 + len(c["prog"]))
    log = []

    class Sink(Entity):
        def handle_event(self, event):
            # a stateless relay that mutates the event's metadata in place (a ttl counter), as
            # add_context()/forward()-style models do
            md = event.context.get("metadata") if event.context else None
            if md and md.get("ttl", 0) > 0:
                md["ttl"] -= 1
                log.append(["ttl", self.now.nanoseconds, self.name, md["ttl"]])
                return [Event(time=self.now + 0.25, event_type=event.event_type, target=sinks[(int(self.name[1:]) + 1) % 2],
                              context={"metadata": md})]
            return None

    sinks = [Sink(f"k{i}") for i in range(2)]
    rate = rng.choice([1, 2, 4])
    srcs = [Source.constant(rate=rate, target=sinks[0], event_type="tick", name="src0", stop_after=3.0)]
    if rng.random() < 0.5:
        srcs.append(Source.constant(rate=rng.choice([1, 2]), target=sinks[1], event_type="tock", name="src1", stop_after=3.0))
    sim = Simulation(sources=srcs, entities=sinks, end_time=Instant.from_seconds(4.0))
    period = 1_000_000_000 // rate
    for i in range(rng.randint(1, 5)):
        t = rng.choice([period, 2 * period, period, 1_000_000_000, 500_000_000, 0])      # ties with source ticks
        ctx = {"metadata": {"ttl": rng.randint(1, 3)}} if rng.random() < 0.5 else None
        sim.schedule(Event(time=Instant(t), event_type=f"pre{i}", target=sinks[rng.randrange(2)], context=ctx))
    _ = sim.control

    def watch():
        heap = sim._event_heap
        orig = heap.pop

        def pop():
            ev = orig()
            if not ev._cancelled:
                log.append([ev.time.nanoseconds, ev.event_type, getattr(ev.target, "name", type(ev.target).__name__)])
            return ev
        heap.pop = pop
    del log[:]
    watch()                       # every delivery, including the sources' own tick events
    sim.run()
    first = list(log)
    del log[:]
    sim.control.reset()
    watch()                       # reset() installs a new heap
    sim.run()
    second = list(log)
    del log[:]
    sim.control.reset()           # and once more: the replayed events must not share state with the saved specs
    watch()
    sim.run()
    if first == second and first != log:
        second = list(log)
    return [first == second, first[:10], second[:10]]


def inrun_control(c):
    """Control requests issued by MODEL code while the run is in progress (a handler calling
    sim.control.pause() / add_breakpoint()), with the control surface attached but idle when the loop
    was entered, an explicit end_time and no recorder: the request must take effect before the next
    delivery, and resuming must complete the run exactly like an unobserved one."""
    import random as _r
    from happysimulator.core.control.breakpoints import EventCountBreakpoint
    from happysimulator.core.entity import Entity
    from happysimulator.core.event import Event
    from happysimulator.core.simulation import Simulation
    from happysimulator.core.temporal import Instant
    rng = _r.Random(len(json.dumps(c["prog"])) * 104729 + len(c["pre"]))
    n_ev = rng.randint(4, 12)
    k = rng.randint(1, n_ev - 1)
    how = rng.choice(["pause", "breakpoint"])
    times = sorted(rng.choice([0, 1, 1, 2, 5, 5, 9]) * 100_000_000 for _ in range(n_ev))

    def build(observed):
        log = []

        class Node(Entity):
            def handle_event(self, event):
                log.append([self.now.nanoseconds, event.event_type])
                if observed and len(log) == k:
                    if how == "pause":
                        sim.control.pause()
                    else:
                        sim.control.add_breakpoint(EventCountBreakpoint(count=k + 1, one_shot=True))
                return None
        node = Node("n")
        sim = Simulation(entities=[node], end_time=Instant.from_seconds(2.0))
        for i, t in enumerate(times):
            sim.schedule(Event(time=Instant(t), event_type=f"e{i}", target=node))
        return sim, log
    sim, plain = build(False)
    sim.run()
    sim, log = build(True)
    sim.control.get_state()           # attached, nothing registered
    sim.run()
    at_pause = len(log)
    paused = sim.control.is_paused
    expect = k if how == "pause" else min(k + 1, n_ev)
    if paused:
        sim.control.resume()
    return dict(how=how, k=k, n=n_ev, paused=paused, at_pause=at_pause, expect=expect, same=(log == plain))


def held_events_control(c):
    """A batching entity creates events and holds them off the heap across pause/step boundaries, then
    returns them together with events created later for the same instant.  Same-instant delivery order is
    creation order in the uninterrupted run; pausing, stepping and resuming must not change it."""
    import random as _r
    from happysimulator.core.entity import Entity
    from happysimulator.core.event import Event
    from happysimulator.core.simulation import Simulation
    from happysimulator.core.temporal import Instant
    rng = _r.Random(len(json.dumps(c["prog"])) * 7907 + len(c["pre"]) * 13)
    n_make = rng.randint(1, 4)
    steps = [rng.randint(1, 2) for _ in range(rng.randint(1, 4))]
    T = 2_000_000_000

    def build():
        log = []

        class Sink(Entity):
            def handle_event(self, event):
                log.append([self.now.nanoseconds, event.event_type])
                return None

        class Batcher(Entity):
            def __init__(self, name):
                super().__init__(name)
                self.buf = []

            def handle_event(self, event):
                log.append([self.now.nanoseconds, event.event_type])
                if event.event_type.startswith("make"):
                    self.buf.append(Event(time=Instant(T), event_type="held" + event.event_type[4:], target=sink))   # created, NOT returned
                    return None
                out, self.buf = self.buf, []
                return [Event(time=Instant(T), event_type="late0", target=sink), *out,
                        Event(time=Instant(T), event_type="late1", target=sink)]
        sink, b = Sink("sink"), Batcher("batcher")
        sim = Simulation(entities=[sink, b], end_time=Instant(T + 1_000_000_000))
        for i in range(n_make):
            sim.schedule(Event(time=Instant(100_000_000 * (i + 1)), event_type=f"make{i}", target=b))
        sim.schedule(Event(time=Instant(1_000_000_000), event_type="flush", target=b))
        return sim, log
    sim, plain = build()
    sim.run()
    sim, log = build()
    ctl = sim.control
    ctl.pause()
    sim.run()
    for k in steps:
        if ctl.is_paused:
            ctl.step(k)
    if ctl.is_paused:
        ctl.resume()
    return dict(same=(log == plain), plain=plain[-8:], observed=log[-8:], steps=steps)


def oracle_modes(c, o):
    if o["status"] == 3:
        return [dict(clause="run exceeded the wall-clock limit")]
    out = []
    if not o["same_as_plain"]:
        out.append(dict(clause=f"attaching {c['mode']} does not change which events are delivered, their order, times or the resulting state"))
    if o["reset_same"] is not None and not o["reset_same"][0]:
        out.append(dict(clause="reset() followed by run() repeats the original delivery sequence (stateless entities)",
                        first=o["reset_same"][1], second=o["reset_same"][2]))
    if o.get("reset_source_same") is not None and not o["reset_source_same"][0]:
        out.append(dict(clause="reset() followed by run() repeats the original delivery sequence (sources re-primed, pre-run events replayed)",
                        first=o["reset_source_same"][1], second=o["reset_source_same"][2]))
    hd = o.get("held")
    if hd is not None and not hd["same"]:
        out.append(dict(clause="pausing / stepping while an entity holds created-but-unscheduled events does not change same-instant delivery order",
                        observed=hd))
    ir = o.get("inrun")
    if ir is not None:
        if not ir["paused"] or ir["at_pause"] != ir["expect"]:
            out.append(dict(clause="a pause or breakpoint requested by model code during the run takes effect before the next delivery it covers",
                            observed=ir))
        elif not ir["same"]:
            out.append(dict(clause="a run paused from model code and resumed delivers exactly what the unobserved run delivers", observed=ir))
    return out


def gen_session(rng):
    c = es.gen_script(rng, futures=rng.random() < 0.3, max_pre=10)
    c["fuel"] = 300
    c["cmds"] = es.gen_cmds(rng)
    if c["start"] == 0 and rng.random() < 0.3:
        # a late epoch (116 days): float seconds no longer resolve single nanoseconds there
        big = 10_000_000_000_000_000
        c["start"] = big
        for ps in c["pre"]:
            ps["time"] += big
        if c["end"] is not None:
            c["end"] += big
    # time breakpoints are absolute instants: move them with the script's start, and put some of them 0-2 ns after an
    # instant at which events are scheduled (a delivery just before the breakpoint's time must not trigger it)
    inst = sorted({ps["time"] for ps in c["pre"]}) or [c["start"]]
    for cmd in c["cmds"]:
        if cmd[0] == "bp" and cmd[1] == "time":
            cmd[2] = rng.choice(inst) + rng.choice([0, 1, 2]) if rng.random() < 0.4 else cmd[2] + c["start"]
    return c


def impl_session(c):
    o = es.run_session(c, c["cmds"])
    if o["status"] == 0:
        plain = es.run_script(c, mode="plain")
        o["plain"] = dict(status=plain["status"], dels=[p[:4] for p in plain["pops"] if p[4] == "delivered"], ulog=plain["ulog"],
                          clock=plain["clock"], processed=plain["processed"])
    return o


def oracle_session(c, o):
    if o["status"] == 3:
        return [dict(clause="run exceeded the wall-clock limit")]
    out = []
    dels = [p[:4] for p in o["pops"] if p[4] == "delivered"]
    plain = o["plain"]
    last = o["snaps"][-1] if o["snaps"] else None
    if plain["status"] == 0 and last is not None and last[0] == 2:
        if dels != plain["dels"] or o["ulog"] != plain["ulog"] or last[1] != plain["clock"] or last[2] != plain["processed"]:
            out.append(dict(clause="a run driven by any sequence of pause/step/resume ends in the same state as an uninterrupted run",
                            session=dels[:8], uninterrupted=plain["dels"][:8]))
    elif plain["status"] == 0 and dels != plain["dels"][:len(dels)]:
        out.append(dict(clause="a paused run has delivered a prefix of the uninterrupted run's deliveries", session=dels[:8], uninterrupted=plain["dels"][:8]))
    # step(n) exactness
    prev = [0, c["start"], 0, 0, 0]
    for cmd, snap in zip(o["cmds"], o["snaps"]):
        if cmd[0] == "step" and cmd[1] >= 1 and prev[0] == 1 and snap[0] == 1 and prev[4] == 0:
            if snap[2] - prev[2] != cmd[1]:
                out.append(dict(clause="step(n) delivers exactly n events unless the run ends first", n=cmd[1], delivered=snap[2] - prev[2]))
                break
        prev = snap
    # a breakpoint pauses right after the FIRST delivery that satisfies it: within one run segment no
    # delivery before the last one may satisfy a registered breakpoint
    evs = [h for h in o["hook_log"] if h[0] == "event"]
    bps, pos = [], 0
    ops = {0: lambda v, t: v > t, 1: lambda v, t: v >= t, 2: lambda v, t: v < t, 3: lambda v, t: v <= t,
           4: lambda v, t: v == t, 5: lambda v, t: v != t}

    def sat(b, h):
        if b[1] == "time":
            return h[1] >= b[2]
        if b[1] == "count":
            return h[4] >= b[2]
        if b[1] == "type":
            return h[3] == b[2]
        return b[2] < len(h[5]) and ops[b[4]](h[5][b[2]], b[5])
    prev_proc = 0
    pause_pending = False
    for cmd, snap in zip(o["cmds"], o["snaps"]):
        if cmd[0] == "bp":
            bps.append(cmd)
        elif cmd[0] == "clear":
            bps = []
        elif cmd[0] == "pause":
            pause_pending = True
        elif cmd[0] in ("start", "step", "resume") and snap[0] != 3:
            seg = [h for h in evs[pos:] if h[4] <= snap[2]]
            pos += len(seg)
            for h in seg[:-1]:
                hit = [b for b in bps if sat(b, h)]
                if hit and not out:
                    out.append(dict(clause="a breakpoint pauses right after the first delivery that satisfies it",
                                    breakpoint=hit[0], delivery=h[:5], command=cmd))
            # ... and is then gone if one-shot: a free-running segment (start / resume, no pause requested) that
            # stops paused must have stopped at a delivery satisfying a breakpoint that is still registered
            if seg and cmd[0] in ("start", "resume") and snap[0] == 1 and not pause_pending and not out \
                    and not any(sat(b, seg[-1]) for b in bps):
                out.append(dict(clause="a breakpoint pauses the run only after a delivery that satisfies it, and a one-shot breakpoint is gone once it fired: the run paused after a delivery that satisfies no registered breakpoint",
                                delivery=seg[-1][:5], command=cmd, registered=bps[:4]))
            if seg:
                bps = [b for b in bps if not (b[3] and sat(b, seg[-1]))]
            pause_pending = False
    ev_hooks = [h[2] for h in o["hook_log"] if h[0] == "event"]
    delivered_ids = [p[5] for p in o["pops"] if p[4] == "delivered"]
    if last is not None and last[0] == 3:
        delivered_ids = delivered_ids[:-1]       # the handler of the last delivery raised: no notification for it
    if ev_hooks != delivered_ids:
        out.append(dict(clause="the event hook fires once per delivered event, in order"))
    return out[:1]


FAM_MODES = Family("modes", es.IMPORTS, "ok_run", es.CASE_TYPE, gen_modes, impl_modes, es.enc_case, oracle_modes,
                   nontrivial=lambda c, o: len(o["pops"]) >= 3, parallel=True, describe=lambda c: c["mode"])
FAM_SESSION = Family("session", es.SESSION_IMPORTS, "ok_session", es.SESSION_CASE_TYPE, gen_session, impl_session,
                     es.enc_session_case, oracle_session,
                     nontrivial=lambda c, o: o.get("status") == 0 and sum(1 for s in o["snaps"] if s[0] == 1) >= 2, parallel=True,
                     describe=lambda c: f"cmds={len(c['cmds'])}")

TRUSTED = [
    "Coq 8.16.1 kernel, vm_compute for case evaluation; no native_compute; no axioms",
    "translator harness/translate/py2coq.py + declared types (py2coq_targets.py BreakpointGen): should_break of TimeBreakpoint / "
    "EventCountBreakpoint / EventTypeBreakpoint is regenerated from core/control/breakpoints.py on every run and proved equal to the model's "
    "should_break on the context after a delivery (C04/GenTie.v); event types are integers; MetricBreakpoint (getattr) stays hand-modelled",
    "trace recorder, event tracing and the visual/code debuggers are not modelled: the correspondence shows they leave the run equal to the same model run",
    "Condition breakpoints (arbitrary Python predicates) are not modelled; Time/EventCount/EventType/Metric (on the scripted entities' handled-events counter) are",
    "harness/props/engine_script.py (script generator, control-session driver, observers, encoder)",
]


def run(ctx):
    from props import pygen
    ok, info = pygen.regenerate("BreakpointGen")    # Time/EventCount/EventType breakpoint predicates translated from $HS_REPO
    ctx.coverage["regenerated"] = info
    ctx.prove(FILES, allowed_axioms=(), trusted_base=TRUSTED)
    if not ok and ctx.pending_obligation_violation:
        ctx.pending_obligation_violation["translator"] = info.get("error")
    stats = [run_family(ctx, FAM_MODES, ctx.n(300, 6000)), run_family(ctx, FAM_SESSION, ctx.n(300, 6000))]
    merge_stats(ctx, stats, "random scripts x observation mode, and random control sessions (<=13 commands); non-trivial = >=3 pops / >=2 pauses; distinct by JSON")
    ctx.assumptions.append("reset()+run() replay is checked by the implementation-side oracle only (stateless scripts); it is not modelled")
    ctx.finish_obligations()


def replay(data):
    fam = {"modes": FAM_MODES, "session": FAM_SESSION}[data["detail"]["family"]]
    c = data["detail"]["case"]
    o = fam.impl(c)
    f = fam.oracle(c, o)
    print("oracle failures:", f)
    return 1 if f else 0
