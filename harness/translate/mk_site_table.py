#!/usr/bin/env python3
"""One-off helper used to (re)write the hand-maintained classification tables
coq/C03/SiteClass.v and coq/C07/SiteClass.v from the rule list below.  The
tables, not this script, are what the proofs use; a reviewer reads the tables.
Run it only deliberately (it overwrites the tables); the checks never run it."""
import os, sys
sys.path.insert(0, os.path.dirname(__file__))
import sites as S

RULES_C03 = [
    # (predicate on (file, func, kind, detail), class, text)
    (lambda f, q, k, d: k in ("module_state", "global_stmt") and "_global_event_counter" in d, "Benign",
     "the process-global sort-index counter: a run's deliveries, entity-side log, clock and counters do not depend on its value when the model is built (theorem c03_run_independent_of_counter_offset); Simulation no longer resets it (fix e917571)"),
    (lambda f, q, k, d: k == "global_stmt" and "_event_tracing_enabled" in d, "Benign",
     "observer switch of the visual debugger: event tracing does not change deliveries (C04: every script is also run under event tracing against the same model run)"),
    (lambda f, q, k, d: k == "global_writer_call" and f.startswith("happysimulator/visual/"), "Benign",
     "visual debugger start-up: outside a library model's run"),
    (lambda f, q, k, d: k in ("module_state", "global_stmt") and "utils/ids.py" in f, "Benign",
     "get_id(): process-wide id counter with its lock; no caller left in the package (identifiers never entered (time, type, target) deliveries or statistics)"),
    (lambda f, q, k, d: k == "module_state" and "Instant.Infinity" in d, "Benign", "immutable singleton (its methods return self / constants)"),
    (lambda f, q, k, d: k == "module_state" and ("_OPERATORS" in d or "_ALPHA" in d or "DEFAULT_STAGES" in d or "_default_rel" in d), "Benign",
     "read-only table / stateless default object: never assigned or mutated after import (DEFAULT_STAGES is copied with list() before use; _DefaultRel has a class constant only)"),
    (lambda f, q, k, d: k in ("shared_default", "module_state", "global_stmt", "global_writer_call")
        and not f.startswith(("happysimulator/visual/", "happysimulator/mcp/", "happysimulator/ai/")), "Review", "to be classified by reading the code"),
    (lambda f, q, k, d: k == "hash" and "count_min_sketch" in f, "Finding", "C03-cms-builtin-hash"),
    (lambda f, q, k, d: k == "setiter" and q == "RandomEviction.evict", "Finding", "C03-random-eviction-set-order"),
    (lambda f, q, k, d: k == "setiter" and "_dirty_keys" in d, "Finding", "C03-dirty-key-set-order"),
    (lambda f, q, k, d: k == "wallclock_ref" and q.startswith("TTLEviction"), "Finding", "C03-ttl-eviction-wallclock-default"),
    (lambda f, q, k, d: f.startswith(("happysimulator/visual/", "happysimulator/mcp/", "happysimulator/ai/")), "Benign",
     "visual debugger / MCP / AI tooling: outside the simulation run (not reachable from Simulation.run of a library model)"),
    (lambda f, q, k, d: k == "id", "Benign", "object identity used only as a dict/set key or for membership (never ordered, never iterated in an order that reaches deliveries or statistics)"),
    (lambda f, q, k, d: k == "uuid" and "message_queue" in f, "Benign", "random message identifier: not part of (time, type, target) deliveries nor of the counters; the id-keyed dicts are iterated in insertion (publish) order"),
    (lambda f, q, k, d: k == "uuid", "Benign", "registration identifier (breakpoint / hook); registries are iterated in insertion order"),
    (lambda f, q, k, d: k == "wallclock", "Benign", "wall-clock duration reported as wall_clock_seconds / partition wall times / speedup only; never feeds simulated time, event order or component state"),
    (lambda f, q, k, d: k == "globalrandom" and d.endswith("seed"), "Benign", "seeds the process-global RNG"),
    (lambda f, q, k, d: k == "globalrandom" and d.startswith(("np.", "numpy.")), "Benign", "numpy global RNG: reproducible given numpy.random.seed (part of 'the same seeds')"),
    (lambda f, q, k, d: k == "globalrandom", "Benign", "process-global `random` RNG: reproducible given random.seed (part of 'the same seeds'); draws happen in delivery order, which is deterministic (C01)"),
    (lambda f, q, k, d: k == "setiter" and "ShiftSchedule" in q, "Benign", "set is consumed through sorted(): order-independent"),
    (lambda f, q, k, d: k == "setiter" and "ConsistentHash._rebuild_ring" in q, "Benign", "order-insensitive removal loop (each iteration filters the ring by name)"),
    (lambda f, q, k, d: k == "setiter" and "trace_analysis" in f, "Benign", "post-run analysis helper: order of the returned lifecycles only; not part of a run's deliveries or component statistics"),
]
RULES_C07 = [
    (lambda f, q, k, d: "message_queue" in f and "self._clock.now if self._clock else now" in d, "Benign",
     "the event is stamped with the clock read AFTER the latency wait; the name bound before the yield is only the fallback when no clock is attached (then no simulated time exists)"),
    (lambda f, q, k, d: "async_server" in f and "result_events" in d, "Benign",
     "io_wrapper re-stamps every event of result_events with the current clock before returning them (repair of finding C07-async-server-stale-queue-event)"),
    (lambda f, q, k, d: k == "stale_now" and "soft_ttl_cache" in f and "_maybe_start_refresh" in d, "Benign",
     "the refresh event is handed to the engine as a side effect of the very next yield (yield latency, side_effects), i.e. it is scheduled at the instant it was stamped"),
    (lambda f, q, k, d: k == "event_time" and q.endswith(".on_complete") and d == "time=finish_time", "Benign",
     "completion hook: the engine calls hooks with the finishing event's own time, which is the clock at that delivery (C01 clock = timestamp, C02 hooks run at finish)"),
    (lambda f, q, k, d: k == "event_time" and q.split(".")[-1] in ("start_events", "start_event", "generate_events", "schedule_first_heartbeat", "start_warming",
                                                                   "schedule_fault", "schedule_heal", "get_events")
        or (k == "event_time" and "stimulus.py" in f), "Benign",
     "pre-run / source schedule at absolute times taken from the configuration (fault windows, appointments, stimuli, provider ticks): created before the run or by a Source for its own next tick, never relative to a stale clock"),
    (lambda f, q, k, d: k == "event_time" and "rate_limiter" in f, "Benign",
     "`now` is the parameter every caller binds to event.time of the event being handled (= the clock at that delivery); poll_time = now + wait with wait >= 1 ns (C10 model and theorems; repaired by 16398cc / 2b53532)"),
    (lambda f, q, k, d: k == "event_time" and "perishable_inventory" in f, "Benign", "now := self.now read in the same (non-generator) handler invocation; interval is a positive configuration value"),
    (lambda f, q, k, d: k == "event_time" and "shift_schedule" in f, "Benign", "next_transition_after(self.now) returns a boundary strictly after the current time or None"),
    (lambda f, q, k, d: k == "event_time" and "message_queue" in f and "now.to_seconds() + self._redelivery_delay" in d, "Benign",
     "now := self._clock.now if self._clock else Instant.Epoch read in the same call; redelivery_delay >= 0 (C19 model: redelivery is stamped with the clock at the request plus the delay)"),
    (lambda f, q, k, d: k == "wait_loop" and d.startswith("while True: yield delay"), "Benign",
     "hand-written `yield from`: re-yields every delay of an inner generator until it stops (StopIteration ends the loop); each round is one step of the inner operation"),
    (lambda f, q, k, d: k == "wait_loop" and d.endswith(": yield wakeup"), "Benign",
     "the waiter parks on a SimFuture resolved by the releasing side (repairs 2d2ff13 of C09): no event at all while blocked"),
    (lambda f, q, k, d: k == "wait_loop" and "database.py" in f and d.endswith(": yield 0.01"), "Benign",
     "polls for a free connection every 10 ms of simulated time (a positive literal)"),
    (lambda f, q, k, d: k == "wait_loop" and "connection_pool.py" in f, "Benign",
     "poll_interval = min(0.1, timeout / 10) > 0 for a positive timeout; the loop is bounded by elapsed < timeout (C09 pool model)"),
    (lambda f, q, k, d: k == "wait_loop" and "cpu_scheduler.py" in f, "Benign",
     "each round runs the task for run_time > 0 (quantum or remaining time) or waits one context switch: task.remaining_s strictly decreases"),
    (lambda f, q, k, d: k == "wait_loop" and "tcp_connection.py" in f, "Benign",
     "each round waits one RTT / RTO (positive estimates) and sends at least one segment or backs off: sent strictly increases or the window shrinks to 1"),
    (lambda f, q, k, d: k == "wait_loop", "Review", "to be classified by reading the code"),
    (lambda f, q, k, d: k == "stale_now", "Review", "to be classified by replay"),
    (lambda f, q, k, d: k == "event_time", "Review", "to be classified by reading the code"),
    (lambda f, q, k, d: k == "spin", "Review", "to be classified by replay"),
    (lambda f, q, k, d: k == "neg_time", "Review", "to be classified by replay"),
]


def q(s):
    return '"' + s.replace('"', '""') + '"'


def table(sites, rules, name, header):
    rows, missing = [], []
    for (f, fn, k, d, o) in sites:
        for pred, cls, txt in rules:
            if pred(f, fn, k, d):
                rows.append(f"  (({q(f)}, {q(fn)}, {q(k)}, {q(d)}, {o}), {cls} {q(txt)})")
                break
        else:
            missing.append((f, fn, k, d, o))
    body = ";\n".join(rows)
    return (header + f"\nDefinition {name} : list (site * cls) := [\n{body}\n].\n"), missing


if __name__ == "__main__":
    sites, _ = S.extract(os.environ.get("HS_REPO", "/repo"))
    c03 = [s for s in sites if s[2] in S.C03_KINDS]
    c07 = [s for s in sites if s[2] in S.C07_KINDS]
    hdr = ("(** HAND-MAINTAINED classification of the {what} sites of the pinned tree.\n"
           "    Each row: the site (file, qualified function, kind, detail, ordinal) and its class.\n"
           "    [Benign reason]: cannot change deliveries or component statistics, for the stated reason.\n"
           "    [Finding id]: a recorded defect (known_findings/{pid}.json).\n"
           "    A site of the regenerated list (Gen/*.v) that is not in this table breaks the\n"
           "    classification theorem of {pid}/Props.v. *)\n"
           "From HS Require Import Base.Sites.\nFrom Coq Require Import String List ZArith.\nImport ListNotations.\n"
           "Local Open Scope string_scope.\nLocal Open Scope Z_scope.\n")
    t3, m3 = table(c03, RULES_C03, "known_env_sites", hdr.format(what="environment-dependence (C03)", pid="C03"))
    t7, m7 = table(c07, RULES_C07, "known_stale_sites", hdr.format(what="stale-clock / zero-delay-spin (C07)", pid="C07"))
    open("/verif/coq/C03/SiteClass.v", "w").write(t3)
    open("/verif/coq/C07/SiteClass.v", "w").write(t7)
    print("C03 rows", len(c03), "unclassified", m3)
    print("C07 rows", len(c07), "unclassified", m7)
