"""Site extractor (fail-closed, syntactic) for the two library-wide properties.

Walks every .py file of the `happysimulator` package in $HS_REPO with `ast` and
lists the *sites* where a run can come to depend on the environment (C03) or
where a component can emit an event into the past / spin at a frozen clock
(C07).  A site is identified WITHOUT line numbers:
    (relative file, qualified function, kind, detail, ordinal within the function)
so that harmless edits do not move it, while a new or relocated site shows up
as an unclassified entry of the regenerated Coq list.

C03 kinds: shared_default (a parameter default that is a list/dict/set display or a constructor call: ONE object shared
by every call, i.e. process-global state), module_state (module- or class-level binding of a mutable display or of a
call other than the listed immutable/registry constructors), global_stmt (`global X` in a function), global_writer_call
(a call of a function of the package that contains a `global` statement), hash (builtin hash()), id (builtin id()), uuid, wallclock
(time.time/monotonic/perf_counter, datetime.now/utcnow/today), urandom
(os.urandom, secrets.*), globalrandom (module-level random.* / numpy.random.*
functions, i.e. the process-global RNG), setiter (iteration / list() / tuple() /
next(iter()) / .pop() / min / max / random.choice over an attribute or local whose
initialiser or annotation is a set), completion_order (a loop over concurrent.futures.as_completed / wait: the
order is wall-clock timing; the detail lists every name the body assigns and every method it calls).
C07 kinds: wait_loop (every while loop of a generator that yields: what it yields per round decides whether it can spin),
stale_now (in a generator: a name bound from `.now` before a `yield`
and used in Event(time=...) after it, or an Event built before a yield and
emitted after it), spin (while ...: yield 0 / 0.0 / self-returning zero delay),
neg_time (Event(time=<now> - ...)).

The extractor is incomplete by nature (aliasing, sets passed as parameters);
that is stated in the trusted base; the monitored scenario runs exist to catch
what it misses.  Anything it cannot parse makes it raise (fail closed).
"""
from __future__ import annotations

import ast
import os
import sys

WALL = {("time", "time"), ("time", "monotonic"), ("time", "perf_counter"), ("time", "time_ns"), ("time", "monotonic_ns"),
        ("_time", "time"), ("_time", "monotonic"), ("_time", "perf_counter"),
        ("datetime", "now"), ("datetime", "utcnow"), ("datetime", "today"), ("date", "today")}
GLOBAL_RANDOM_FUNCS = {"random", "uniform", "randint", "randrange", "choice", "choices", "shuffle", "sample", "gauss",
                       "expovariate", "normalvariate", "lognormvariate", "betavariate", "gammavariate", "paretovariate",
                       "weibullvariate", "triangular", "vonmisesvariate", "getrandbits", "randbytes", "seed"}


def dotted(n):
    if isinstance(n, ast.Name):
        return n.id
    if isinstance(n, ast.Attribute):
        b = dotted(n.value)
        return f"{b}.{n.attr}" if b else None
    return None


def is_set_expr(n):
    if isinstance(n, (ast.Set, ast.SetComp)):
        return True
    if isinstance(n, ast.Call) and isinstance(n.func, ast.Name) and n.func.id in ("set", "frozenset"):
        return True
    return False


def is_set_ann(a):
    s = ast.unparse(a) if a is not None else ""
    return s.startswith(("set[", "frozenset[", "Set[", "FrozenSet[", "set ", "frozenset ")) or s in ("set", "frozenset")


class Collector(ast.NodeVisitor):
    GLOBAL_WRITERS: set = set()       # names of package functions that contain a `global` statement (filled by extract)
    IMMUTABLE_CALLS = ("float", "int", "str", "bool", "tuple", "frozenset", "bytes", "field", "logging.getLogger", "TypeVar",
                       "contextvars.ContextVar", "ContextVar", "re.compile", "auto", "namedtuple", "NewType", "Instant", "Duration",
                       "Instant.from_seconds", "Duration.from_seconds", "object", "property", "staticmethod", "classmethod", "Enum")

    def mutable_value(self, v):
        if isinstance(v, (ast.List, ast.Dict, ast.Set, ast.ListComp, ast.DictComp, ast.SetComp)):
            return True
        if isinstance(v, ast.Call):
            nm = dotted(v.func) or ""
            return nm not in self.IMMUTABLE_CALLS and nm.split(".")[-1] not in ("getLogger", "TypeVar", "field")
        return False

    def scan_bindings(self, body, where):
        for st in body:
            v = st.value if isinstance(st, (ast.Assign, ast.AnnAssign)) else None
            if v is None or not self.mutable_value(v):
                continue
            nm = ast.unparse(st.targets[0]) if isinstance(st, ast.Assign) else ast.unparse(st.target)
            if nm == "__all__" or nm.startswith("__") or (nm.isupper() and isinstance(v, (ast.List, ast.Dict, ast.Set)) is False and False):
                continue
            if isinstance(st, ast.AnnAssign) and "ClassVar" not in ast.unparse(st.annotation) and where != "<module>" and self.in_dataclass:
                continue       # dataclass field default (rejected by dataclasses when mutable)
            self.stack.append(where) if where != "<module>" and not self.stack else None
            self.add("module_state", f"{nm} = {ast.unparse(v)[:50]}")

    def __init__(self, rel):
        self.rel = rel
        self.in_dataclass = False
        self.stack = []
        self.sites = []
        self.counts = {}
        self.set_attrs = set()      # attribute names known to hold sets (class-wide, per file)
        self.set_locals = [set()]

    # -- helpers
    def qual(self):
        return ".".join(self.stack) or "<module>"

    def add(self, kind, detail):
        key = (self.qual(), kind, detail)
        k = self.counts.get(key, 0)
        self.counts[key] = k + 1
        self.sites.append((self.rel, self.qual(), kind, detail, k))

    def is_set_ref(self, n):
        if isinstance(n, ast.Attribute) and isinstance(n.value, ast.Name) and n.value.id == "self" and n.attr in self.set_attrs:
            return True
        if isinstance(n, ast.Name) and n.id in self.set_locals[-1]:
            return True
        return is_set_expr(n)

    # -- first pass: which attributes are sets
    def prescan(self, tree):
        for node in ast.walk(tree):
            if isinstance(node, ast.Assign):
                for t in node.targets:
                    if isinstance(t, ast.Attribute) and isinstance(t.value, ast.Name) and t.value.id == "self" and is_set_expr(node.value):
                        self.set_attrs.add(t.attr)
            elif isinstance(node, ast.AnnAssign):
                t = node.target
                if isinstance(t, ast.Attribute) and isinstance(t.value, ast.Name) and t.value.id == "self":
                    if is_set_ann(node.annotation) or (node.value is not None and is_set_expr(node.value)):
                        self.set_attrs.add(t.attr)

    # -- traversal
    def visit_Module(self, node):
        self.scan_bindings(node.body, "<module>")
        self.generic_visit(node)

    def visit_Global(self, node):
        self.add("global_stmt", "global " + ", ".join(node.names))

    def visit_ClassDef(self, node):
        self.in_dataclass = any("dataclass" in ast.unparse(d) for d in node.decorator_list)
        is_enum = any("Enum" in ast.unparse(b) for b in node.bases)
        self.stack.append(node.name)
        if not is_enum:
            self.scan_bindings(node.body, node.name)
        self.stack.pop()
        self.in_dataclass = False
        # methods of this class that build an event stamped with the current clock and return it
        self.factories = getattr(self, "factories", [])
        facs = set()
        for m in node.body:
            if isinstance(m, ast.FunctionDef) and not any(isinstance(y, (ast.Yield, ast.YieldFrom)) for y in ast.walk(m)):
                stamped = any(isinstance(c, ast.Call) and dotted(c.func) in ("Event", "Event.once")
                              and any(isinstance(a, ast.Attribute) and a.attr == "now"
                                      for k in c.keywords if k.arg == "time" for a in ast.walk(k.value))
                              for c in ast.walk(m))
                if stamped and any(isinstance(r, ast.Return) and r.value is not None for r in ast.walk(m)):
                    facs.add(m.name)
        self.factories.append(facs)
        self.stack.append(node.name)
        self.generic_visit(node)
        self.stack.pop()
        self.factories.pop()

    def visit_FunctionDef(self, node):
        self.stack.append(node.name)
        for d in node.args.defaults + [x for x in node.args.kw_defaults if x is not None]:
            if self.mutable_value(d):
                self.add("shared_default", ast.unparse(d)[:60])
        self.set_locals.append(set())
        for n in ast.walk(node):
            if isinstance(n, ast.Assign) and is_set_expr(n.value):
                for t in n.targets:
                    if isinstance(t, ast.Name):
                        self.set_locals[-1].add(t.id)
            elif isinstance(n, ast.AnnAssign) and isinstance(n.target, ast.Name) and (is_set_ann(n.annotation) or (n.value is not None and is_set_expr(n.value))):
                self.set_locals[-1].add(n.target.id)
        self.scan_generator(node)
        self.scan_closure_events(node)
        self.scan_event_times(node)
        self.generic_visit(node)
        self.set_locals.pop()
        self.stack.pop()

    visit_AsyncFunctionDef = visit_FunctionDef

    def visit_For(self, node):
        if self.is_set_ref(node.iter):
            self.add("setiter", "for " + ast.unparse(node.iter))
        it = node.iter
        if isinstance(it, ast.Call) and (dotted(it.func) or "").split(".")[-1] in ("as_completed", "wait"):
            # thread / future completion order is wall-clock timing: everything the loop body writes or calls
            # is part of the site, so that a body that starts to feed the order into the run shows up
            writes = set()
            for sub in ast.walk(ast.Module(body=node.body, type_ignores=[])):
                if isinstance(sub, (ast.Assign, ast.AugAssign, ast.AnnAssign)):
                    for t in (sub.targets if isinstance(sub, ast.Assign) else [sub.target]):
                        for leaf in ast.walk(t):
                            if isinstance(leaf, ast.Name):
                                writes.add(leaf.id)
                            elif isinstance(leaf, ast.Attribute) and dotted(leaf):
                                writes.add(dotted(leaf))
                elif isinstance(sub, ast.Call) and isinstance(sub.func, ast.Attribute) and dotted(sub.func):
                    writes.add(dotted(sub.func) + "()")
            self.add("completion_order", "writes/calls: " + ", ".join(sorted(writes)))
        self.generic_visit(node)

    def visit_comprehension(self, node):
        if self.is_set_ref(node.iter):
            self.add("setiter", "comp " + ast.unparse(node.iter))
        self.generic_visit(node)

    def visit_Call(self, node):
        f = node.func
        f._is_callee = True
        name = dotted(f)
        if (dotted(f) or "").split(".")[-1] in self.GLOBAL_WRITERS:
            self.add("global_writer_call", dotted(f))
        if isinstance(f, ast.Name):
            if f.id == "hash" and self.stack[-1:] != ["__hash__"]:
                self.add("hash", ast.unparse(node)[:60])
            elif f.id == "id":
                self.add("id", ast.unparse(node)[:60])
            elif f.id in ("list", "tuple", "min", "max", "next", "iter") and node.args:
                a = node.args[0]
                if f.id == "next" and isinstance(a, ast.Call) and isinstance(a.func, ast.Name) and a.func.id == "iter" and a.args:
                    a = a.args[0]
                if self.is_set_ref(a):
                    self.add("setiter", f"{f.id}({ast.unparse(a)})")
        if name:
            parts = name.split(".")
            if parts[0] == "uuid" or (len(parts) >= 2 and parts[-1] in ("uuid4", "uuid1")):
                self.add("uuid", name)
            if len(parts) >= 2 and (parts[-2], parts[-1]) in WALL:
                self.add("wallclock", name)
            if name in ("os.urandom",) or parts[0] == "secrets":
                self.add("urandom", name)
            if len(parts) == 2 and parts[0] == "random" and parts[1] in GLOBAL_RANDOM_FUNCS:
                self.add("globalrandom", name)
            if len(parts) >= 3 and parts[-2] == "random" and parts[0] in ("np", "numpy"):
                self.add("globalrandom", name)
            if isinstance(f, ast.Attribute) and f.attr == "pop" and not node.args and self.is_set_ref(f.value):
                self.add("setiter", ast.unparse(f.value) + ".pop()")
            if len(parts) == 2 and parts[0] == "random" and parts[1] in ("choice", "sample") and node.args:
                a = node.args[0]
                if isinstance(a, ast.Call) and isinstance(a.func, ast.Name) and a.func.id in ("list", "tuple") and a.args and self.is_set_ref(a.args[0]):
                    self.add("setiter", f"random.{parts[1]}(list({ast.unparse(a.args[0])}))")
        self.generic_visit(node)

    def visit_Attribute(self, node):
        name = dotted(node)
        if name:
            parts = name.split(".")
            if len(parts) >= 2 and (parts[-2], parts[-1]) in WALL and not getattr(node, "_is_callee", False):
                self.add("wallclock_ref", name)
        self.generic_visit(node)

    # -- C07: generators
    def scan_generator(self, fn):
        body_nodes = [n for n in ast.walk(fn) if not isinstance(n, (ast.FunctionDef, ast.AsyncFunctionDef, ast.Lambda)) or n is fn]
        yields = sorted(n.lineno for n in ast.walk(fn) if isinstance(n, (ast.Yield, ast.YieldFrom)) and self.owner(fn, n))
        if not yields:
            return
        # names bound from `.now`
        now_names = {}
        for n in ast.walk(fn):
            if isinstance(n, ast.Assign) and len(n.targets) == 1 and isinstance(n.targets[0], ast.Name):
                src = ast.unparse(n.value)
                if any(isinstance(x, ast.Attribute) and x.attr == "now" for x in ast.walk(n.value)):
                    now_names.setdefault(n.targets[0].id, []).append(n.lineno)
        for n in ast.walk(fn):
            if isinstance(n, ast.Call) and dotted(n.func) in ("Event", "Event.once"):
                tkw = next((k.value for k in n.keywords if k.arg == "time"), n.args[0] if n.args else None)
                if tkw is None:
                    continue
                tsrc = ast.unparse(tkw)
                used = {x.id for x in ast.walk(tkw) if isinstance(x, ast.Name)}
                for nm in sorted(used & set(now_names)):
                    bound = max((ln for ln in now_names[nm] if ln <= n.lineno), default=None)
                    if bound is not None and any(bound < y < n.lineno for y in yields):
                        self.add("stale_now", f"Event(time={tsrc[:40]}) name {nm} bound before a yield")
                if (" - " in tsrc or tsrc.startswith("-")) and ".now" in tsrc:
                    self.add("neg_time", f"Event(time={tsrc[:50]})")
                # event built (with time from .now) before a later yield and not yielded at once
                if ".now" in tsrc and any(y > n.lineno for y in yields):
                    par = self.parent_stmt(fn, n)
                    if isinstance(par, (ast.Assign, ast.AugAssign, ast.Expr)) and not any(isinstance(x, (ast.Yield, ast.YieldFrom)) for x in ast.walk(par)):
                        # benign when the very next yield is a zero-delay `yield 0, [events]`
                        # (emitted at the same instant it was built)
                        nxt = min((y for y in ast.walk(fn) if isinstance(y, ast.Yield) and y.lineno > n.lineno and self.owner(fn, y)),
                                  key=lambda y: y.lineno, default=None)
                        zero_emit = (nxt is not None and isinstance(nxt.value, ast.Tuple) and nxt.value.elts
                                     and isinstance(nxt.value.elts[0], ast.Constant) and nxt.value.elts[0].value in (0, 0.0))
                        if not zero_emit:
                            self.add("stale_now", f"Event(time={tsrc[:40]}) built before a later yield")
        # a call of an event factory of the same class (a method that stamps an event with the clock and
        # returns it) kept in a local before a later yield: the stamp is stale when the event is emitted
        facs = self.factories[-1] if getattr(self, "factories", None) else set()
        for n in ast.walk(fn):
            if isinstance(n, ast.Call) and isinstance(n.func, ast.Attribute) and isinstance(n.func.value, ast.Name) \
                    and n.func.value.id == "self" and n.func.attr in facs and self.owner(fn, n):
                par = self.parent_stmt(fn, n)
                if isinstance(par, (ast.Assign, ast.AugAssign, ast.AnnAssign)) or \
                        (isinstance(par, ast.Expr) and not isinstance(par.value, (ast.Yield, ast.YieldFrom))):
                    if any(y > par.end_lineno for y in yields):
                        self.add("stale_now", f"event from self.{n.func.attr}() kept before a later yield")
        for n in ast.walk(fn):
            if isinstance(n, ast.While) and self.owner(fn, n):
                for b in n.body:
                    for y in ast.walk(b):
                        if isinstance(y, ast.Yield) and y.value is not None:
                            v = y.value.elts[0] if isinstance(y.value, ast.Tuple) and y.value.elts else y.value
                            if isinstance(v, ast.Constant) and v.value in (0, 0.0):
                                self.add("spin", "while " + ast.unparse(n.test)[:50] + ": yield 0")
                            else:
                                # every other loop that yields: how long each round waits decides whether it can spin
                                self.add("wait_loop", "while " + ast.unparse(n.test)[:50] + ": yield " + ast.unparse(v)[:50])
                        elif isinstance(y, ast.YieldFrom):
                            # a loop that delegates each round to another generator: whether a round takes
                            # simulated time is decided there
                            self.add("wait_loop", "while " + ast.unparse(n.test)[:50] + ": yield from " + ast.unparse(y.value)[:50])

    def scan_closure_events(self, fn):
        """Events stamped with `.now` in `fn`, kept in a local, and emitted by a nested
        generator after it has yielded (the stamp is stale by then)."""
        nested = [n for n in ast.walk(fn) if n is not fn and isinstance(n, (ast.FunctionDef, ast.AsyncFunctionDef))]
        gens = [g for g in nested if any(isinstance(y, (ast.Yield, ast.YieldFrom)) and self.owner(g, y) for y in ast.walk(g))]
        if not gens:
            return
        holders = set()
        for st in ast.walk(fn):
            if any(st is x for g in nested for x in ast.walk(g)):
                continue
            calls = [c for c in ast.walk(st) if isinstance(c, ast.Call) and dotted(c.func) in ("Event", "Event.once")] if isinstance(st, ast.stmt) else []
            stamped = any(any(isinstance(a, ast.Attribute) and a.attr == "now" for k in c.keywords if k.arg == "time" for a in ast.walk(k.value)) for c in calls)
            if not stamped:
                continue
            if isinstance(st, ast.Assign):
                holders |= {t.id for t in st.targets if isinstance(t, ast.Name)}
            elif isinstance(st, ast.Expr) and isinstance(st.value, ast.Call) and isinstance(st.value.func, ast.Attribute) \
                    and st.value.func.attr in ("append", "extend") and isinstance(st.value.func.value, ast.Name):
                holders.add(st.value.func.value.id)
        # propagate through  other.append(holder) / other.extend(holder) / other = holder / [holder, ...]
        changed = True
        while changed:
            changed = False
            for st in ast.walk(fn):
                if any(st is x for g in nested for x in ast.walk(g)):
                    continue
                if isinstance(st, ast.Expr) and isinstance(st.value, ast.Call) and isinstance(st.value.func, ast.Attribute) \
                        and st.value.func.attr in ("append", "extend") and isinstance(st.value.func.value, ast.Name):
                    if any(isinstance(a, ast.Name) and a.id in holders for arg in st.value.args for a in ast.walk(arg)):
                        if st.value.func.value.id not in holders:
                            holders.add(st.value.func.value.id)
                            changed = True
                elif isinstance(st, ast.Assign) and any(isinstance(a, ast.Name) and a.id in holders for a in ast.walk(st.value)):
                    for t in st.targets:
                        if isinstance(t, ast.Name) and t.id not in holders:
                            holders.add(t.id)
                            changed = True
        for g in gens:
            used = {x.id for x in ast.walk(g) if isinstance(x, ast.Name)} & holders
            for nm in sorted(used):
                self.add("stale_now", f"events in '{nm}' stamped in the enclosing function, emitted by nested generator {g.name} after a yield")

    # -- C07: where does the timestamp of every emitted event come from?
    def now_derived(self, fn, expr, depth=0):
        """True when `expr` is recognisably the current instant plus something: it reads a `.now`
        attribute (self.now, self._clock.now, ...), or the triggering event's own time, or a local
        name all of whose bindings in `fn` are such expressions.  Subtractions are left to neg_time."""
        if any(isinstance(x, ast.Attribute) and x.attr == "now" for x in ast.walk(expr)):
            return True
        src = ast.unparse(expr)
        params = [a.arg for a in fn.args.args]
        if isinstance(expr, ast.Attribute) and expr.attr == "time" and isinstance(expr.value, ast.Name) and expr.value.id in params:
            return True
        if isinstance(expr, ast.Name) and depth < 3:
            binds = [n.value for n in ast.walk(fn) if isinstance(n, ast.Assign) and any(isinstance(t, ast.Name) and t.id == expr.id for t in n.targets)]
            binds += [n.value for n in ast.walk(fn) if isinstance(n, ast.AnnAssign) and isinstance(n.target, ast.Name) and n.target.id == expr.id and n.value is not None]
            return bool(binds) and all(self.now_derived(fn, b, depth + 1) for b in binds)
        if isinstance(expr, ast.BinOp) and isinstance(expr.op, ast.Add):
            return self.now_derived(fn, expr.left, depth) or self.now_derived(fn, expr.right, depth)
        if isinstance(expr, ast.IfExp):
            return self.now_derived(fn, expr.body, depth) and (self.now_derived(fn, expr.orelse, depth) or "Epoch" in ast.unparse(expr.orelse))
        if isinstance(expr, ast.Call) and expr.args and ast.unparse(expr.func).endswith(("from_seconds", "max")):
            return any(self.now_derived(fn, a, depth) for a in expr.args)
        return False

    def expand(self, fn, expr):
        """time expression with the local names it mentions expanded one level (all their bindings)."""
        out = [ast.unparse(expr)]
        for nm in sorted({x.id for x in ast.walk(expr) if isinstance(x, ast.Name)} - {"self"}):
            binds = sorted({ast.unparse(n.value) for n in ast.walk(fn) if isinstance(n, ast.Assign)
                            and any(isinstance(t, ast.Name) and t.id == nm for t in n.targets)})
            if binds:
                out.append(f"{nm} := " + " | ".join(binds))
        return "; ".join(out)[:200]

    def scan_event_times(self, fn):
        if not self.rel.startswith(("happysimulator/components/", "happysimulator/faults/", "happysimulator/load/", "happysimulator/behavior/")):
            return
        for n in ast.walk(fn):
            if isinstance(n, ast.Call) and dotted(n.func) in ("Event", "Event.once") and self.owner(fn, n):
                tkw = next((k.value for k in n.keywords if k.arg == "time"), n.args[0] if n.args else None)
                if tkw is None:
                    self.add("event_time", "no time argument")
                    continue
                if not self.now_derived(fn, tkw):
                    self.add("event_time", "time=" + self.expand(fn, tkw))

    def owner(self, fn, node):
        # is `node` directly inside fn (not in a nested def)?
        for sub in ast.walk(fn):
            if sub is not fn and isinstance(sub, (ast.FunctionDef, ast.AsyncFunctionDef, ast.Lambda)):
                if any(x is node for x in ast.walk(sub)):
                    return False
        return True

    def parent_stmt(self, fn, node):
        best = None
        for st in ast.walk(fn):
            if isinstance(st, ast.stmt) and any(x is node for x in ast.walk(st)):
                if best is None or (st.lineno >= best.lineno and st.end_lineno <= best.end_lineno):
                    best = st
        return best


def extract(repo=None):
    repo = repo or os.environ.get("HS_REPO", "/repo")
    root = os.path.join(repo, "happysimulator")
    sites = []
    nfiles = 0
    writers = set()
    for dp, dns, fns in os.walk(root):
        for fn in fns:
            if fn.endswith(".py"):
                t = ast.parse(open(os.path.join(dp, fn), encoding="utf-8").read())
                for f in ast.walk(t):
                    if isinstance(f, (ast.FunctionDef, ast.AsyncFunctionDef)) and any(isinstance(x, ast.Global) for x in ast.walk(f)):
                        writers.add(f.name)
    Collector.GLOBAL_WRITERS = writers
    for dp, dns, fns in os.walk(root):
        dns.sort()
        for fn in sorted(fns):
            if not fn.endswith(".py"):
                continue
            p = os.path.join(dp, fn)
            rel = os.path.relpath(p, repo)
            tree = ast.parse(open(p, encoding="utf-8").read(), filename=p)     # raises on syntax errors: fail closed
            c = Collector(rel)
            c.prescan(tree)
            c.visit(tree)
            sites.extend(c.sites)
            nfiles += 1
    return sites, nfiles


C03_KINDS = ("hash", "id", "uuid", "wallclock", "wallclock_ref", "urandom", "globalrandom", "setiter", "completion_order",
             "shared_default", "module_state", "global_stmt", "global_writer_call")
C07_KINDS = ("stale_now", "spin", "neg_time", "event_time", "wait_loop")


def coq_string(s):
    return '"' + s.replace('"', '""') + '"'


def emit_coq(sites, name):
    rows = [f"  ({coq_string(f)}, {coq_string(q)}, {coq_string(k)}, {coq_string(d)}, {o})" for f, q, k, d, o in sites]
    return ("(* GENERATED on every run by harness/translate/sites.py from $HS_REPO/happysimulator -- do not edit *)\n"
            "From Coq Require Import String List ZArith.\nImport ListNotations.\nLocal Open Scope string_scope.\nLocal Open Scope Z_scope.\n"
            f"Definition {name} : list (string * string * string * string * Z) := [\n" + ";\n".join(rows) + "\n].\n")


if __name__ == "__main__":
    sites, n = extract()
    from collections import Counter
    print(n, "files", len(sites), "sites", Counter(s[2] for s in sites))
    if len(sys.argv) > 1:
        for s in sites:
            if s[2] in sys.argv[1:]:
                print(s)
